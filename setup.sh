#!/bin/bash
# Offline build of the verification framework: regenerate Gen/*.v from /repo, full .vo build.
set -e
cd "$(dirname "$0")"
python3 harness/regen_all.py || true     # a failing translator is reported by the property's own check
cd coq
coq_makefile -f _CoqProject -o Makefile
timeout 3000 make -j16 || true           # a failing proof is reported by the property's own check
