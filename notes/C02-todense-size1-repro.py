import renormalizer, numpy as np
from renormalizer import Op, Model, Mpo, BasisHalfSpin, BasisSHO
from renormalizer.tn import BasisTree, TTNO, TTNS
bs = [BasisHalfSpin("s"), BasisSHO("v", omega=1.0, nbas=1)]          # a frozen mode: one basis function
terms = [Op("sigma_z", "s", 1.0), Op("x^2", "v", 0.5), Op("sigma_x x^2", ["s", "v"], 0.25)]
print("Mpo dense shape", Mpo(Model(bs, terms)).todense().shape)
ref = np.kron(np.diag([1., -1.]), np.eye(1)) + 0.5 * np.kron(np.eye(2), bs[1].op_mat("x^2")) + 0.25 * np.kron(np.array([[0, 1.], [1, 0]]), bs[1].op_mat("x^2"))
for name, tree in [("linear", BasisTree.linear(bs)), ("binary", BasisTree.binary(bs))]:
    t = TTNO(tree, terms)
    try:
        d = t.todense(bs); print(name, "TTNO.todense ok", np.abs(d - ref).max())
    except Exception as e:
        print(name, "TTNO.todense raised", type(e).__name__, e)
    try:
        s = TTNS.random(tree, 0, 2); print(name, "TTNS.todense ok", s.todense(bs).shape)
    except Exception as e:
        print(name, "TTNS raised", type(e).__name__, e)
