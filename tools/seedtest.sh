#!/bin/bash
# tools/seedtest.sh <ID> <patchdir> : apply <patchdir>/patch.diff to a scratch worktree of /repo HEAD, run the demo
# (must fail there) and the property's quick check with VERIF_REPO pointing at it (should exit 1 with a VIOLATION).
ID=$1; D=$2; WT=/tmp/wt_seed_$ID_$$
git -C /repo worktree add -q --detach $WT HEAD || exit 2
if ! git -C $WT apply $D/patch.diff; then echo "PATCH-DOES-NOT-APPLY"; git -C /repo worktree remove --force $WT; exit 3; fi
if [ -f $D/demo.py ]; then
  (cd / && PYTHONPATH=$WT:/verif/pylib PYTHONHASHSEED=0 RENO_LOG_LEVEL=40 timeout 900 /venv/bin/python $D/demo.py > /tmp/seed_demo_$$.log 2>&1); echo "demo-on-mutant rc=$?"
  (cd / && PYTHONPATH=/repo:/verif/pylib PYTHONHASHSEED=0 RENO_LOG_LEVEL=40 timeout 900 /venv/bin/python $D/demo.py > /tmp/seed_demo0_$$.log 2>&1); echo "demo-on-head rc=$?"
fi
cd /verif && VERIF_EVIDENCE_DIR=/tmp/seed_evidence_$$ VERIF_REPO=$WT timeout 2400 ./check $ID --tier quick > /tmp/seed_check_$$.log 2>&1; rc=$?
echo "check-on-mutant rc=$rc"; grep -E "^VIOLATION|^KNOWN|^\[C" /tmp/seed_check_$$.log | cut -c1-250
git -C /repo worktree remove --force $WT
rm -rf /tmp/seed_evidence_$$; rm -f /tmp/seed_demo_$$.log /tmp/seed_demo0_$$.log /tmp/seed_check_$$.log
