#!/bin/bash
# tools/revert_audit.sh [LOG]: for every "fixed:" line of known_findings.txt revert that commit in a scratch worktree of /repo HEAD
# and run the property's quick check against it: the violation must be reported again (a fixed entry suppresses nothing).
cd "$(dirname "$0")/.."; LOG=${1:-/tmp/revert_audit.log}; : > $LOG
grep '^fixed:' known_findings.txt | while read -r _ prop hash rest; do
  pid=${prop#property=}; WT=/tmp/rv_$hash
  git -C /repo worktree remove --force $WT >/dev/null 2>&1; rm -rf $WT
  git -C /repo worktree add --detach $WT HEAD >/dev/null 2>&1
  if git -C $WT revert --no-commit $hash >/dev/null 2>&1; then
    out=$(VERIF_EVIDENCE_DIR=/tmp/rv_ev VERIF_REPO=$WT ./check $pid 2>&1 | grep -E "^VIOLATION|^\[C" | cut -c1-150)
    nv=$(echo "$out" | grep -c '^VIOLATION'); nf=$(echo "$out" | grep '^VIOLATION' | grep -vc 'no-failing-input-found')
    echo "$pid $hash violations=$nv with_input=$nf :: $(echo "$out" | tail -1)" >> $LOG
  else
    echo "$pid $hash REVERT-CONFLICT" >> $LOG
  fi
  git -C /repo worktree remove --force $WT >/dev/null 2>&1; rm -rf $WT
done
python3 harness/regen_all.py >/dev/null 2>&1
echo done >> $LOG
