#!/bin/bash
# tools/runall.sh [tier] : run every claimed check (4 at a time), print one summary line per property
TIER=${1:-quick}; cd /verif; rm -f /tmp/runall_*.log
for p in $(cat harness/ready.txt); do echo $p; done | OMP_NUM_THREADS=1 xargs -P 4 -I{} sh -c "timeout 7200 ./check {} --tier $TIER > /tmp/runall_{}.log 2>&1; echo {} rc=\$? >> /tmp/runall_rc.log"
for p in $(cat harness/ready.txt); do echo "== $p $(grep "^$p rc" /tmp/runall_rc.log | tail -n 1)"; grep -E "^VIOLATION|^KNOWN|^\[C" /tmp/runall_$p.log | cut -c1-180; done
