#!/bin/bash
# tools/runall.sh [tier] : run every claimed check (4 at a time), print one summary line per property
TIER=${1:-quick}; L=${RUNALL_LOGDIR:-/tmp}; P=${RUNALL_PAR:-4}; cd "$(dirname "$0")/.."; mkdir -p $L; rm -f $L/runall_*.log
for p in $(cat harness/ready.txt); do echo $p; done | OMP_NUM_THREADS=1 xargs -P $P -I{} sh -c "timeout 7200 ./check {} --tier $TIER > $L/runall_{}.log 2>&1; echo {} rc=\$? >> $L/runall_rc.log"
for p in $(cat harness/ready.txt); do echo "== $p $(grep "^$p rc" $L/runall_rc.log | tail -n 1)"; grep -E "^VIOLATION|^KNOWN|^\[C" $L/runall_$p.log | cut -c1-180; done
