#!/usr/bin/env python3
"""Regenerates the machine-written tables of DESIGN.md (between the AUTO markers) from
harness/meta, evidence/, seeded/*/meta.json and known_findings.txt."""
import glob
import json
import os
import re

V = os.path.dirname(os.path.dirname(os.path.abspath(__file__)))


def props_table():
    rows = ["| id | claimed | theorems (discharged/obligations) | evaluations | non-trivial | quick wall s | technique |", "|---|---|---|---|---|---|---|"]
    ready = open(os.path.join(V, "harness", "ready.txt")).read().split()
    for i in range(1, 21):
        pid = "C%02d" % i
        meta = os.path.join(V, "harness", "meta", pid + ".json")
        evf = os.path.join(V, "evidence", pid + ".json")
        tech = json.load(open(meta)).get("technique", "") if os.path.exists(meta) else ""
        if os.path.exists(evf):
            ev = json.load(open(evf))
            c = ev["coverage"]
            rows.append("| %s | %s | %s/%s | %s | %s | %s | %s |" % (pid, "yes" if pid in ready else "not yet", c.get("discharged"), c.get("obligations"),
                                                               c.get("evaluations"), c.get("distinct_nontrivial"), int(ev.get("wall_s", 0)), tech))
        else:
            rows.append("| %s | %s | - | - | - | - | %s |" % (pid, "yes" if pid in ready else "not yet", tech))
    return "\n".join(rows)


def theorem_list():
    out = []
    for i in range(1, 21):
        pid = "C%02d" % i
        f = os.path.join(V, "coq", "Props", pid + ".v")
        if not os.path.exists(f):
            continue
        names = re.findall(r"^\s*(?:Theorem|Lemma|Corollary)\s+([A-Za-z0-9_']+)", open(f).read(), re.M)
        out.append("* **%s** (%d): %s" % (pid, len(names), ", ".join("`%s`" % n for n in names)))
    return "\n".join(out)


def seeds_table():
    rows = ["| seeded change | property | what it breaks | needs to manifest | caught by `./check` | how it shows |", "|---|---|---|---|---|---|"]
    for d in sorted(glob.glob(os.path.join(V, "seeded", "*"))):
        mf = os.path.join(d, "meta.json")
        if not os.path.exists(mf):
            continue
        m = json.load(open(mf))
        cc = m.get("coordinator_confirmation", {})
        lines = [l for l in cc.get("check_lines", []) if l.startswith("VIOLATION")]
        keys = sorted(set(re.sub(r".*replays/C\d+-(.*?)-[0-9a-f]{8}\.json.*", r"\1", l) + (" (no-failing-input-found)" if "no-failing-input-found" in l else "") for l in lines))
        caught = cc.get("caught")
        if m.get("closed_after_strengthening"):
            caught_s = "yes (after strengthening: %s)" % m["closed_after_strengthening"]
        else:
            caught_s = "yes" if caught else "**no**"
        def cell(x):
            return str(x).replace("|", "/").replace("\n", " ")[:260]
        rows.append("| %s | %s | %s | %s | %s | %s |" % (os.path.basename(d), m.get("property"), cell(m.get("title", "")) + ": " + cell(m.get("what_it_breaks", "")),
                                                    cell(m.get("needs_to_manifest", "")), caught_s, cell("; ".join(keys))))
    return "\n".join(rows)


def rounds():
    r = {}
    for d in sorted(glob.glob(os.path.join(V, "seeded", "*"))):
        mf = os.path.join(d, "meta.json")
        if not os.path.exists(mf):
            continue
        m = json.load(open(mf))
        n = os.path.basename(d)
        rd = (int(n.split("-m")[1]) + 1) // 2
        miss = bool(m.get("closed_after_strengthening")) or not m.get("coordinator_confirmation", {}).get("caught")
        r.setdefault(rd, [[], []])[0 if miss else 1].append(n)
    rows = []
    for rd in sorted(r):
        rows.append("* round %d: %d of %d missed on the first run%s" % (rd, len(r[rd][0]), len(r[rd][0]) + len(r[rd][1]), (" (" + ", ".join(r[rd][0]) + ")") if r[rd][0] else ""))
    return "\n".join(rows)


def findings():
    rows = []
    for l in open(os.path.join(V, "known_findings.txt")):
        l = l.strip()
        if l.startswith(("fixed:", "known:")):
            rows.append("* `" + l[:6] + "` " + l[7:])
    return "\n".join(rows)


def main():
    p = os.path.join(V, "DESIGN.md")
    s = open(p).read()
    for tag, fn in (("PROPS", props_table), ("THEOREMS", theorem_list), ("SEEDS", seeds_table), ("ROUNDS", rounds), ("FINDINGS", findings)):
        a, b = "<!-- AUTO:%s -->" % tag, "<!-- /AUTO:%s -->" % tag
        if a in s and b in s:
            i, j = s.index(a) + len(a), s.index(b)
            s = s[:i] + "\n" + fn() + "\n" + s[j:]
    open(p, "w").write(s)


if __name__ == "__main__":
    main()
