#!/usr/bin/env python3
"""tools/seedkeep.py <ID> <mK> [srcdir] : confirm a seeded change (patch applies to HEAD, demo fails with it and passes
without it), run the property's quick check against the mutated scratch worktree, and keep it under seeded/<ID>-<mK>/."""
import json, os, re, shutil, subprocess, sys
pid, m = sys.argv[1], sys.argv[2]
src = sys.argv[3] if len(sys.argv) > 3 else "/tmp/seed_out/%s/%s" % (pid, m)
out = subprocess.run(["/verif/tools/seedtest.sh", pid, src], stdout=subprocess.PIPE, stderr=subprocess.STDOUT, text=True).stdout
print(out)
def rc(tag):
    mm = re.search(tag + r" rc=(\d+)", out)
    return int(mm.group(1)) if mm else None
res = {"patch_applies_to_head": "PATCH-DOES-NOT-APPLY" not in out,
       "demo_rc_on_mutant": rc("demo-on-mutant"), "demo_rc_on_head": rc("demo-on-head"),
       "check_rc_on_mutant": rc("check-on-mutant"),
       "check_lines": [l for l in out.splitlines() if l.startswith(("VIOLATION", "KNOWN", "["))],
       "repo_head": subprocess.run(["git", "-C", "/repo", "rev-parse", "--short", "HEAD"], stdout=subprocess.PIPE, text=True).stdout.strip(),
       "how": "tools/seedtest.sh: scratch worktree of /repo HEAD + patch; demo.py on mutant and on HEAD; VERIF_REPO=<worktree> ./check %s --tier quick" % pid}
res["caught"] = res["check_rc_on_mutant"] == 1 and any(l.startswith("VIOLATION") for l in res["check_lines"])
res["valid_seed"] = res["patch_applies_to_head"] and res["demo_rc_on_mutant"] not in (0, None) and res["demo_rc_on_head"] == 0
dst = "/verif/seeded/%s-%s" % (pid, m)
os.makedirs(dst, exist_ok=True)
for f in ("patch.diff", "demo.py"):
    if os.path.abspath(src) != os.path.abspath(dst):
        shutil.copy(os.path.join(src, f), os.path.join(dst, f))
meta = json.load(open(os.path.join(src, "meta.json")))
if "coordinator_confirmation" in meta and not meta["coordinator_confirmation"].get("caught") and res["caught"]:
    meta["first_run"] = {"caught": False, "check_lines": meta["coordinator_confirmation"].get("check_lines")}
    if len(sys.argv) > 4:
        meta["closed_after_strengthening"] = sys.argv[4]
meta["coordinator_confirmation"] = res
json.dump(meta, open(os.path.join(dst, "meta.json"), "w"), indent=1)
print("caught" if res["caught"] else "MISSED", "valid" if res["valid_seed"] else "INVALID-SEED")
