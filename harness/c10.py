"""C10: imaginary-time and thermal propagation yield the Gibbs state."""
import itertools
import json
import os
import sys
from fractions import Fraction

import common
sys.path.insert(0, os.path.join(common.VERIF, "tx"))
sys.path.insert(0, os.path.join(common.VERIF, "harness"))
import rk as txrk
import evolveexact as txee
import thermalsites as txts
import c09 as C9

REPROS = {
    "cmf-imag-midpoint-realtime": C9.PRE +
        "s = Mps.random(m, 1, 8).canonicalise().canonicalise(); psi = dense(s)\n"
        "def err(n, tau=0.4, **kw):\n"
        "    a = s.copy(); a.evolve_config = EvolveConfig(EvolveMethod.tdvp_mu_cmf)\n"
        "    for k, v in kw.items(): setattr(a.evolve_config, k, v)\n"
        "    for _ in range(n): a = a.evolve(mpo, -1j*tau/n)\n"
        "    ref = sla.expm(-tau*H) @ psi; ref /= np.linalg.norm(ref)\n"
        "    return np.linalg.norm(dense(a) - ref)\n"
        "try:\n"
        "    e16, e32 = err(16), err(32)\n"
        "except AssertionError as ex:\n"
        "    print('imaginary-time CMF raises AssertionError: the midpoint environment was evolved in REAL time (complex) and is mixed into the real state'); sys.exit(1)\n"
        "print('imaginary-time CMF (midpoint, advertised 2nd order): error', e16, '->', e32, 'ratio', e16/e32, '(a 2nd-order scheme gives ~4)')\n"
        "try:\n"
        "    t = err(16, tdvp_cmf_c_trapz=True); print('trapezoid variant error', t); trapz_bad = t > 10*e16\n"
        "except AssertionError as ex:\n"
        "    print('trapezoid variant raises AssertionError (complex midpoint environment copied into a real state)'); trapz_bad = True\n"
        "sys.exit(1 if (e16/e32 < 3.0 or trapz_bad) else 0)\n",
    "thermalprop-h-mpo-model-ignored":
        "import renormalizer\nimport numpy as np, scipy.linalg as sla, sys\nfrom renormalizer.model import Model, Op, basis as ba\n"
        "from renormalizer.mps import MpDm, Mpo, ThermalProp\nfrom renormalizer.utils import EvolveConfig, EvolveMethod\n"
        "def mk(e0, g, J):\n"
        "    basis=[]; ham=[]\n"
        "    for i in range(2):\n"
        "        basis += [ba.BasisSimpleElectron('e%d'%i), ba.BasisSHO('v%d'%i, 1.0, 2)]\n"
        "        ham += [Op(r'a^\\dagger a','e%d'%i,e0[i]), Op(r'b^\\dagger b','v%d'%i,1.0), Op(r'a^\\dagger a','e%d'%i,g)*Op(r'b^\\dagger+b','v%d'%i)]\n"
        "    ham += [Op(r'a^\\dagger a',['e0','e1'],J), Op(r'a^\\dagger a',['e1','e0'],J)]\n"
        "    return Model(basis, ham)\n"
        "m1 = mk((0.1, 0.6), 0.5, 0.4); m2 = mk((0.9, 0.2), 0.3, 0.2); H2 = np.asarray(Mpo(m2).todense())\n"
        "init = MpDm.max_entangled_ex(m1); rho0 = np.asarray(init.todense()) * init.coeff\n"
        "beta = 3.0\n"
        "tp = ThermalProp(init.copy(), h_mpo_model=m2, evolve_config=EvolveConfig(EvolveMethod.tdvp_ps)); tp.evolve(evolve_dt=-1j*beta/4, nsteps=2)\n"
        "ref = sla.expm(-beta/2*H2) @ rho0; ref /= np.linalg.norm(ref)\n"
        "n0 = np.kron(np.diag([0., 1.]), np.eye(8)); occ_ref = np.trace(ref.T @ n0 @ ref)\n"
        "occ = tp.e_occupations_array[-1][0]\n"
        "print('ThermalProp(h_mpo_model=M2): occupation of molecule 0', occ, ' Gibbs state of H2:', occ_ref)\n"
        "sys.exit(1 if abs(occ - occ_ref) > 1e-5 else 0)\n",
    "thermalprop-exact-propagation":
        "import renormalizer\nimport numpy as np, scipy.linalg as sla, sys\nfrom renormalizer.model import HolsteinModel, Mol, Phonon\n"
        "from renormalizer.mps import Mpo, MpDm, ThermalProp\nfrom renormalizer.utils import Quantity\n"
        "w, d, n = 1.25, 0.75, 3\n"
        "model = HolsteinModel([Mol(Quantity(0.5), [Phonon.simple_phonon(Quantity(w), Quantity(d), n)])], np.zeros((1, 1)))\n"
        "tp = ThermalProp(MpDm.max_entangled_gs(model), exact=True, space='GS'); tp.evolve(evolve_dt=-0.5j, nsteps=1)\n"
        "rho = Mpo.onsite(model, r'a^\\dagger').apply(tp.latest_mps, canonicalise=True); rho.normalize('mps_and_coeff')\n"
        "r0 = np.asarray(rho.todense()) * rho.coeff\n"
        "tp2 = ThermalProp(rho, exact=True, space='EX'); tp2.evolve(evolve_dt=-0.4j, nsteps=3)\n"
        "got = np.asarray(tp2.latest_mps.todense()) * tp2.latest_mps.coeff\n"
        "ph = model[0].ph_list[0]; b = np.diag(np.sqrt(np.arange(1, n)), 1)\n"
        "U = np.kron(np.eye(2), sla.expm(-1.2 * (ph.omega[0] * b.T @ b + ph.term10 * (b.T + b))))\n"
        "ref = U @ r0; ref /= np.linalg.norm(ref)\n"
        "err = np.abs(got - ref).max(); print('ThermalProp exact, EX space, from a^dagger thermal(GS): max |rho - U rho0/norm| =', err)\n"
        "sys.exit(1 if err > 1e-9 else 0)\n",
    "tree-max-entangled-ex":
        "import renormalizer\nimport numpy as np, sys\nfrom renormalizer.model import Op, basis as ba\nfrom renormalizer.tn import BasisTree, TTNO\nfrom renormalizer.tn.utils_eph import max_entangled_ex\n"
        "basis = []\n"
        "for i in range(3): basis += [ba.BasisSimpleElectron('e%d' % i), ba.BasisSHO('v%d' % i, 1.0, 2)]\n"
        "bad = []\n"
        "for name, bt in (('linear', BasisTree.linear(basis)), ('binary', BasisTree.binary(basis))):     # binary: electrons on nodes with two children\n"
        "    rho = max_entangled_ex(bt.add_auxiliary_space())\n"
        "    occ = [float(np.real(rho.expectation(TTNO(bt, Op(r'a^\\dagger a', 'e%d' % i))))) for i in range(3)]\n"
        "    print(name, 'tree: beta = 0 occupations of the three molecules', occ, '(must be 1/3 each)')\n"
        "    if max(abs(o - 1/3) for o in occ) > 1e-10: bad.append(name)\n"
        "sys.exit(1 if bad else 0)\n",
    "tree-imag-prefactor-normalisation":
        "import renormalizer\nimport numpy as np, scipy.linalg as sla, sys\nfrom renormalizer.model import Op, basis as ba\nfrom renormalizer.tn import BasisTree, TTNO, TTNS\n"
        "from renormalizer.utils import EvolveConfig, EvolveMethod, CompressConfig, CompressCriteria\n"
        "np.random.seed(3); n = 4; basis = [ba.BasisHalfSpin(i) for i in range(n)]\n"
        "terms = [Op('X X', [i, i+1], 0.8) for i in range(n-1)] + [Op('Z', i, 0.3*(i+1)) for i in range(n)]\n"
        "bt = BasisTree.binary(basis); ttno = TTNO(bt, terms); H = np.asarray(ttno.todense(basis)).reshape(2**n, 2**n)\n"
        "s = TTNS.random(bt, 0, 8); s.canonicalise(); s.normalize('ttns_and_coeff'); s.coeff = s.coeff * 2.5\n"
        "s.evolve_config = EvolveConfig(EvolveMethod.tdvp_ps); s.compress_config = CompressConfig(CompressCriteria.fixed, max_bonddim=32)\n"
        "psi = np.asarray(s.todense(basis)).ravel() * s.coeff; o = s.evolve(ttno, -0.2j)\n"
        "got = np.asarray(o.todense(basis)).ravel() * o.coeff; ref = sla.expm(-0.2*H) @ psi; ref /= np.linalg.norm(ref)\n"
        "print('imaginary-time TTNS.evolve of a state with prefactor 2.5: norm of the result', np.linalg.norm(got), ' distance to normalised exp(-tau H)psi', np.linalg.norm(got - ref))\n"
        "sys.exit(1 if np.linalg.norm(got - ref) > 1e-6 else 0)\n",
    "finite-temperature-entry-point-beta":
        "import renormalizer\nimport numpy as np, sys\nfrom renormalizer.model import HolsteinModel, Mol, Phonon\nfrom renormalizer.transport import ChargeDiffusionDynamics, InitElectron\n"
        "from renormalizer.utils import Quantity, CompressConfig, CompressCriteria\n"
        "w, n, beta = 1.0, 4, 0.7\n"
        "model = HolsteinModel([Mol(Quantity(0.0), [Phonon.simple_phonon(Quantity(w), Quantity(0.5), n)])] * 3, Quantity(0.4))\n"
        "ct = ChargeDiffusionDynamics(model, temperature=Quantity(1.0/beta, 'a.u.'), init_electron=InitElectron.fc, compress_config=CompressConfig(CompressCriteria.fixed, max_bonddim=16))\n"
        "k = np.arange(n); p = np.exp(-beta*w*k); ref = (k*p).sum()/p.sum(); p2 = np.exp(-2*beta*w*k)\n"
        "got = np.real(ct.ph_occupations_array[0])\n"
        "print('ChargeDiffusionDynamics at T = 1/beta: t=0 vibrational occupations', got, ' Bose-Einstein (truncated) at beta:', ref, ' at 2 beta:', (k*p2).sum()/p2.sum())\n"
        "sys.exit(1 if np.abs(got - ref).max() > 1e-6 else 0)\n",
    "evolve-exact-imaginary-dt":
        "import renormalizer\nimport numpy as np, sys\nfrom renormalizer.model import HolsteinModel, Mol, Phonon\nfrom renormalizer.mps import Mps, Mpo\n"
        "from renormalizer.utils import Quantity\n"
        "np.random.seed(1)\n"
        "model = HolsteinModel([Mol(Quantity(0.5), [Phonon.simple_phonon(Quantity(1.25), Quantity(0.5), 3)])] * 2, Quantity(0.0))\n"
        "h = Mpo(model, offset=Quantity(0.7)); s = Mps.random(model, 0, 4); tau = 0.4\n"
        "psi = np.asarray(s.todense()) * s.coeff\n"
        "try:\n"
        "    out = s.evolve_exact(h, -1j * tau, 'GS')\n"
        "except AssertionError as e:\n"
        "    print('Mps.evolve_exact(h_mpo, -1j*tau, GS) raises AssertionError (x = -1j*dt is complex-typed with zero imaginary part)'); sys.exit(1)\n"
        "diag = np.exp(-tau * 1.25 * np.array([n1 + n2 for e1 in range(2) for n1 in range(3) for e2 in range(2) for n2 in range(3)]))\n"
        "err = np.linalg.norm(np.asarray(out.todense()) * out.coeff - diag * psi); print('error', err); sys.exit(1 if err > 1e-10 else 0)\n",
    "exact-propagator-dense":
        "import renormalizer\nimport numpy as np, scipy.linalg as sla, sys\nfrom renormalizer.model import HolsteinModel, Mol, Phonon\nfrom renormalizer.mps import Mpo\n"
        "from renormalizer.utils import Quantity\n"
        "phs = [Phonon.simple_phonon(Quantity(1.0), Quantity(d), 3) for d in (0.9, -0.5)]   # same frequency and levels, different displacement\n"
        "model = HolsteinModel([Mol(Quantity(0.5), phs)], np.zeros((1, 1)))\n"
        "b = np.diag(np.sqrt(np.arange(1, 3)), 1); x = -0.7; bad = []\n"
        "for space in ('GS', 'EX'):\n"
        "    got = np.asarray(Mpo.exact_propagator(model, x, space, 0.3).todense())\n"
        "    loc = [sla.expm(x * (ph.omega[0] * b.T @ b + (ph.term10 * (b.T + b) if space == 'EX' else 0))) for ph in phs]\n"
        "    ref = np.kron(np.eye(2), np.kron(loc[0], loc[1])) * np.exp(0.3 * x)\n"
        "    e = np.abs(got - ref).max(); print(space, 'max deviation from the dense exponential', e)\n"
        "    if e > 1e-10: bad.append(space)\n"
        "sys.exit(1 if bad else 0)\n",
    "imag-input-reuse": C9.PRE +
        "s = Mps.random(m, 1, 8).canonicalise().canonicalise(); psi = dense(s); bad = []\n"
        "for meth in (EvolveMethod.tdvp_ps2, EvolveMethod.tdvp_ps, EvolveMethod.prop_and_compress):\n"
        "    a = s.copy(); a.evolve_config = EvolveConfig(meth); a.compress_config = CompressConfig(CompressCriteria.fixed, max_bonddim=64)\n"
        "    for tau in (0.02, 0.03):\n"
        "        ref = sla.expm(-tau*H) @ psi; ref /= np.linalg.norm(ref)\n"
        "        e = np.linalg.norm(dense(a.evolve(mpo, -1j*tau)) - ref)\n"
        "        if e > 1e-6: bad.append((meth.name, tau, e))\n"
        "    if np.linalg.norm(dense(a) - psi) > 1e-12: bad.append((meth.name, 'input changed', np.linalg.norm(dense(a) - psi)))\n"
        "    b = s.copy(); b.evolve_config = EvolveConfig(meth, adaptive=True, guess_dt=-0.05j, adaptive_rtol=1e-5); b.compress_config = a.compress_config\n"
        "    ref = sla.expm(-0.4*H) @ psi; ref /= np.linalg.norm(ref); e = np.linalg.norm(dense(b.evolve(mpo, -0.4j)) - ref)\n"
        "    if e > 1e-2: bad.append((meth.name, 'adaptive', e))\n"
        "print(bad); sys.exit(1 if bad else 0)\n",
    "evolve-exact-phase-bookkeeping":
        "import renormalizer\nimport numpy as np, sys\nfrom renormalizer.model import HolsteinModel, Mol, Phonon\nfrom renormalizer.mps import Mps, Mpo, MpDm\n"
        "from renormalizer.utils import Quantity\n"
        "np.random.seed(3)\n"
        "ph = Phonon.simple_phonon(Quantity(1.25), Quantity(0.5), 3)\n"
        "model = HolsteinModel([Mol(Quantity(0.5), [ph])] * 2, Quantity(0.0))\n"
        "h = Mpo(model, offset=Quantity(0.7)); dt = 0.9\n"
        "bad = []\n"
        "for form in ('mps', 'mpdm'):\n"
        "    s = Mps.random(model, 0, 4); s.coeff = 1.5\n"
        "    if form == 'mpdm': s = MpDm.from_mps(s)\n"
        "    d0 = np.asarray(s.todense()) * s.coeff; c0 = s.coeff\n"
        "    out = s.evolve_exact(h, dt, 'GS')\n"
        "    n = np.array([[a + b for b in range(3)] for a in range(3)], dtype=float)   # omega*(n1+n2)/omega\n"
        "    diag = np.exp(-1j * dt * 1.25 * np.array([n1 + n2 for e1 in range(2) for n1 in range(3) for e2 in range(2) for n2 in range(3)]))\n"
        "    ref = diag * d0 if form == 'mps' else d0 * diag[None, :]\n"
        "    got = np.asarray(out.todense()) * out.coeff\n"
        "    if s.coeff != c0: bad.append((form, 'input prefactor changed', c0, s.coeff))\n"
        "    if np.linalg.norm(got - ref) > 1e-10 * np.linalg.norm(ref): bad.append((form, 'result differs from exp(-i dt H_loc) input', np.linalg.norm(got - ref)))\n"
        "print(bad); sys.exit(1 if bad else 0)\n",
}


def classify(k, rec):
    if k.startswith(("thermal-other-model", "exception/thermal-other-model")):
        return "thermalprop-h-mpo-model-ignored"
    if k.startswith(("imag-reuse", "imag-adaptive", "thermal-adaptive", "exception/imag-reuse", "exception/imag-adaptive", "exception/thermal-adaptive")):
        return "imag-input-reuse"
    if k.startswith(("order/cmf2", "order/cmf_trapz", "exception/cmf_trapz", "exception/cmf2")):
        return "cmf-imag-midpoint-realtime"
    return "oracle/" + "/".join(k.split("/")[:2])


def exact_coq_text(ties):
    lines = ["From RV Require Import Base.CRing Model.Chain Model.Prop.", "From Coq Require Import List ZArith.", "Import ListNotations.", "Open Scope Z_scope."]
    for t in ties:
        ws = "[" + "; ".join("None" if w is None else "Some (%d)" % int(round(w * 8)) for w in t["ws"]) + "]"
        cfgs = list(itertools.product(*[range(n) for n in t["nbas"]]))
        cs = "[" + "; ".join("[" + "; ".join("%d%%nat" % x for x in c) + "]" for c in cfgs) + "]"
        lines.append("Eval vm_compute in (map (vib_energy ZRing %s) %s)." % (ws, cs))
    return "\n".join(lines) + "\n"


def _nest(x):
    if isinstance(x, list):
        return "[" + "; ".join(_nest(y) for y in x) + "]"
    return "(%d)" % int(x)


def _cfgs(dims):
    return list(itertools.product(*[range(d) for d in dims]))


def _cl(c):
    return "[" + "; ".join("%d%%nat" % x for x in c) + "]"


def ints_coq_text(ints):
    """from_mps, max_entangled_gs and Tr(O rho rho^+) evaluated by the Coq models over Z on the implementation's integer tensors"""
    lines = ["From RV Require Import Base.CRing Base.BigSum Model.Chain Model.Prop.", "From Coq Require Import List ZArith.", "Import ListNotations.", "Open Scope Z_scope.",
             "Definition trOR (ops kets : list (nat * T4 ZRing)) (pd qd : list nat) : Z :=",
             "  sumcfg (R := ZRing) pd (fun s' => sumcfg (R := ZRing) pd (fun s => (opamp ops s' s) *",
             "    sumcfg (R := ZRing) qd (fun t => opamp kets s t * opamp kets s' t)))."]
    for r in ints:
        f = r["from_mps"]
        ch = "[" + "; ".join("(%d%%nat, of3 (R := ZRing) %s)" % (c["d"], _nest(c["t"])) for c in f["chain"]) + "]"
        cf = _cfgs(f["pdims"])
        lines.append("Eval vm_compute in (flat_map (fun su => map (fun sd => opamp (from_mps ZRing %s) su sd) %s) %s)." %
                     (ch, "[" + "; ".join(_cl(c) for c in cf) + "]", "[" + "; ".join(_cl(c) for c in cf) + "]"))
        m = r["max_entangled"]
        ws = "[" + "; ".join("None" if k is None else "Some 1" for k in m["kinds"]) + "]"
        cm = _cfgs(m["pdims"])
        lines.append("Eval vm_compute in (flat_map (fun su => map (fun sd => opamp (max_entangled_gs ZRing %s) su sd) %s) %s)." %
                     (ws, "[" + "; ".join(_cl(c) for c in cm) + "]", "[" + "; ".join(_cl(c) for c in cm) + "]"))
        pu = r["purification"]
        ks = "[" + "; ".join("(%d%%nat, of4 (R := ZRing) %s)" % (c["d"], _nest(c["t"])) for c in pu["kets"]) + "]"
        os_ = "[" + "; ".join("(%d%%nat, of4 (R := ZRing) %s)" % (c["d"], _nest(c["t"])) for c in pu["ops"]) + "]"
        nl = lambda xs: "[" + "; ".join("%d%%nat" % x for x in xs) + "]"
        lines.append("Eval vm_compute in ([trOR %s %s %s %s])." % (os_, ks, nl(pu["pdims"]), nl(pu["qdims"])))
    return "\n".join(lines) + "\n"


def run(ctx):
    seed = ctx.rng.randrange(1 << 30)
    quick = ctx.tier == "quick"
    ev = nontriv = 0
    samples = []
    ctx.trusted += [
        "translators tx/rk.py and tx/evolveexact.py (shape of Mps/MpDm/ThermalProp.evolve_exact: arguments of exact_propagator, order of application, which object's prefactor receives the phase; GS diagonal and final scale of Mpo.exact_propagator) -- fail-closed python-ast readers",
        "correspondence harness/c10.py + impl/c09_pc.py (imaginary-time P&C steps vs dense polynomials with Coq-exported coefficients) + impl/c10_exact.py (tensors of exact_propagator returned as exponents and compared with vib_energy evaluated in Coq)",
        "hand-written models in Model/Prop.v (exact_prop, evolve_exact_model, thermal_loop)",
        "modelled, not verified: np.exp (abstract exponential with expo(a+b)=expo a expo b, expo 0 = 1), local eigh of the EX-space propagator, norms (abstract normalisation N), purification identities, imaginary-time accuracy of the TDVP schemes, binary64 rounding -- observed by the dense oracle only",
        "the dense oracle (scipy expm, Gibbs averages by explicit traces over sector projectors) is a search procedure, not part of any theorem"]
    ctx.assumptions += ["sufficient bond dimension for the exactness clauses", "thermal composition: positive re-offset factors, homogeneous step operator, normalisation = positive rescaling"]
    broken = []
    tabs = None
    einfo = None
    try:
        text, tabs = txrk.main(common.REPO)
        ctx.regen("Gen/RkTableaux.v", text)
    except Exception as e:
        ctx.notes.append("translator tx/rk.py failed: %r" % (e,))
        broken.append("translator tx/rk.py")
    try:
        text2, einfo = txee.main(common.REPO)
        ctx.regen("Gen/EvolveExact.v", text2)
    except Exception as e:
        ctx.notes.append("translator tx/evolveexact.py failed: %r" % (e,))
        broken.append("translator tx/evolveexact.py")
    sites = None
    try:
        text3, sites = txts.main(common.REPO)
        ctx.regen("Gen/ThermalSites.v", text3)
    except Exception as e:
        ctx.notes.append("translator tx/thermalsites.py failed: %r" % (e,))
        broken.append("translator tx/thermalsites.py")
    ok_build, log = (False, "translator failed")
    ok_props = False
    if tabs is not None and einfo is not None and sites is not None:
        ok_build, log = ctx.coq_make(["Proofs/PropProofs.vo", "Gen/EvolveExact.vo", "Gen/ThermalSites.vo"])
        if ok_build:
            ok_props, log = ctx.props("Props/C10.v")
    if not ok_build:
        ctx.obligations.append({"name": "C10 (build of Model/Prop.v, Proofs/PropProofs.v, Gen/EvolveExact.v)", "file": "Proofs/PropProofs.v", "ok": False, "assumptions": None})
    if not (ok_build and ok_props):
        broken.append("theorem(s) of Props/C10.v: " + (", ".join(o["name"] for o in ctx.obligations if not o["ok"]) or "build"))
    corr_bad = []
    # ------------------------------------------------------------------ implementation side, one pool
    jobs = []
    if ok_build and tabs is not None:
        ti, taylor, out = C9.export_coeffs(ctx, tabs)
        if ti is None:
            corr_bad.append({"what": "export of ti_coeff / tcoefs from Coq failed", "out": out[-600:]})
        else:
            for i in range(2 if quick else 6):
                jobs.append(("pc", dict(C9.pc_payload(seed + 13 * i, True, tabs, ti, taylor, 3 if quick else 6), script="c09_pc.py")))
    for i in range(2 if quick else 6):
        jobs.append(("exact", {"script": "c10_exact.py", "seed": seed + 29 * i, "n": 4 if quick else 10, "n_int": 2 if quick else 5}))
    jobs.append(("sites", {"script": "c10_sites.py", "seed": seed + 5}))
    for k in range(4):
        jobs.append(("tree", {"script": "c10_tree.py", "seed": seed + 3, "part": k, "nparts": 4, "budget_s": 120 if quick else 900}))
    nsh = 12
    for i in range(nsh):
        jobs.append(("oracle", {"script": "c10_oracle.py", "seed": seed, "shard": i, "nshards": nsh, "tier": ctx.tier, "budget_s": 75 if quick else 900}))
    jobs.sort(key=lambda j: {"oracle": 0, "pc": 1, "exact": 2, "sites": 1, "tree": 0}[j[0]])
    results = ctx.impl_par("c09_dispatch.py", [p for _, p in jobs], timeout=(420 if quick else 3000), par=14)
    by = {"pc": [], "exact": [], "oracle": [], "sites": [], "tree": []}
    for (kind, _), r in zip(jobs, results):
        by[kind].append(r)
    for rc, res, raw in by["pc"]:
        if res is None or "n" not in res:
            corr_bad.append({"what": "c09_pc.py (imaginary time) failed", "out": (raw or "")[-800:]})
            continue
        ev += res["n"]
        nontriv += res["n"] - res["nbad"]
        if res["nbad"]:
            corr_bad.append({"what": "imaginary-time P&C one-step result differs from the model polynomial", "cases": res["bad"][:5]})
        samples += res["samples"][:1]
    n_pc = ev
    classes = {}
    n_sites = 0
    for rc, res, raw in by["sites"]:
        if res is None or "n" not in res:
            corr_bad.append({"what": "c10_sites.py failed", "out": (raw or "")[-800:]})
            continue
        n_sites += res["n"]
        ev += res["n"]
        if res["nbad"]:
            classes.setdefault("finite-temperature-entry-point-beta", []).extend(res["bad"])
        samples += res["samples"][:1]
    n_tree = 0
    for rc, res, raw in by["tree"]:
        if res is None or "n" not in res:
            corr_bad.append({"what": "c10_tree.py failed", "out": (raw or "")[-800:]})
            continue
        n_tree += res["n"]
        ev += res["n"]
        for b in res["bad"]:
            key = {"beta=0": "tree-max-entangled-ex", "thermal": "tree-thermal-propagation", "thermal tree": "tree-thermal-propagation",
                   "imag prefactor": "tree-imag-prefactor-normalisation"}.get(b.get("what"), "oracle/tree")
            classes.setdefault(key, []).append(b)
    ctx.notes.append("trees: %d checks (max_entangled_ex at beta = 0 and thermal propagation on 8 tree shapes, prefactor handling of imaginary-time TTNS.evolve on 4 shapes x 4 schemes)" % n_tree)
    if sites is not None:
        wrong = [x for x in sites if x["form"] != "BetaOver2j"]
        if wrong:
            classes.setdefault("finite-temperature-entry-point-beta", []).append({"source": "tx/thermalsites.py", "sites_not_beta_over_2j": wrong})
        ctx.notes.append("finite-T entry points: %d call sites of ThermalProp.evolve in the package (all to_beta()/2j: %s); %d logged propagations / t=0 observables checked"
                         % (len(sites), not wrong, n_sites))
    ties = []
    n_or = 0
    for rc, res, raw in by["exact"]:
        if res is None or "tie" not in res:
            corr_bad.append({"what": "c10_exact.py failed", "out": (raw or "")[-800:]})
            continue
        ties += res["tie"]
        n_or += res["n_oracle"]
        for b in res["bad"]:
            key = {"evolve_exact bookkeeping": "evolve-exact-phase-bookkeeping", "ThermalProp exact": "thermalprop-exact-propagation",
                   "evolve_exact imaginary dt": "evolve-exact-imaginary-dt", "exact_propagator dense": "exact-propagator-dense"}.get(
                b["what"], "oracle/" + b["what"].replace(" ", "-"))
            classes.setdefault(key, []).append(b)
    ints = []
    for rc, res, raw in by["exact"]:
        if res is not None:
            ints += res.get("ints", [])
    n_int = n_int_ok = 0
    if ints and ok_build:
        rc, out = ctx.coq_eval("ints", ints_coq_text(ints))
        zl = common.parse_Z_lists(out) if rc == 0 else []
        if len(zl) != 3 * len(ints):
            corr_bad.append({"what": "evaluation of from_mps / max_entangled_gs / Tr(O rho rho^+) in Coq failed", "out": out[-600:]})
        else:
            for k, r in enumerate(ints):
                flat = lambda m: [int(x) for row in m for x in row]
                checks = [("from_mps", zl[3 * k] == flat(r["from_mps"]["dense"])),
                          ("max_entangled_gs", r["max_entangled"]["integer"] and r["max_entangled"]["normalised_is_const_times_unnormalised"]
                           and zl[3 * k + 1] == flat(r["max_entangled"]["dense"])),
                          ("purification_expectation", r["purification"]["ops_integer"] and len(zl[3 * k + 2]) == 1
                           and float(zl[3 * k + 2][0]) == r["purification"]["value"])]
                for name, okc in checks:
                    n_int += 1
                    ev += 1
                    if okc:
                        n_int_ok += 1
                        nontriv += 1
                    else:
                        corr_bad.append({"what": "exact integer tie failed: " + name, "model_value": zl[3 * k + 2] if name.startswith("pur") else None,
                                         "implementation": r["purification"]["value"] if name.startswith("pur") else None})
            samples.append({"purification_expectation_integer": {"implementation": ints[0]["purification"]["value"], "coq_Tr_O_rho_rho": zl[2]}})
        ctx.notes.append("purified-state ties on integer data (from_mps dense, max_entangled_gs dense, expectation = Tr(O rho rho^+)): %d, %d exact" % (n_int, n_int_ok))
    n_tie = n_tie_ok = 0
    if ties and ok_build:
        rc, out = ctx.coq_eval("exact", exact_coq_text(ties))
        zl = common.parse_Z_lists(out) if rc == 0 else []
        if len(zl) != len(ties):
            corr_bad.append({"what": "vib_energy evaluation in Coq failed", "out": out[-600:]})
        else:
            for t, zs in zip(ties, zl):
                cfgs = list(itertools.product(*[range(n) for n in t["nbas"]]))
                okt = all(d == 1 for d in t["bond_dims"]) and all(s["offdiag"] == 0.0 for s in t["sites"]) \
                    and [s["scaled"] for s in t["sites"]] == [False] * (len(t["sites"]) - 1) + [True] and len(zs) == len(cfgs)
                if okt:
                    for c, z in zip(cfgs, zs):
                        got = sum(t["sites"][k]["exponents"][c[k]] for k in range(len(c)))
                        ev += 1
                        if abs(got * 8 - z) > 1e-9 * max(1.0, abs(z)):
                            okt = False
                            break
                n_tie += 1
                if okt:
                    n_tie_ok += 1
                    nontriv += 1
                else:
                    corr_bad.append({"what": "exact_propagator tensors differ from Model/Prop.v exact_prop (exponents / shape / scaled site)", "case": t})
            samples.append({"exact_propagator": {k: ties[0][k] for k in ("x", "shift", "ws", "bond_dims")}})
    ctx.notes.append("exact_propagator tie: %d propagators, %d equal to the model on every configuration" % (n_tie, n_tie_ok))
    skipped = 0
    for rc, res, raw in by["oracle"]:
        if res is None or "failures" not in res:
            ctx.notes.append("an oracle shard did not finish: " + (raw or "")[-300:].replace("\n", " | "))
            skipped += 1
            continue
        n_or += res["n"]
        skipped += res.get("skipped", 0)
        for k, v in res["failures"].items():
            for rec in v:
                classes.setdefault(classify(k, rec), []).append(dict(rec, oracle_class=k))
    ev += n_or
    ctx.notes.append("dense oracle: %d checks (imaginary-time schemes, thermal averages in both sectors, closed-form propagator GS/EX, evolve_exact bookkeeping); %d jobs skipped for time" % (n_or, skipped))
    if einfo is not None and (einfo["mps"]["target"] != "OnResult" or einfo["mpdm"]["target"] != "OnResult"):
        classes.setdefault("evolve-exact-phase-bookkeeping", []).append({"source": "tx/evolveexact.py: the phase is multiplied into the prefactor of %r" % (einfo,)})
    for key, recs in sorted(classes.items()):
        repro = REPROS.get(key)
        what = {"cmf-imag-midpoint-realtime": "oracle clause `every scheme that supports imaginary time yields exp(-tau H) psi / norm within its own order`",
                "finite-temperature-entry-point-beta": "theorem C10_thermal_sites_half_beta (generated call-site table) and the oracle on the package's finite-temperature entry points (total imaginary time = beta/2, occupations = canonical averages at beta)",
                "tree-max-entangled-ex": "oracle: tn.utils_eph.max_entangled_ex on trees with electrons on internal nodes: beta = 0 state = identity on the one-exciton sector",
                "tree-thermal-propagation": "oracle: thermal propagation of the purified tree state vs dense Gibbs state",
                "tree-imag-prefactor-normalisation": "oracle: imaginary-time TTNS.evolve returns the normalised vector (prefactor x tensors) whatever the input prefactor",
                "imag-input-reuse": "oracle: imaginary-time evolution from a re-used input object / with adaptive stepping (the input must not be overwritten)",
                "evolve-exact-imaginary-dt": "oracle: Mps/MpDm.evolve_exact with an imaginary evolve_dt vs exp(-tau H_loc)",
                "exact-propagator-dense": "theorem C10_exact_prop_dense (tie) / dense oracle of Mpo.exact_propagator GS and EX",
                "thermalprop-h-mpo-model-ignored": "oracle clause `thermal propagation gives the canonical averages of the Hamiltonian it was given` (ThermalProp.evolve_prop)",
                "thermalprop-exact-propagation": "theorem C10_evolve_exact_source (order of application) and the oracle for ThermalProp(exact=True): normalised U rho on the physical index",
                "evolve-exact-phase-bookkeeping": "theorems C10_evolve_exact_source / C10_evolve_exact_total and the bookkeeping oracle"}.get(key, "dense oracle: " + key)
        ctx.violation(key, what, {"n_records": len(recs), "records": recs[:3]}, found=repro is not None, repro=repro)
    if broken or corr_bad:
        ctx.violation("c10-proof-or-correspondence", "; ".join(broken + (["correspondence (imaginary P&C tie / exact_propagator tie)"] if corr_bad else [])),
                      {"coq_log_tail": log[-1500:] if isinstance(log, str) else "", "correspondence": corr_bad[:8]}, found=False)
    return {"evaluations": ev, "distinct_nontrivial": nontriv,
            "rule": "imaginary P&C: a (model, state, scheme, dt) case counts once its dense result matched the Coq-exported polynomial in -tau H to 1e-10; exact_propagator: a propagator counts if bond dimensions, off-diagonals, the scaled site and the exponent of every configuration equal the model; oracle checks are counted in evaluations only",
            "samples": samples[:3], "exhaustive": False,
            "input_distribution": {"imag_pc_cases": n_pc, "tree_checks": n_tree, "finite_T_entry_point_checks": n_sites, "purified_integer_ties": n_int, "purified_integer_ties_exact": n_int_ok, "exact_propagator_ties": n_tie, "exact_propagator_ties_equal": n_tie_ok,
                                   "oracle_checks": n_or, "oracle_jobs_skipped": skipped, "violation_classes": {k: len(v) for k, v in classes.items()}}}
