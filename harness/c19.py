"""C19: integrator coefficient tables have their advertised order."""
import json
import os
import re
import sys
from fractions import Fraction
from math import factorial

import common
sys.path.insert(0, os.path.join(common.VERIF, "tx"))
import rk as txrk

ORACLE = r'''
import itertools, numpy as np, sys
from renormalizer.utils import rk
def trees(n):                       # all rooted trees with n vertices as sorted tuples of children
    if n == 1: return [()]
    res = set()
    def parts(m, mx):
        if m == 0: yield (); return
        for k in range(min(m, mx), 0, -1):
            for rest in parts(m - k, k): yield (k,) + rest
    for p in parts(n - 1, n - 1):
        for combo in itertools.product(*[trees(k) for k in p]):
            res.add(tuple(sorted(combo)))
    return sorted(res)
def order(t): return 1 + sum(order(c) for c in t)
def gamma(t):
    g = order(t)
    for c in t: g *= gamma(c)
    return g
def phi(a, t):
    v = np.ones(a.shape[0])
    for c in t: v = v * (a @ phi(a, c))
    return v
import math
bad = []
def check(r, m, label):
    a, b, c = r.tableau
    b2 = np.atleast_2d(b)
    if len(b2) != len(r.order): bad.append((m, label, "rows vs advertised orders", (len(b2), tuple(r.order))))
    for row, p in zip(b2, r.order):
        for n in range(1, p + 1):
            for t in trees(n):
                res = float(row @ phi(a, t)) * gamma(t) - 1.0
                if abs(res) > 1e-12: bad.append((m, label, p, t, res))
    if not np.allclose(a.sum(axis=1), c, atol=1e-14): bad.append((m, label, "row sums", None, 0))
    ti = np.atleast_2d(r.runge_kutta_ti_coefficient())
    for row, p in zip(ti, r.order):
        for k in range(p + 1):
            if abs(row[k] * math.factorial(k) - 1) > 1e-12: bad.append((m, label, "ti", k, float(row[k])))
for m in rk.method_list:
    check(rk.RungeKutta(m), m, "RungeKutta")
# the tables as the evolution code receives them: through EvolveConfig (every method, adaptive on/off) and its copy()
from renormalizer.utils import EvolveConfig, EvolveMethod
for m in rk.method_list:
    ref = rk.RungeKutta(m)
    for adaptive in (False, True):
        for meth in list(EvolveMethod):
            for to in (None, 3, 7):
                cfg0 = EvolveConfig(method=meth, adaptive=adaptive, rk_solver=m, taylor_order=to)
                for label, cfg in (("EvolveConfig(%s, adaptive=%s)" % (meth.name, adaptive), cfg0), ("EvolveConfig.copy()", cfg0.copy())):
                    r = cfg.rk_config
                    same = r.method == m and r.stage == ref.stage and tuple(r.order) == tuple(ref.order) and len(r.tableau) == 3 and \
                        all(np.shape(x) == np.shape(y) and np.array_equal(x, y) for x, y in zip(r.tableau, ref.tableau))
                    if not same:
                        bad.append((m, label, "tables handed to the propagators differ from RungeKutta(%r)" % m, tuple(r.order), [np.shape(x) for x in r.tableau]))
                        check(r, m, label)
                    want = to if to is not None else cfg.taylor_config.order   # the default order is not part of the property
                    cf = cfg.taylor_config.coeff
                    if cfg.taylor_config.order != want or len(cf) != want + 1 or any(abs(cf[k] * math.factorial(k) - 1) > 1e-14 for k in range(want + 1)):
                        bad.append((m, label, "Taylor table", want, [float(x) for x in cf]))
    check(EvolveConfig(rk_solver=m).rk_config, m, "EvolveConfig default")
    check(EvolveConfig(rk_solver=m, adaptive=True).rk_config, m, "EvolveConfig adaptive")
print("failing order conditions:", bad[:5])
sys.exit(1 if bad else 0)
'''


def parse_q_lists(out):
    """Parse the printed value of a `list (list (list Q))` into nested python Fractions."""
    m = re.search(r"=\s*(\[.*\])\s*:\s*list", out, re.S)
    if not m:
        return None
    txt = m.group(1)
    txt = re.sub(r"(-?\d+)\s*#\s*(\d+)", r'"\1/\2"', txt).replace(";", ",")
    val = json.loads(txt)
    conv = lambda x: Fraction(x) if isinstance(x, str) else [conv(y) for y in x]
    return conv(val)


def run(ctx):
    samples = []
    ev = 0
    nontriv = 0
    ctx.trusted += ["translator tx/rk.py (python ast -> exact rationals; fail-closed)",
                    "correspondence harness/c19.py: float tableau / ti coefficients / Taylor coefficients of the implementation vs the generated rationals and the Coq model's ti_coeff",
                    "modelled, not verified: binary64 rounding of the literals (checked to 2 ulp), NumPy dot in runge_kutta_ti_coefficient"]
    # 1. translator
    tabs = None
    try:
        text, tabs = txrk.main(common.REPO)
        ctx.regen("Gen/RkTableaux.v", text)
    except Exception as e:
        ctx.notes.append("translator failed: %r" % (e,))
    ok_build, log = (False, "translator failed") if tabs is None else ctx.coq_make(["Proofs/RkProofs.vo"])
    ok_props = False
    if ok_build:
        ok_props, plog = ctx.props("Props/C19.v")
        log = plog
    else:
        ctx.obligations.append({"name": "C19 (build of Gen/RkTableaux.v + Proofs/RkProofs.v)", "file": "Proofs/RkProofs.v", "ok": False, "assumptions": None})
    # 2. implementation values
    rc, res, out = ctx.impl("c19_impl.py", {})
    corr_bad = []
    if res is None:
        corr_bad.append({"what": "implementation script failed", "out": out[-1500:]})
    elif tabs is not None:
        if res["methods"] != [t["name"] for t in tabs]:
            corr_bad.append({"what": "method_list differs", "impl": res["methods"]})
        for t in tabs:
            it = res["tabs"].get(t["name"])
            if it is None:
                continue
            def close(x, fr):
                ev_ = float(fr)
                return abs(x - ev_) <= 4e-16 * max(1.0, abs(ev_))
            for key in ("a", "b"):
                for i, row in enumerate(t[key]):
                    for j, fr in enumerate(row):
                        ev += 1
                        try:
                            x = it[key][i][j]
                        except Exception:
                            x = None
                        if x is None or not close(x, fr):
                            corr_bad.append({"what": "tableau entry", "method": t["name"], "which": key, "i": i, "j": j, "impl": x, "source": str(fr)})
            for j, fr in enumerate(t["c"]):
                ev += 1
                if not close(it["c"][j], fr):
                    corr_bad.append({"what": "c entry", "method": t["name"], "j": j})
            if it["stage"] != t["nstage"] or it["order"] != t["order"]:
                corr_bad.append({"what": "stage/order", "method": t["name"]})
            nontriv += 1
        # model ti_coeff evaluated inside Coq vs implementation
        if ok_build:
            rc2, out2 = ctx.coq_eval("ti", "From RV Require Import Gen.RkTableaux Model.Rk.\nFrom Coq Require Import List QArith ZArith.\nImport ListNotations.\n"
                                      "Eval vm_compute in (flat_map (fun m => flat_map (fun row => flat_map (fun q => [Qnum q; Zpos (Qden q)]) row) (ti_coeff m)) methods).\n")
            flat = common.parse_Z_list(out2) if rc2 == 0 else None
            model_ti = None
            if flat is not None:
                model_ti = []
                pos = 0
                for t in tabs:
                    rows_ = []
                    for _ in t["b"]:
                        n = t["nstage"] + 1
                        rows_.append([Fraction(flat[pos + 2 * k], flat[pos + 2 * k + 1]) for k in range(n)])
                        pos += 2 * n
                    model_ti.append(rows_)
                if pos != len(flat):
                    model_ti = None
            if model_ti is None:
                corr_bad.append({"what": "model ti_coeff evaluation failed", "out": out2[-800:]})
            else:
                for t, mt in zip(tabs, model_ti):
                    it = res["tabs"][t["name"]]["ti"]
                    for r_i, row in enumerate(mt):
                        for k, fr in enumerate(row):
                            ev += 1
                            x = it[r_i][k] if r_i < len(it) and k < len(it[r_i]) else None
                            if x is None or abs(x - float(fr)) > 1e-13:
                                corr_bad.append({"what": "ti coefficient", "method": t["name"], "row": r_i, "k": k, "impl": x, "model": str(fr)})
                    samples.append({"method": t["name"], "model_ti_coeff": [[str(x) for x in row] for row in mt], "impl_ti": it})
        for o, cf in res["taylor"].items():
            for k, x in enumerate(cf):
                ev += 1
                if abs(x * factorial(k) - 1) > 1e-14:
                    corr_bad.append({"what": "Taylor coefficient", "order": o, "k": k, "impl": x})
            if len(cf) != int(o) + 1:
                corr_bad.append({"what": "Taylor length", "order": o})
    # 3. oracle on the real code (always run; it is the failing-input search)
    rc3, out3 = common.sh([common.IMPL_PY, "-c", ORACLE], env=common.impl_env(), cwd="/", timeout=300)
    found = rc3 != 0
    if not (ok_build and ok_props) or corr_bad or found:
        broken = []
        if tabs is None:
            broken.append("translator tx/rk.py")
        elif not ok_build or not ok_props:
            broken.append("theorem(s) of Props/C19.v: " + ", ".join(o["name"] for o in ctx.obligations if not o["ok"]))
        if corr_bad:
            broken.append("correspondence tableau/ti/Taylor")
        if found and not broken:
            broken.append("dense oracle only")
        ctx.violation("rk-tables", "; ".join(broken),
                      {"coq_log_tail": log[-1500:] if isinstance(log, str) else "", "correspondence": corr_bad[:10], "oracle_output": out3[-1500:]},
                      found=found, repro=ORACLE if found else None)
    if not samples and tabs:
        samples.append({"method": tabs[0]["name"], "a": [[str(x) for x in r] for r in tabs[0]["a"]]})
    return {"evaluations": ev, "distinct_nontrivial": nontriv,
            "rule": "every entry of every tableau (10 methods), every ti coefficient and Taylor coefficient for orders 0..30 compared between implementation and generated/model values; a method counts as non-trivial once all its entries matched; exhaustive over the shipped methods",
            "samples": samples[:3], "exhaustive": True}
