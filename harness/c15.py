"""C15: symbolic operator algebra (renormalizer/model/op.py) is a faithful homomorphism.

1. Coq: Model/OpAlg.v, Proofs/OpAlgProofs.v, Props/C15.v (34 theorems, all closed).
2. Tie: random expression programs (trees with sharing over + - * / unary- += -= *= /= simplify
   squeeze_identity OpSum() list() copy() OpSum.product Op.product sum(), python / NumPy scalars, list
   operands, one- and two-component quantum numbers, repeated dofs, "I" factors) are run in the
   implementation and in the Coq model (dyadic Gaussian factors, vm_compute) and compared field by
   field; ==/hash pairs; split_elementary cases.
3. Oracle (always): dense matrices on a 4-site model (half-spin, SHO nbas 3, simple electron, half-spin).
"""
import json
import os
from fractions import Fraction

import sys

import common
sys.path.insert(0, os.path.join(common.VERIF, "tx"))
import checkterms as txct

SYMS = ["I", "a", r"a^\dagger", "X", "Y", "Z", "sigma_+", "x", "p", "b", r"b^\dagger", r"b^\dagger + b", "n", "sigma_-"]
SYM_ID = {s: i for i, s in enumerate(SYMS)}
DOFS_TIE = [0, 1, "v0", {"tuple": ["e", 1]}, 2, "v1"]
DOFS_ORA = ["s0", "v", "e", "s1"]
SPIN = [SYM_ID[s] for s in ["X", "Y", "Z", "sigma_+", "sigma_-"]]
ORA_SYMS = {0: SPIN, 3: SPIN,
            1: [SYM_ID[s] for s in ["x", "p", "b", r"b^\dagger", r"b^\dagger + b", "n"]],
            2: [SYM_ID[s] for s in ["a", r"a^\dagger"]]}
KIND_COQ = {"int": "KInt", "bool": "KInt", "float": "KFloat", "complex": "KCplx", "i64": "KNpI", "i32": "KNpI",
            "i8": "KNpI", "f32": "KNpI", "f64": "KNpF", "c128": "KNpC", "c64": "KNpC", "arri": "KArrI", "arrf": "KArrF"}
# global / per-letter scales 2**k: ~1e-30, 1e-24, 1e-17, 1e-8, 1e8, 1e24, 1e30 (dyadic, so both sides stay exact)
KS = [-100, -80, -57, -27, 27, 80, 100]
REAL_KINDS = ["int", "float", "i64", "f64", "i32", "f32", "i8", "bool"]
CPLX_KINDS = ["complex", "c128", "c64"]
INT_KINDS = {"int", "i64", "i32", "i8", "bool"}


# ------------------------------------------------------------------------------- generator
class Gen:
    def __init__(self, rng, ndof, dof_syms=None, qs=1, max_terms=20, max_word=7, malformed=False, plain=False, scale=False):
        self.r = rng
        # scale mode: every non-identity letter (symbol, dof) carries a power-of-two weight 2**k; a leaf's factor is
        # multiplied by the weights of its letters.  The magnitude of a term is then determined by its (symbol, dofs)
        # key, so merging equal terms stays exact in binary64 while magnitudes range over ~1e-180 .. 1e180.
        self.scale = {} if scale else None
        if scale:
            max_word = min(max_word, 6)
        self.ndof = ndof
        self.dof_syms = dof_syms
        self.qs = qs
        self.max_terms = max_terms
        self.max_word = max_word
        self.malformed = malformed
        self.plain = plain           # oracle programs: no exotic constructor styles needed
        self.env = []                # (typ, nt, wl) of let-bound values
        self.hist = {}

    def count(self, k):
        self.hist[k] = self.hist.get(k, 0) + 1

    # ---- scalars
    def sc(self, purpose):
        r = self.r
        if purpose == "zero":
            k = r.choice(["int", "float", "f64", "i64", "complex", "c128", "arri", "arrf", "bool", "f32", "int", "float"])
            v = 0 if r.random() < 0.85 else r.choice([1, 2])
            return {"t": "sc", "k": k, "re": v, "im": 0, "ex": 0}
        if purpose == "atol":
            k = r.choice(["int", "float", "f64", "float"])
            if k == "int":
                return {"t": "sc", "k": k, "re": r.choice([0, 1, 2, 5, -1]), "im": 0, "ex": 0}
            return {"t": "sc", "k": k, "re": r.choice([0, 1, 3, 5, -1]), "im": 0, "ex": r.choice([-3, -1, 0, 1])}
        cplx = r.random() < 0.3
        k = r.choice(CPLX_KINDS if cplx else REAL_KINDS)
        if purpose == "factor":
            k = r.choice(["complex", "c128"] if cplx else ["int", "float", "float", "f64", "i64"])
        if purpose == "div":
            ex = r.choice([-2, -1, 0, 1, 2])
            if cplx:
                re, im = r.choice([(0, 1), (0, -1), (1, 1), (1, -1), (-1, 1), (-1, 0), (1, 0)])
            else:
                re, im = r.choice([1, 1, -1]), 0
            if k in INT_KINDS:
                ex = r.choice([0, 1, 2])
            if k == "bool":
                re, ex = 1, 0
            if self.malformed and r.random() < 0.25 and k in ("int", "float", "complex", "bool"):
                re, im, ex = 0, 0, 0          # ZeroDivisionError
            return {"t": "sc", "k": k, "re": re, "im": im, "ex": ex}
        re = r.choice([1, 1, 1, -1, -1, 2, -2, 3, -3, 5, 0])
        im = r.choice([0, 1, -1, 2, 1]) if cplx else 0
        ex = r.choice([-2, -1, 0, 0, 1])
        if k in INT_KINDS:
            ex = 0
        if k == "bool":
            re = r.choice([0, 1])
        if k == "i8":
            re = max(-5, min(5, re))
        return {"t": "sc", "k": k, "re": re, "im": im, "ex": ex}

    def scaled(self, f, syms, dofs):
        if self.scale is None:
            return f
        k = 0
        for s_, d_ in zip(syms, dofs):
            if s_ != 0:
                if (s_, d_) not in self.scale:
                    self.scale[(s_, d_)] = self.r.choice([-100, -80, -57, -27, 0, 0, 27, 80, 100])
                k += self.scale[(s_, d_)]
        if k == 0:
            return f
        f = dict(f, ex=f["ex"] + k)
        if f["k"] in INT_KINDS or f["k"] in ("f32", "c64"):
            f["k"] = "float"
        return f

    # ---- leaves
    def letter(self, prev_dofs):
        r = self.r
        if prev_dofs and r.random() < 0.35:
            d = r.choice(prev_dofs)
        elif self.dof_syms is not None:
            d = r.choice(sorted(self.dof_syms))
        else:
            d = r.randrange(self.ndof)
        if r.random() < 0.2:
            s = 0
        elif self.dof_syms is not None:
            s = r.choice(self.dof_syms[d])
        else:
            s = r.randrange(1, len(SYMS))
        if s == 0:
            q = [0] * self.qs
            if self.malformed and r.random() < 0.3:
                q[r.randrange(self.qs)] = r.choice([1, -1])
        elif s in (1, 2) and r.random() < 0.8:
            q = [1 if s == 2 else -1] + [r.choice([0, 0, 1]) for _ in range(self.qs - 1)]
        else:
            q = [r.choice([0, 0, 0, 1, -1]) for _ in range(self.qs)]
        return s, d, q

    def leaf_op(self):
        r = self.r
        if r.random() < 0.07:
            n = r.choice([1, 1, 2, 3])
            pool = sorted(self.dof_syms) if self.dof_syms is not None else list(range(self.ndof))
            ds = [r.choice(pool) for _ in range(n)]
            single = n == 1 and r.random() < 0.5
            self.count("leaf:identity")
            return ({"t": "ident", "dofs": ds, "single": single, "qs": self.qs, "f": self.sc("factor")}, "O", 1, n)
        n = r.choice([1, 1, 1, 2, 2, 3])
        syms, dofs, qn = [], [], []
        for _ in range(n):
            s, d, q = self.letter(dofs)
            syms.append(s), dofs.append(d), qn.append(q)
        node = {"t": "op", "syms": syms, "dofs": dofs, "f": self.scaled(self.sc("factor"), syms, dofs), "qn": qn, "qnstyle": "nested"}
        default = [[1] if s == 2 else [-1] if s == 1 else [0] for s in syms]
        if self.qs == 1:
            st = r.choice(["nested", "flat", "array", "int" if n == 1 else "flat"])
            if qn == default and r.random() < 0.6:
                st = "none"
            node["qnstyle"] = st
        else:
            node["qnstyle"] = r.choice(["nested", "array"])
        if n > 1 and len(set(dofs)) == 1 and r.random() < 0.5:
            node["share"] = True
        if n == 1 and r.random() < 0.4:
            node["listdof"] = True
        self.count("leaf:op%d" % n)
        return node, "O", 1, n

    def leaf(self, want):
        r = self.r
        cands = [i for i, (t, nt, wl) in enumerate(self.env) if t == want]
        if cands and r.random() < 0.3:
            i = r.choice(cands)
            self.count("leaf:var")
            return {"t": "var", "i": i}, want, self.env[i][1], self.env[i][2]
        if want == "O":
            return self.leaf_op()
        n = r.choice([1, 2, 2, 3])
        items = [self.leaf_op() for _ in range(n)]
        if r.random() < 0.08:
            items = []                     # empty OpSum() / []
        node = {"t": "opsum" if want == "U" else "list", "items": [x[0] for x in items]}
        self.count("leaf:" + node["t"])
        return node, want, len(items), max([x[3] for x in items] + [0])

    def fresh(self, a):
        node, t, nt, wl = a
        if t == "U" and node["t"] not in ("bin", "neg", "mksum", "copy", "opsum", "simplify", "iadd", "sum"):
            return {"t": "copy", "a": node}, t, nt, wl
        if t == "L" and node["t"] not in ("list", "mklist", "bin"):
            return {"t": "mklist", "a": node}, t, nt, wl
        return a

    # ---- composite nodes
    def gen(self, d, want):
        r = self.r
        if d <= 0:
            return self.leaf(want)
        for _ in range(6):
            res = self.compose(d, want)
            if res is not None and res[2] <= self.max_terms and res[3] <= self.max_word:
                return res
        return self.leaf(want)

    def kids(self, d, ta, tb):
        r = self.r
        da, db = d - 1, d - 1
        if r.random() < 0.6:
            if r.random() < 0.5:
                da = r.randint(0, d - 1)
            else:
                db = r.randint(0, d - 1)
        return self.gen(da, ta), self.gen(db, tb)

    def compose(self, d, want):
        r = self.r
        B = lambda op, a, b, aug=False: {"t": "bin", "op": op, "a": a[0], "b": b[0], "aug": aug}
        S = lambda p: (self.sc(p), "S", 0, 0)
        if want == "O":
            p = r.choice(["mul", "mul", "mul", "scal", "scal", "rscal", "neg", "squeeze", "oprod", "sprod", "aug*"])
            self.count("O:" + p)
            if p in ("mul", "aug*"):
                a, b = self.kids(d, "O", "O")
                if p == "aug*" and r.random() < 0.5:
                    b = S("mul")
                return B("*", a, b, p == "aug*"), "O", 1, a[3] + b[3]
            if p == "scal":
                a = self.gen(d - 1, "O")
                return B("*", a, S("mul")), "O", 1, a[3]
            if p == "rscal":
                a = self.gen(d - 1, "O")
                return B("*", S("mul"), a), "O", 1, a[3]
            if p in ("neg", "squeeze"):
                a = self.gen(d - 1, "O")
                return {"t": p, "a": a[0]}, "O", 1, a[3]
            n = r.choice([1, 2, 2, 3])
            items = [self.gen(r.randint(0, d - 1), "O") for _ in range(n)]
            if p == "sprod" and n >= 2 and r.random() < 0.5:
                items.insert(r.randrange(1, len(items) + 1), S("mul"))
            return {"t": p, "items": [x[0] for x in items]}, "O", 1, sum(x[3] for x in items)
        if want == "L":
            p = r.choice(["leaf", "cat", "cat", "mklist", "iadd", "copy"])
            self.count("L:" + p)
            if p == "leaf":
                return self.leaf("L")
            if p == "cat":
                a, b = self.kids(d, "L", r.choice(["L", "U"]))
                return B("+", a, b), "L", a[2] + b[2], max(a[3], b[3])
            if p == "iadd":
                a, b = self.kids(d, "L", r.choice(["L", "U"]))
                a = self.fresh(a)
                return {"t": "iadd", "a": a[0], "b": b[0]}, "L", a[2] + b[2], max(a[3], b[3])
            a = self.gen(d - 1, r.choice(["U", "L"]) if p == "mklist" else "L")
            return {"t": p, "a": a[0]}, "L", a[2], a[3]
        # want == "U"
        p = r.choice(["add", "add", "add", "sub", "sub", "add0", "mul", "mul", "mul", "scal", "scal", "div", "neg",
                      "iadd", "iadd", "simplify", "simplify", "mksum", "copy", "sprod", "sum", "aug", "cancel"])
        self.count("U:" + p)
        if p == "cancel":                  # a correction whose terms cancelled: (x - x).simplify() == OpSum()
            a = self.gen(d - 1, r.choice(["U", "O"]))
            return ({"t": "simplify", "a": {"t": "bin", "op": "-", "a": a[0], "b": json.loads(json.dumps(a[0])), "aug": False}, "atol": None},
                    "U", 0, a[3])
        if p in ("add", "sub"):
            ta, tb = r.choice([("O", "O"), ("O", "U"), ("U", "O"), ("U", "U")] +
                              ([("U", "L"), ("O", "L")] if p == "add" else []))
            a, b = self.kids(d, ta, tb)
            return B("+" if p == "add" else "-", a, b), "U", a[2] + b[2], max(a[3], b[3])
        if p == "add0":
            a = self.gen(d - 1, "O")
            z = S("zero")
            form = r.choice(["r", "l", "sub"])
            if form == "r":
                return B("+", a, z), "U", 1, a[3]
            if form == "l":
                return B("+", z, a), "U", 1, a[3]
            return B("-", a, z), "U", 1, a[3]
        if p == "mul":
            ta, tb = r.choice([("U", "O"), ("O", "U"), ("U", "U"), ("U", "U"), ("L", "O"), ("O", "L"), ("U", "L")])
            a, b = self.kids(d, ta, tb)
            return B("*", a, b), "U", a[2] * b[2], a[3] + b[3]
        if p == "scal":
            a = self.gen(d - 1, "U")
            if r.random() < 0.5:
                return B("*", a, S("mul")), "U", a[2], a[3]
            return B("*", S("mul"), a), "U", a[2], a[3]
        if p == "div":
            a = self.gen(d - 1, "U")
            return B("/", a, S("div"), r.random() < 0.2), "U", a[2], a[3]
        if p == "aug":
            o = r.choice(["-", "*"])
            if o == "-":
                a, b = self.kids(d, "U", r.choice(["O", "U"]))
                return B("-", a, b, True), "U", a[2] + b[2], max(a[3], b[3])
            a, b = self.kids(d, "U", r.choice(["O", "U"]))
            return B("*", a, b, True), "U", a[2] * b[2], a[3] + b[3]
        if p == "iadd":
            ta, tb = r.choice([("U", "O"), ("U", "U"), ("U", "L"), ("O", "O"), ("O", "U")])
            a, b = self.kids(d, ta, tb)
            a = self.fresh(a)
            return {"t": "iadd", "a": a[0], "b": b[0]}, "U", a[2] + b[2], max(a[3], b[3])
        if p == "simplify":
            a = self.gen(d - 1, "U")
            atol = None if r.random() < 0.45 else self.sc("atol")
            if atol is not None:
                atol = {k: v for k, v in atol.items() if k != "t"}
            return {"t": "simplify", "a": a[0], "atol": atol}, "U", a[2], a[3]
        if p == "neg":
            a = self.gen(d - 1, "U")
            return {"t": "neg", "a": a[0]}, "U", a[2], a[3]
        if p == "mksum":
            a = self.gen(d - 1, r.choice(["L", "U"]))
            return {"t": "mksum", "a": a[0]}, "U", a[2], a[3]
        if p == "copy":
            a = self.gen(d - 1, "U")
            return {"t": "copy", "a": a[0]}, "U", a[2], a[3]
        if p == "sum":
            n = r.choice([1, 2, 3])
            items = [self.gen(r.randint(0, d - 1), "O")] + [self.gen(r.randint(0, d - 1), r.choice(["O", "O", "U"])) for _ in range(n - 1)]
            return {"t": "sum", "items": [x[0] for x in items]}, "U", sum(x[2] for x in items), max(x[3] for x in items)
        # sprod
        n = r.choice([0, 1, 2, 2, 3]) if r.random() < 0.1 else r.choice([2, 2, 3])
        items = [self.gen(r.randint(0, d - 1), r.choice(["U", "O", "U", "L"] if i == 0 else ["U", "O", "L"])) for i in range(n)]
        if n >= 1 and r.random() < 0.4:
            # a scalar directly after a leading plain list would be python list repetition, not the API
            lo = 2 if (items[0][1] == "L" and len(items) >= 2) else 1
            if not (items[0][1] == "L" and len(items) < 2):
                items.insert(r.randrange(lo, len(items) + 1), S("mul"))
        nt, wl = 1, 0
        for x in items:
            if x[1] != "S":
                nt, wl = nt * x[2], wl + x[3]
        return {"t": "sprod", "items": [x[0] for x in items]}, "U", nt if items else 0, wl

    def wild(self, d):
        """malformed stream: an operator applied to operands of arbitrary kinds"""
        r = self.r
        T = lambda: r.choice(["O", "U", "L", "S"])
        def g(t):
            if t == "S":
                return (self.sc(r.choice(["mul", "zero", "div"])), "S", 0, 0)
            return self.gen(r.randint(0, max(0, d - 1)), t)
        p = r.choice(["bin", "bin", "bin", "neg", "simplify", "squeeze", "mksum", "mklist", "copy", "oprod", "iadd", "sum"])
        self.count("wild:" + p)
        if p == "bin":
            a, b = g(T()), g(T())
            if a[1] == "S" and b[1] == "S":
                b = g("O")
            o = r.choice("+-*/")
            if o == "*" and "S" in (a[1], b[1]) and "L" in (a[1], b[1]):
                o = "+"                       # python list repetition is not part of the API
            for x in (a, b):                  # arrays only take part in + and -
                if x[1] == "S" and x[0]["k"] in ("arri", "arrf") and o in "*/":
                    o = "+"
            if o == "+" and a[1] == "S" and a[0]["k"] in ("arri", "arrf") and b[1] in ("U", "L"):
                a = g("O")
            # a NumPy scalar and a plain python list: NumPy broadcasting, no renormalizer object is an operand
            np_kinds = ("i64", "i32", "i8", "f32", "f64", "c128", "c64", "arri", "arrf")
            if (a[1] == "S" and a[0]["k"] in np_kinds and b[1] == "L") or (b[1] == "S" and b[0]["k"] in np_kinds and a[1] == "L"):
                if a[1] == "S":
                    a = g("O")
                else:
                    b = g("O")
            return {"t": "bin", "op": o, "a": a[0], "b": b[0], "aug": False}, "X", 1, 1
        if p == "iadd":
            a, b = g(r.choice(["U", "L", "O"])), g(T())
            if b[1] == "S" and b[0]["k"] in ("arri", "arrf") and a[1] != "O":
                b = g("O")
            a = self.fresh(a)
            return {"t": "iadd", "a": a[0], "b": b[0]}, "X", 1, 1
        if p in ("oprod", "sum"):
            items = [g(r.choice(["O", "O", "U", "L"])) for _ in range(r.choice([0, 1, 2, 3]))]
            return {"t": p, "items": [x[0] for x in items]}, "X", 1, 1
        a = g(r.choice(["O", "U", "L"]))
        node = {"t": p, "a": a[0]}
        if p == "simplify":
            node["atol"] = None
        return node, "X", 1, 1

    def program(self, depth):
        r = self.r
        self.env = []
        lets = []
        if not self.plain or r.random() < 0.5:
            for _ in range(r.choice([0, 0, 1, 2])):
                t = r.choice(["O", "U", "U"])
                x = self.gen(r.randint(0, min(2, depth)), t)
                lets.append(x[0])
                self.env.append((t, x[2], x[3]))
        if self.malformed and r.random() < 0.5:
            body = self.wild(depth)
        else:
            body = self.gen(depth, r.choice(["U", "U", "U", "O", "L"] if not self.plain else ["U", "U", "U", "O"]))
        self.body_typ = body[1]
        return {"lets": lets, "body": body[0]}


# ------------------------------------------------------------------------------- Coq rendering
def zc(n):
    return "(%d)" % n if n < 0 else "%d" % n


def dgc(sc):
    return "(%s, %s, %s)" % (zc(sc["re"]), zc(sc["im"]), zc(sc["ex"]))


def coq_op(node):
    """Coq term of type op DG for a leaf"""
    if node["t"] == "ident":
        return "(op_identity DG [%s] %d %s)" % ("; ".join(zc(d) for d in node["dofs"]), node["qs"], dgc(node["f"]))
    if node.get("qnstyle") == "none":
        return "(mk_op_default DG [%s] %s)" % ("; ".join("(%s, %s)" % (zc(s), zc(d)) for s, d in zip(node["syms"], node["dofs"])), dgc(node["f"]))
    ls = "; ".join("(%s, %s, [%s])" % (zc(s), zc(d), "; ".join(zc(x) for x in q))
                   for s, d, q in zip(node["syms"], node["dofs"], node["qn"]))
    return "(@mkOp DG [%s] %s)" % (ls, dgc(node["f"]))


def coq_val(node):
    """Coq term of type option (val DG)"""
    t = node["t"]
    if t in ("op", "ident"):
        return "(Some (VO %s))" % coq_op(node)
    if t == "sc":
        return "(Some (@VS DG %s %s))" % (KIND_COQ[node["k"]], dgc(node))
    if t == "var":
        return "x%d" % node["i"]
    if t in ("list", "opsum"):
        return "(obind (obind (oseq [%s]) (all_ops DG)) (fun l => Some (%s l)))" % (
            "; ".join(coq_val(x) for x in node["items"]), "@VL DG" if t == "list" else "@VSum DG")
    if t == "bin":
        f = {"+": "v_add", "-": "v_sub", "*": "v_mul", "/": "v_div"}[node["op"]]
        return "(bind2 DG %s %s (%s DG))" % (coq_val(node["a"]), coq_val(node["b"]), f)
    if t == "iadd":
        return "(bind2 DG %s %s (v_iadd DG))" % (coq_val(node["a"]), coq_val(node["b"]))
    if t == "simplify":
        at = node.get("atol")
        tol = "(0, 0)" if at is None else "(%s, %s)" % (zc(at["re"]), zc(at["ex"]))
        return "(obind %s (v_simplify DG %s))" % (coq_val(node["a"]), tol)
    if t in ("neg", "squeeze", "mksum", "mklist", "copy"):
        return "(obind %s (v_%s DG))" % (coq_val(node["a"]), t)
    if t == "sprod":
        return "(obind (oseq [%s]) (v_sum_product DG))" % "; ".join(coq_val(x) for x in node["items"])
    if t == "oprod":
        return "(obind (oseq [%s]) (v_op_product DG))" % "; ".join(coq_val(x) for x in node["items"])
    if t == "sum":
        acc = "(Some (@VS DG KInt (0, 0, 0)))"
        seq = "(oseq [%s])" % "; ".join(coq_val(x) for x in node["items"])
        return "(obind %s (fun l => fold_left (fun acc b => obind acc (fun x => v_add DG x b)) l %s))" % (seq, acc)
    raise ValueError(t)


def coq_prog(prog):
    s = coq_val(prog["body"])
    for i in reversed(range(len(prog["lets"]))):
        s = "(let x%d := %s in obind x%d (fun _ => %s))" % (i, coq_val(prog["lets"][i]), i, s)
    return s


def coq_expr(node):
    """Coq term of type expr DG, or None when the node is outside the expr fragment"""
    t = node["t"]
    if t in ("op", "ident"):
        return "(EVal DG (VO %s))" % coq_op(node)
    if t == "sc":
        return "(EVal DG (@VS DG %s %s))" % (KIND_COQ[node["k"]], dgc(node))
    if t in ("list", "opsum"):
        if not all(x["t"] in ("op", "ident") for x in node["items"]):
            return None
        return "(EVal DG (%s [%s]))" % ("@VL DG" if t == "list" else "@VSum DG", "; ".join(coq_op(x) for x in node["items"]))
    if t == "bin":
        a, b = coq_expr(node["a"]), coq_expr(node["b"])
        if a is None or b is None:
            return None
        return "(%s DG %s %s)" % ({"+": "EAdd", "-": "ESub", "*": "EMul", "/": "EDiv"}[node["op"]], a, b)
    if t == "iadd":
        a, b = coq_expr(node["a"]), coq_expr(node["b"])
        return None if a is None or b is None else "(EIAdd DG %s %s)" % (a, b)
    if t in ("neg", "squeeze", "mksum", "mklist", "copy"):
        a = coq_expr(node["a"])
        c = {"neg": "ENeg", "squeeze": "ESqz", "mksum": "EMkSum", "mklist": "EMkList", "copy": "ECopy"}[t]
        return None if a is None else "(%s DG %s)" % (c, a)
    if t == "simplify":
        a = coq_expr(node["a"])
        at = node.get("atol")
        tol = "(0, 0)" if at is None else "(%s, %s)" % (zc(at["re"]), zc(at["ex"]))
        return None if a is None else "(ESimp DG %s %s)" % (tol, a)
    return None


PREAMBLE = ("From Coq Require Import ZArith List Bool.\nImport ListNotations.\nFrom RV Require Import Model.OpAlg.\n"
            "Local Open Scope Z_scope.\n"
            "Definition pk (e : list Z) : list Z := Z.of_nat (length e) :: e.\n")


# ------------------------------------------------------------------------------- decoding
class Rd:
    def __init__(self, xs):
        self.xs, self.i = xs, 0

    def get(self):
        v = self.xs[self.i]
        self.i += 1
        return v


def dec_dg(rd):
    re, im, ex = rd.get(), rd.get(), rd.get()
    sc = Fraction(2) ** ex
    return Fraction(re) * sc, Fraction(im) * sc


def dec_op(rd):
    n = rd.get()
    syms, dofs, qn = [], [], []
    for _ in range(n):
        syms.append(rd.get())
        dofs.append(rd.get())
        k = rd.get()
        qn.append([rd.get() for _ in range(k)])
    re, im = dec_dg(rd)
    return {"syms": syms, "dofs": dofs, "qn": qn, "re": [re.numerator, re.denominator], "im": [im.numerator, im.denominator]}


def dec_val(xs):
    rd = Rd(xs)
    tag = rd.get()
    if tag == 0:
        return {"tag": "err"}
    if tag == 1:
        rd.get()
        re, im = dec_dg(rd)
        return {"tag": "scalar", "re": [re.numerator, re.denominator], "im": [im.numerator, im.denominator]}
    if tag == 2:
        return {"tag": "op", "terms": [dec_op(rd)]}
    n = rd.get()
    return {"tag": "list" if tag == 3 else "opsum", "terms": [dec_op(rd) for _ in range(n)]}


def unpack(flat):
    out, i = [], 0
    while i < len(flat):
        n = flat[i]
        out.append(flat[i + 1:i + 1 + n])
        i += 1 + n
    return out


def cmp_terms(a, b):
    """impl export term vs model term: 'same' | 'rounded' | description of the difference"""
    if a.get("prob"):
        return "export problem: %s" % a["prob"]
    for k in ("syms", "dofs", "qn"):
        if a[k] != b[k]:
            return "%s differ: impl %s model %s" % (k, a[k], b[k])
    res = "same"
    for k in ("re", "im"):
        if a[k] is None:
            return "non-finite factor"
        x, y = Fraction(*a[k]), Fraction(*b[k])
        if x != y:
            if abs(x - y) <= Fraction(1, 10 ** 12) * max(abs(x), abs(y)):
                res = "rounded"
            else:
                return "factor differs: impl %s model %s" % (float(x), float(y))
    return res


def cmp_result(impl, model):
    if model["tag"] == "err":
        return "same" if impl["tag"] == "err" else "model rejects, implementation accepts (%s)" % impl["tag"]
    if impl["tag"] == "err":
        return "implementation raises %s: %s" % (impl.get("exc"), impl.get("msg"))
    if impl["tag"] != model["tag"]:
        return "result kind differs: impl %s model %s" % (impl["tag"], model["tag"])
    if impl["tag"] == "scalar":
        return "same" if (Fraction(*impl["re"]), Fraction(*impl["im"])) == (Fraction(*model["re"]), Fraction(*model["im"])) else "scalar differs"
    if len(impl["terms"]) != len(model["terms"]):
        return "number of terms differs: impl %d model %d" % (len(impl["terms"]), len(model["terms"]))
    res = "same"
    for a, b in zip(impl["terms"], model["terms"]):
        c = cmp_terms(a, b)
        if c == "rounded":
            res = "rounded"
        elif c != "same":
            return c
    return res


def nops(node):
    if not isinstance(node, dict):
        return 0
    n = 1 if node.get("t") not in ("op", "ident", "sc", "var", "list", "opsum") else 0
    for k in ("a", "b"):
        if isinstance(node.get(k), dict):
            n += nops(node[k])
    for x in node.get("items", []) or []:
        n += nops(x)
    return n


def depth_of(node):
    if not isinstance(node, dict):
        return 0
    ch = [node[k] for k in ("a", "b") if isinstance(node.get(k), dict)] + list(node.get("items", []) or [])
    return (1 + max(depth_of(c) for c in ch)) if ch else 0


def fail_class(diff):
    if diff.startswith("implementation raises"):
        return "impl-raises-" + diff.split()[2].rstrip(":")
    if diff.startswith("model rejects"):
        return "impl-accepts-model-rejects"
    if diff.startswith("number of terms") or diff.startswith("result kind"):
        return "shape-differs"
    if diff.startswith("factor") or diff.startswith("scalar"):
        return "factor-differs"
    if diff.startswith("export") or diff.startswith("non-finite"):
        return "malformed-result"
    return "fields-differ"


REPRO_TIE = ("import sys, json\nsys.path.insert(0, %r)\nimport c15_lib\n"
             "sys.exit(c15_lib.replay(json.loads(%r)))\n")
REPRO_CT = ("import sys, json\nsys.path.insert(0, %r)\nimport c15_lib\n"
            "sys.exit(c15_lib.replay_ct(json.loads(%r)))\n")
REPRO_ORA = ("import sys, json\nsys.path.insert(0, %r)\nimport c15_oracle\n"
             "sys.exit(c15_oracle.replay(json.loads(%r)))\n")
IMPL_DIR = os.path.join(common.VERIF, "harness", "impl")


# ------------------------------------------------------------------------------- the check
def run(ctx):
    rng = ctx.rng
    thorough = ctx.tier == "thorough"
    n_prog = 3600 if thorough else 420
    n_pair = 1000 if thorough else 140
    n_split = 600 if thorough else 90
    n_ora = 3000 if thorough else 360
    n_ct = 1200 if thorough else 160          # Model.check_operator_terms cases (global / mixed scales)
    n_scl = 500 if thorough else 70           # dense oracle: Model(c * H) = c * Model(H)
    n_hist = 600 if thorough else 90          # the same Op objects in models that group the dofs differently
    ctx.trusted += [
        "correspondence harness/c15.py + harness/impl/c15_lib.py: rendering of a JSON expression program as python operators on renormalizer Op/OpSum and as a Coq term over Model/OpAlg.v (DG instance), field-by-field export, decoding of the vm_compute output",
        "CPython/NumPy: operator dispatch (reflected operands, subclass priority), numeric ==/hash invariant across int/float/complex/NumPy scalars, exactness of binary64 arithmetic on the small dyadic factors used (a 1e-12 relative fallback is counted separately)",
        "modelled, not verified: binary64 rounding of factors; NumPy hypot in np.abs for complex factors (tolerances are chosen so the comparison |c|>atol is decided exactly); symbol strings are abstracted to lists of symbol ids (the string form is checked by the exporter)",
        "translator tx/checkterms.py (python ast of Model.check_operator_terms -> Gen/CheckTerms.v; fail-closed: only `factor == 0` is understood as discard test)",
        "dense oracle harness/impl/c15_oracle.py is not in the trusted base of any theorem (failing-input search only)"]
    ctx.assumptions += [
        "interpretation contract malg_ok (M unital ring, scalars embedded centrally, 'I' |-> 1) and, for split_elementary only, sites_commute (letters on different sites commute): Section hypotheses of the theorems, true of kron-embedded local matrices; a non-commutative instance is exhibited (Props/C15.v Examples)",
        "OpSum.product([]) returns the empty sum (denotes 0); the product theorem is stated for non-empty lists",
        "expressions the implementation rejects (TypeError etc.) are outside the property: Op / scalar, list * OpSum, OpSum + 0 are rejected by op.py and by the model alike",
        "EXCLUDED INPUT CLASS (decision, reported to the coordinator): a plain python list multiplied by an int, in particular OpSum.product([plain_list, negative_int, ...]) which the implementation accepts and evaluates to [] (denotes 0, wrong matrix; CPython list repetition). The generator never places a scalar directly after a leading plain list and the model rejects list*scalar; current behaviour is re-observed on every run (notes: excluded-class probe)",
        "EXCLUDED FROM THE Mpo ORACLE ROUTE (failure of /repo outside C15, reported to the coordinator): Mpo(model, terms) raises a NumPy ValueError when the terms cancel exactly; programs denoting the zero operator are compared through the own-kron route only"]

    # ---- 0. translator: Model.check_operator_terms -> Gen/CheckTerms.v (fail-closed)
    tx_fail = None
    try:
        text, tx_info = txct.main(common.REPO)
        ctx.regen("Gen/CheckTerms.v", text)
        ctx.obligations.append({"name": "translator tx/checkterms.py (discard test: %s)" % tx_info["source"], "file": "Gen/CheckTerms.v", "ok": True, "assumptions": []})
    except Exception as e:  # noqa: BLE001
        tx_fail = "%s: %s" % (type(e).__name__, e)
        ctx.obligations.append({"name": "translator tx/checkterms.py", "file": "Gen/CheckTerms.v", "ok": False, "assumptions": None})

    # ---- 1. Coq
    ok_build, log = ctx.coq_make(["Proofs/OpAlgProofs.vo"])
    ok_props = False
    if ok_build:
        ok_props, log = ctx.props("Props/C15.v")
    else:
        ctx.obligations.append({"name": "C15 (build of Model/OpAlg.v + Proofs/OpAlgProofs.v)", "file": "Proofs/OpAlgProofs.v", "ok": False, "assumptions": None})

    # ---- 2. cases
    programs, meta = [], []
    hist = {}
    for i in range(n_prog):
        qs = 1 if rng.random() < 0.55 else 2
        malformed = rng.random() < 0.12
        alpha = None
        if rng.random() < 0.65:          # small alphabets make equal (symbol, dofs) keys frequent
            ds = rng.sample(range(len(DOFS_TIE)), rng.choice([1, 2, 2, 3]))
            ss = rng.sample(range(1, len(SYMS)), rng.choice([1, 2, 2, 3]))
            alpha = {d: ss for d in ds}
        scaled = rng.random() < 0.3
        g = Gen(rng, len(DOFS_TIE), alpha, qs=qs, malformed=malformed, scale=scaled)
        depth = rng.choice([1, 2, 2, 3, 3, 4, 4, 5, 5])
        p = g.program(depth)
        if scaled and g.body_typ in ("U", "O") and rng.random() < 0.6:
            p["body"] = root_scale(rng, p["body"], g.body_typ)       # global scale c * H, H * c, H / c
        if g.body_typ == "U" and rng.random() < 0.4:
            at = None if rng.random() < 0.5 else {k: v for k, v in g.sc("atol").items() if k != "t"}
            if at is not None and scaled and at["k"] != "int":
                at["ex"] += rng.choice([0, 0] + KS)                  # tolerances of every magnitude
            p["body"] = {"t": "simplify", "a": p["body"], "atol": at}
        programs.append(p)
        meta.append({"qs": qs, "malformed": malformed, "scaled": scaled, "depth": depth_of(p["body"]), "nops": nops(p["body"]) + sum(nops(x) for x in p["lets"])})
        for k, v in g.hist.items():
            hist[k] = hist.get(k, 0) + v
    pairs = gen_pairs(rng, n_pair)
    splits = gen_splits(rng, n_split)
    cts = gen_cts(rng, n_ct)

    payload = {"syms": SYMS, "dofs": DOFS_TIE}
    chunks = 12 if thorough else 6
    pls = []
    for c in range(chunks):
        pl = dict(payload)
        pl["programs"] = programs[c::chunks]
        pl["pairs"] = pairs[c::chunks]
        pl["splits"] = splits[c::chunks]
        pl["cts"] = cts[c::chunks]
        pls.append(pl)
    impl_out = ctx.impl_par("c15_impl.py", pls)
    impl_prog = [None] * len(programs)
    impl_pair = [None] * len(pairs)
    impl_split = [None] * len(splits)
    impl_ct = [None] * len(cts)
    impl_fail = None
    for c, (rc, res, out) in enumerate(impl_out):
        if res is None:
            impl_fail = out[-1500:]
            continue
        impl_prog[c::chunks] = res["programs"]
        impl_pair[c::chunks] = res["pairs"]
        impl_split[c::chunks] = res["splits"]
        impl_ct[c::chunks] = res["cts"]

    # ---- 3. model
    files = []
    per = 60
    for k in range(0, len(programs), per):
        blk = programs[k:k + per]
        txt = PREAMBLE + "Eval vm_compute in (flat_map (fun v => pk (enc_val v)) [\n%s]).\n" % ";\n".join(coq_prog(p) for p in blk)
        ex = []
        for j, p in enumerate(blk):
            if not p["lets"] and (k + j) % 2 == 0:
                e = coq_expr(p["body"])
                if e is not None:
                    ex.append((k + j, "(b2z (zlist_eqb (enc_val (eval DG %s)) (enc_val %s)))" % (e, coq_val(p["body"]))))
        txt += "Eval vm_compute in ([%s] : list Z).\n" % "; ".join(e for _, e in ex)
        files.append(("prog%03d" % (k // per), txt, ("prog", k, len(blk), [i for i, _ in ex])))
    for k in range(0, len(pairs), 100):
        blk = pairs[k:k + 100]
        body = ";\n".join("(match %s, %s with Some (VO a), Some (VO b) => b2z (op_eqb DG a b) | _, _ => (-1) end)" % (coq_prog(a), coq_prog(b)) for a, b in blk)
        files.append(("pair%03d" % (k // 100), PREAMBLE + "Eval vm_compute in ([\n%s] : list Z).\n" % body, ("pair", k, len(blk), None)))
    for k in range(0, len(splits), 100):
        blk = splits[k:k + 100]
        body = ";\n".join("(pk (match %s with Some (VO a) => 1 :: enc_split (split_elementary DG (fun d => nth (Z.to_nat d) [%s] 0) a) | _ => [0] end))"
                          % (coq_prog(s["prog"]), "; ".join(zc(x) for x in s["site"])) for s in blk)
        files.append(("split%03d" % (k // 100), PREAMBLE + "Eval vm_compute in (concat [\n%s]).\n" % body, ("split", k, len(blk), None)))
    for k in range(0, len(cts), 80):
        blk = cts[k:k + 80]
        body = ";\n".join("(pk (enc_val (obind (oseq [%s]) (fun l => option_map (@VL DG) (check_operator_terms DG (fun d => existsb (Z.eqb d) [%s]) l)))))"
                          % ("; ".join(coq_prog(c_["items"][i]) for i in (c_.get("repeat") or range(len(c_["items"])))), "; ".join(zc(x) for x in c_["known"])) for c_ in blk)
        files.append(("ct%03d" % (k // 80), PREAMBLE + "From RV Require Import Gen.CheckTerms.\nEval vm_compute in (concat [\n%s]).\n" % body, ("ct", k, len(blk), None)))
    model_ct = [None] * len(cts)
    model_prog = [None] * len(programs)
    model_pair = [None] * len(pairs)
    model_split = [None] * len(splits)
    eval_flags = {}
    coq_fail = None
    if ok_build:
        outs = ctx.coq_eval_many([(n, t) for n, t, _ in files])
        for n, t, (kind, k, cnt, extra) in files:
            rc, out = outs[n]
            lists = common.parse_Z_lists(out) if rc == 0 else None
            if not lists:
                coq_fail = (n, out[-1200:])
                continue
            if kind == "prog":
                vals = unpack(lists[0])
                if len(vals) != cnt or len(lists) < 2 or len(lists[1]) != len(extra):
                    coq_fail = (n, "unexpected number of values: %d for %d cases" % (len(vals), cnt))
                    continue
                for j, v in enumerate(vals):
                    model_prog[k + j] = dec_val(v)
                for i, f in zip(extra, lists[1]):
                    eval_flags[i] = f
            elif kind == "pair":
                if len(lists[0]) != cnt:
                    coq_fail = (n, "unexpected number of values")
                    continue
                model_pair[k:k + cnt] = lists[0]
            elif kind == "ct":
                vals = unpack(lists[0])
                if len(vals) != cnt:
                    coq_fail = (n, "unexpected number of values")
                    continue
                model_ct[k:k + cnt] = [dec_val(v) for v in vals]
            else:
                vals = unpack(lists[0])
                if len(vals) != cnt:
                    coq_fail = (n, "unexpected number of values")
                    continue
                model_split[k:k + cnt] = vals
    else:
        coq_fail = ("build", log[-1200:] if isinstance(log, str) else "")

    # ---- 3b. random-interpretation oracle on the tie programs and the split cases (also decides
    #          whether a correspondence mismatch is a failure of the property on the real code)
    rnd_out = ctx.impl_par("c15_oracle.py", [{"syms": SYMS, "dofs": DOFS_TIE, "space": "random",
                                               "programs": programs[c::chunks], "splits": splits[c::chunks]} for c in range(chunks)])
    rnd_prog = [None] * len(programs)
    rnd_split = [None] * len(splits)
    rnd_fail = None
    for c, (rc, res, out) in enumerate(rnd_out):
        if res is None:
            rnd_fail = out[-1500:]
            continue
        rnd_prog[c::chunks] = res["results"]
        rnd_split[c::chunks] = res["splits"]

    # ---- 4. diff
    fails = {}      # key -> list of (size, detail, repro)

    def add_fail(key, size, detail, repro, found=True):
        fails.setdefault(key, []).append((size, detail, repro, found))

    stats = {"programs": len(programs), "accepted": 0, "rejected_both": 0, "same": 0, "rounded": 0,
             "eval_agree": 0, "pairs": len(pairs), "pairs_equal": 0, "splits": len(splits),
             "scaled_programs": sum(1 for m in meta if m["scaled"]),
             "ct_cases": len(cts), "ct_same": 0, "ct_accepted": 0, "ct_terms_kept": 0, "ct_tiny_kept": 0}
    exc_hist, root_hist, depth_hist, kind_hist = {}, {}, {}, {}
    nontrivial = set()
    samples = []
    if impl_fail is None and coq_fail is None:
        for i, p in enumerate(programs):
            im, mo = impl_prog[i], model_prog[i]
            root = p["body"]["t"] + (":" + p["body"]["op"] if p["body"]["t"] == "bin" else "")
            root_hist[root] = root_hist.get(root, 0) + 1
            depth_hist[meta[i]["depth"]] = depth_hist.get(meta[i]["depth"], 0) + 1
            d = cmp_result(im, mo)
            rnd = rnd_prog[i] or {"status": "?"}
            case = {"syms": SYMS, "dofs": DOFS_TIE, "prog": p, "space": "random", "must_accept": mo["tag"] != "err"}
            repro = REPRO_ORA % (IMPL_DIR, json.dumps(case))
            if im.get("mutated_operand"):
                add_fail("program:mutated-operand", len(json.dumps(p)), {"program": p, "impl": im},
                         REPRO_TIE % (IMPL_DIR, json.dumps({"syms": SYMS, "dofs": DOFS_TIE, "prog": p, "expected": mo})))
            if im.get("audit"):
                a0 = im["audit"][0]
                add_fail("aliasing:%s@%s" % (a0["what"][:60].replace(" ", "-"), a0["node"]), len(json.dumps(p)),
                         {"audit": im["audit"], "program": p, "impl": {k: v for k, v in im.items() if k != "audit"}},
                         REPRO_TIE % (IMPL_DIR, json.dumps({"syms": SYMS, "dofs": DOFS_TIE, "prog": p, "expected": mo})))
            if rnd["status"] == "bad":
                first = rnd["bad"][0]
                add_fail("oracle-random:%s" % first["what"][:48].replace(" ", "-"), len(json.dumps(p)),
                         {"bad": rnd["bad"][:3], "program": p, "impl": im, "model": mo}, repro)
            if d in ("same", "rounded"):
                if im["tag"] == "err":
                    stats["rejected_both"] += 1
                    exc_hist[im.get("exc")] = exc_hist.get(im.get("exc"), 0) + 1
                else:
                    stats["accepted"] += 1
                    stats[d] += 1
                    if meta[i]["nops"] >= 2 and im.get("terms"):
                        nontrivial.add(json.dumps(p, sort_keys=True))
                    if len(samples) < 3 and meta[i]["nops"] >= 3 and 2 <= len(im.get("terms", [])) <= 4:
                        samples.append({"program": p, "impl": im, "model": mo})
            else:
                cls = fail_class(d)
                if cls.startswith("impl-raises"):
                    cls += "@" + str(im.get("where"))
                # a failure of the property on the real code: the implementation raises on an expression
                # the model accepts, or the random-interpretation oracle finds a wrong matrix; otherwise
                # only the correspondence is broken (behaviour changed, denotation possibly still right)
                found = cls.startswith("impl-raises") or rnd["status"] == "bad"
                add_fail("program:%s" % cls, len(json.dumps(p)),
                         {"difference": d, "program": p, "impl": im, "model": mo, "qn_size": meta[i]["qs"], "oracle_random": rnd.get("status")},
                         repro if found else None, found=found)
            if i in eval_flags:
                if eval_flags[i] == 1:
                    stats["eval_agree"] += 1
                else:
                    add_fail("model:eval-vs-dispatch", len(json.dumps(p)), {"program": p, "what": "eval DG e differs from the composition of v_* functions"}, None, found=False)
        for i, (a, b) in enumerate(pairs):
            im, mo = impl_pair[i], model_pair[i]
            if im["tag"] == "err" or mo == -1:
                if not (im["tag"] == "err" and mo == -1):
                    add_fail("eqhash:pair-not-built", 0, {"pair": [a, b], "impl": im, "model": mo}, None, found=False)
                continue
            bad = None
            if im["tag"] == "raise":
                bad = "== or hash raised %s" % im.get("exc")
            elif im["eq"] != (mo == 1):
                bad = "a == b is %s, model says %s" % (im["eq"], mo == 1)
            elif im["eq"] != im["eq_sym"] or im["ne"] == im["eq"] or not im["refl"] or im["tuple_eq"] != im["eq"]:
                bad = "== is not symmetric / reflexive / consistent with != and to_tuple"
            elif im["eq"] and (not im["hash_eq"] or im["set_len"] != 1 or not im["dict_hit"]):
                bad = "a == b but hash(a) != hash(b)"
            elif (not im["eq"]) and im["set_len"] != 2:
                bad = "a != b but a set merges them"
            if bad:
                snippet = ("import sys, json\nsys.path.insert(0, %r)\nimport c15_lib as L\nfrom renormalizer.model import Op\n"
                           "c = json.loads(%r)\ntb = L.Tables(c['syms'], c['dofs'])\n"
                           "a = L.run_program(c['a'], tb)[1]; b = L.run_program(c['b'], tb)[1]\nprint(a, b, a == b, hash(a) == hash(b))\n"
                           "ok = (a == b) == c['model_eq'] and ((a != b) or hash(a) == hash(b))\nsys.exit(0 if ok else 1)\n"
                           % (IMPL_DIR, json.dumps({"syms": SYMS, "dofs": DOFS_TIE, "a": a, "b": b, "model_eq": mo == 1})))
                add_fail("eqhash:" + bad.split(",")[0][:40].replace(" ", "-"), 0, {"what": bad, "pair": [a, b], "impl": im, "model_eq": mo}, snippet)
            else:
                stats["pairs_equal"] += 1 if im["eq"] else 0
                nontrivial.add("pair" + json.dumps([a, b], sort_keys=True))
        for i, s in enumerate(splits):
            im, mo = impl_split[i], model_split[i]
            if im["tag"] == "err" or mo[0] == 0:
                if not (im["tag"] == "err" and mo[0] == 0):
                    add_fail("split:op-not-built", 0, {"case": s, "impl": im}, None, found=False)
                continue
            rd = Rd(mo[1:])
            n = rd.get()
            mops = [dec_op(rd) for _ in range(n)]
            mre, mim = dec_dg(rd)
            bad = None
            if im["tag"] == "raise":
                bad = "split_elementary raised %s: %s" % (im["exc"], im["msg"])
            elif len(im["ops"]) != len(mops):
                bad = "number of elementary operators differs: impl %d model %d" % (len(im["ops"]), len(mops))
            else:
                for x, y in zip(im["ops"], mops):
                    c = cmp_terms(x, y)
                    if c not in ("same", "rounded"):
                        bad = c
                if im["re"] is None or (Fraction(*im["re"]), Fraction(*im["im"])) != (mre, mim):
                    bad = bad or "returned factor differs"
            rs = rnd_split[i] or {"status": "?"}
            rep = REPRO_ORA % (IMPL_DIR, json.dumps({"syms": SYMS, "dofs": DOFS_TIE, "split": s}))
            if rs["status"] == "bad":
                add_fail("oracle-split:%s" % rs["bad"][0]["what"][:48].replace(" ", "-"), len(json.dumps(s)), {"bad": rs["bad"][:3], "case": s}, rep)
            if bad:
                found = rs["status"] == "bad" or im["tag"] == "raise"
                add_fail("split:" + bad.split(":")[0][:40].replace(" ", "-"), len(json.dumps(s)), {"what": bad, "case": s, "impl": im, "model_ops": mops},
                         rep if found else None, found=found)
            else:
                nontrivial.add("split" + json.dumps(s, sort_keys=True))

        for i, c_ in enumerate(cts):
            im, mo = impl_ct[i], model_ct[i]
            verdict = im.get("verdict", {"ok": True})
            d = cmp_result(im, mo)
            rep = REPRO_CT % (IMPL_DIR, json.dumps(dict(c_, syms=SYMS, dofs=DOFS_TIE)))
            if not verdict["ok"]:
                add_fail("checkterms:model-construction-drops-or-rejects-terms", len(json.dumps(c_)),
                         {"what": verdict["why"], "case": c_, "impl": im, "model": mo}, rep)
            elif d not in ("same", "rounded"):
                add_fail("checkterms:%s" % fail_class(d), len(json.dumps(c_)), {"difference": d, "case": c_, "impl": im, "model": mo}, None, found=False)
            else:
                stats["ct_same"] += 1
                if im["tag"] != "err":
                    stats["ct_accepted"] += 1
                    stats["ct_terms_kept"] += len(im["terms"])
                    stats["ct_tiny_kept"] += sum(1 for t in im["terms"] if t["re"] and 0 < abs(Fraction(*t["re"])) + abs(Fraction(*t["im"])) < Fraction(1, 2 ** 52))
                    nontrivial.add("ct" + json.dumps(c_, sort_keys=True))

    # ---- 5. dense oracle (always)
    ora_progs = []
    for i in range(n_ora):
        alpha = ORA_SYMS
        if rng.random() < 0.6:
            ds = rng.sample(range(len(DOFS_ORA)), rng.choice([1, 2, 2, 3]))
            alpha = {d: rng.sample(ORA_SYMS[d], min(len(ORA_SYMS[d]), rng.choice([1, 2, 3]))) for d in ds}
        oscaled = rng.random() < 0.3
        g = Gen(rng, len(DOFS_ORA), alpha, qs=1, max_terms=16, max_word=6, malformed=False, plain=True, scale=oscaled)
        ora_progs.append(g.program(rng.choice([1, 2, 3, 3, 4, 4, 5])))
        if oscaled:
            ora_progs[-1]["hk"] = True            # Mpo route with Hopcroft-Karp (qr is not scale invariant: C01 finding)
            if rng.random() < 0.6:
                ora_progs[-1]["body"] = root_scale(rng, ora_progs[-1]["body"], g.body_typ)
        if i % 3 == 0:       # tolerance clause at the root
            at = g.sc("atol")
            if oscaled and at["k"] != "int":
                at["ex"] += rng.choice([0, 0] + KS)
            b = ora_progs[-1]["body"]
            ora_progs[-1]["body"] = {"t": "simplify", "a": {"t": "bin", "op": "+", "a": b, "b": {"t": "opsum", "items": []}, "aug": False},
                                     "atol": {k: v for k, v in at.items() if k != "t"}}
    scl_cases = []
    for i in range(n_scl):
        ds = rng.sample(range(len(DOFS_ORA)), rng.choice([2, 3, 4]))
        alpha = {d: rng.sample(ORA_SYMS[d], min(len(ORA_SYMS[d]), rng.choice([1, 2, 3]))) for d in ds}
        g = Gen(rng, len(DOFS_ORA), alpha, qs=1, max_terms=12, max_word=4, malformed=False, plain=True)
        g.env = []
        body = g.gen(rng.choice([1, 2, 2, 3]), "U")[0]
        scl_cases.append({"prog": {"lets": [], "body": body}, "ks": rng.sample(KS, 3), "mixed": [rng.choice(KS + [0]) for _ in range(5)]})
    hist_cases = gen_history(rng, n_hist)
    ochunks = 12
    ora_out = ctx.impl_par("c15_oracle.py", [{"syms": SYMS, "dofs": DOFS_ORA, "programs": ora_progs[c::ochunks], "scaled": scl_cases[c::ochunks],
                                              "history": hist_cases[c::ochunks]} for c in range(ochunks)])
    ora_stats = {"programs": len(ora_progs), "ok": 0, "rejected": 0, "nodes": 0, "mpo_compared": 0,
                 "scaled_model_cases": len(scl_cases), "scaled_model_ok": 0, "scaled_model_constructions": 0,
                 "bad": 0, "scaled_model_bad": 0, "history_cases": len(hist_cases), "history_ok": 0, "history_bad": 0, "history_mpo_compared": 0}
    ora_fail = None
    for c, (rc, res, out) in enumerate(ora_out):
        if res is None:
            ora_fail = out[-1500:]
            continue
        for p, r_ in zip(ora_progs[c::ochunks], res["results"]):
            ora_stats["nodes"] += r_.get("stats", {}).get("nodes", 0)
            ora_stats["mpo_compared"] += r_.get("stats", {}).get("mpo", 0)
            if r_["status"] == "ok":
                ora_stats["ok"] += 1
            elif r_["status"] == "rejected":
                ora_stats["rejected"] += 1
            else:
                ora_stats["bad"] += 1
                first = r_["bad"][0]
                key = "oracle:%s" % first["what"][:48].replace(" ", "-")
                case = {"syms": SYMS, "dofs": DOFS_ORA, "prog": p}
                add_fail(key, len(json.dumps(p)), {"bad": r_["bad"][:3], "program": p, "value": r_.get("value")},
                         REPRO_ORA % (IMPL_DIR, json.dumps(case)))
        for c_, r_ in zip(scl_cases[c::ochunks], res.get("scaled", [])):
            if r_["status"] == "ok":
                ora_stats["scaled_model_ok"] += 1
                ora_stats["scaled_model_constructions"] += r_.get("compared", 0)
            elif r_["status"] == "bad":
                ora_stats["scaled_model_bad"] += 1
                first = r_["bad"][0]
                add_fail("oracle-scaled:%s" % first["what"][:56].replace(" ", "-"), len(json.dumps(c_)),
                         {"bad": r_["bad"][:3], "case": c_, "value": r_.get("value")},
                         REPRO_ORA % (IMPL_DIR, json.dumps({"syms": SYMS, "dofs": DOFS_ORA, "scaled": c_})))

        for c_, r_ in zip(hist_cases[c::ochunks], res.get("history", [])):
            if r_["status"] == "ok":
                ora_stats["history_ok"] += 1
                ora_stats["history_mpo_compared"] += r_.get("compared", 0)
            elif r_["status"] == "bad":
                ora_stats["history_bad"] += 1
                first = r_["bad"][0]
                add_fail("history:%s" % first["what"][:64].replace(" ", "-"), len(json.dumps(c_)),
                         {"bad": r_["bad"][:3], "case": c_, "terms": r_.get("terms")},
                         REPRO_ORA % (IMPL_DIR, json.dumps({"syms": SYMS, "dofs": DOFS_ORA, "history": c_})))

    # a dense oracle that accepts (almost) nothing is a machinery fault, not a pass
    if ora_fail is None and ((ora_stats["ok"] + ora_stats["bad"]) * 2 < ora_stats["programs"]
                             or (ora_stats["scaled_model_ok"] + ora_stats["scaled_model_bad"]) * 2 < ora_stats["scaled_model_cases"]
                             or (ora_stats["history_ok"] + ora_stats["history_bad"]) * 2 < ora_stats["history_cases"]):
        ctx.violation("harness:oracle-degenerate", "dense oracle accepted fewer than half of its cases (machinery fault, not evidence about the code)",
                      {"oracle": ora_stats}, found=False)
    n_rnd_ok = sum(1 for r_ in rnd_prog if r_ and r_["status"] in ("ok", "bad"))
    if rnd_fail is None and n_rnd_ok * 2 < len(programs):
        ctx.violation("harness:oracle-degenerate", "random-interpretation oracle accepted fewer than half of the tie programs (machinery fault)",
                      {"ok": n_rnd_ok, "programs": len(programs)}, found=False)

    # ---- 6. report
    if tx_fail is not None:
        ctx.violation("translator:checkterms", "translator tx/checkterms.py: Model.check_operator_terms is no longer the exact zero filter the theorems C15_check_terms_* are about (" + tx_fail + ")",
                      {"translator_error": tx_fail}, found=False)
    if impl_fail is not None:
        ctx.violation("harness:impl-script", "correspondence could not run (implementation script failed)", {"out": impl_fail}, found=False)
    if coq_fail is not None:
        ctx.violation("model:cases", "the Coq model / theorems no longer build or evaluate: " + str(coq_fail[0]),
                      {"coq_log_tail": coq_fail[1]}, found=False)
    elif not ok_props:
        ctx.violation("coq:props", "theorem(s) of Props/C15.v: " + ", ".join(o["name"] for o in ctx.obligations if not o["ok"]),
                      {"coq_log_tail": log[-1500:] if isinstance(log, str) else ""}, found=False)
    if ora_fail is not None or rnd_fail is not None:
        ctx.violation("harness:oracle-script", "dense oracle could not run", {"out": ora_fail or rnd_fail}, found=False)
    for key, lst in sorted(fails.items()):
        lst.sort(key=lambda x: x[0])
        size, detail, repro, found = lst[0]
        detail = dict(detail)
        detail["cases_in_this_class"] = len(lst)
        if key.startswith("oracle") and not key.startswith("oracle-scaled:"):
            broken = "dense oracle: matrix of the expression differs from the matrix expression of the operands (C15_eval_sound / C15_simplify_atol no longer describe the code)"
        elif key.startswith("eqhash:"):
            broken = "correspondence ==/hash (C15_eq_hash, C15_eq_iff_fields)"
        elif key.startswith("split:"):
            broken = "correspondence split_elementary (C15_split_elementary_normal_form)"
        elif key.startswith("aliasing:"):
            broken = "object-identity discipline of the algebra (values of the model are immutable: C15_add_empty, C15_iadd_is_add): " + key
        elif key.startswith("history:"):
            broken = "the same Op objects evaluated in several models (C15_split_elementary_ext: the split is a function of (op, dof_to_siteidx)): " + key
        elif key.startswith("model:"):
            broken = "model self-consistency (eval vs dispatch functions)"
        elif key.startswith("checkterms:") or key.startswith("oracle-scaled:"):
            broken = "Model.check_operator_terms vs Gen/CheckTerms.v (C15_check_terms_keeps_iff_nonzero, C15_check_terms_scale_equivariant, C15_check_terms_den): " + key
        else:
            broken = "correspondence expression programs (model Model/OpAlg.v vs op.py): " + key
        ctx.violation(key, broken, detail, found=bool(found and repro), repro=repro)

    rcp, probe, outp = ctx.impl("c15_probe.py", {})
    ctx.notes.append("excluded-class probe (informational, never an alarm): %s" % (json.dumps(probe) if probe else outp[-300:]))
    ctx.notes.append("tie: %s" % json.dumps(stats))
    ctx.notes.append("oracle: %s" % json.dumps(ora_stats))
    return {"evaluations": len(programs) + len(pairs) + len(splits) + len(cts) + ora_stats["programs"] + ora_stats["scaled_model_cases"] + ora_stats["history_cases"],
            "distinct_nontrivial": len(nontrivial) + ora_stats["ok"] + ora_stats["scaled_model_ok"] + ora_stats["history_ok"],
            "rule": "tie: distinct accepted expression programs with >= 2 operator nodes and >= 1 result term whose implementation result equals the model's field by field (exact factors), plus distinct ==/hash pairs and split_elementary cases that agree; check-terms: Model(basis, terms).ham_terms equal to the translated filter's result at global and mixed scales 2^-100..2^100; oracle: programs accepted by the implementation whose dense matrix equals the matrix expression at every node (1e-9 relative to the magnitude of the terms), and Model(c*H) = c*Model(H) cases",
            "samples": samples[:3], "exhaustive": False,
            "input_distribution": {"tie": stats, "oracle": ora_stats, "root_node": root_hist, "depth": depth_hist,
                                   "rejected_exception_classes": exc_hist, "productions": hist,
                                   "qn_size_2_programs": sum(1 for m in meta if m["qs"] == 2),
                                   "malformed_stream_programs": sum(1 for m in meta if m["malformed"])}}


# ------------------------------------------------------------------------------- scales
def scale_sc(rng, k, div=False):
    """the scalar 2**k (or a unit Gaussian multiple of it) as a python / NumPy float or complex"""
    cplx = rng.random() < 0.25
    re, im = (rng.choice([(0, 1), (0, -1), (1, 1), (-1, 1), (1, -1)]) if cplx else (rng.choice([1, 1, -1]), 0))
    if not div and not cplx and rng.random() < 0.3:
        re = rng.choice([3, -3, 5])
    return {"t": "sc", "k": rng.choice(["complex", "c128"] if cplx else ["float", "f64"]), "re": re, "im": im, "ex": k}


def root_scale(rng, body, typ):
    k = rng.choice(KS)
    form = rng.choice(["r", "l", "div"] if typ == "U" else ["r", "l"])
    if form == "r":
        return {"t": "bin", "op": "*", "a": body, "b": scale_sc(rng, k), "aug": False}
    if form == "l":
        return {"t": "bin", "op": "*", "a": scale_sc(rng, k), "b": body, "aug": False}
    return {"t": "bin", "op": "/", "a": body, "b": scale_sc(rng, k, div=True), "aug": False}


def gen_history(rng, n):
    """terms of a two-level-system + vibration + spin Hamiltonian, to be built once and evaluated in two or three
    models that group the electronic dofs into sites differently (and order the sites differently), in every order"""
    out = []
    for _ in range(n):
        conserving = rng.random() < 0.4
        terms = []
        for _t in range(rng.choice([2, 3, 3, 4, 5])):
            i, j = rng.randrange(2), rng.randrange(2)
            if conserving:
                el = rng.choice([None, ["ca", i, j], ["ca", i, j]])
            else:
                el = rng.choice([None, ["c", i], ["a", j], ["ca", i, j], ["ca", i, j], ["ca", i, i]])
            sho = rng.choice([[], [], ["x"], ["b"], [r"b^\dagger"], [r"b^\dagger + b"], ["n"], [r"b^\dagger", "b"]])
            spin = rng.choice([[], [], ["X"], ["Z"], ["sigma_+"], ["sigma_-", "X"], ["Z", "X"]])
            if not el and not sho and not spin:
                spin = ["Z"]
            cplx = rng.random() < 0.25
            f = {"k": rng.choice(["complex", "c128"] if cplx else ["float", "f64", "int", "i64"]),
                 "re": rng.choice([1, -1, 2, 3, -3, 5, 0]), "im": rng.choice([1, -1, 2]) if cplx else 0, "ex": rng.choice([-2, -1, 0, 0, 1])}
            if f["k"] in INT_KINDS:
                f["ex"] = max(0, f["ex"])
            terms.append({"elec": el, "sho": sho, "spin": spin, "f": f, "perm": rng.randrange(10 ** 9)})
        split_sites, joint_sites = ["A", "C"], ["B", "D"] + (["E"] if conserving else [])
        models = [rng.choice(split_sites), rng.choice(joint_sites)]
        if rng.random() < 0.4:
            models.append(rng.choice(split_sites + joint_sites))
        rng.shuffle(models)
        repeat = [rng.randrange(len(terms)) for _r in range(rng.choice([0, 0, 1, 2, 3]))]
        out.append({"terms": terms, "repeat": repeat, "models": models})
    return out


def gen_cts(rng, n):
    """Model.check_operator_terms cases: lists of Op / OpSum items (sometimes a plain list or an unknown dof) whose
    factors span 2^-100 .. 2^100 within one list, with exact zeros, complex factors and a global scale"""
    out = []
    for _ in range(n):
        qs = rng.choice([1, 1, 2])
        known = sorted(rng.sample(range(len(DOFS_TIE)), rng.choice([2, 3, 4, 6])))
        usable = list(known)
        if rng.random() < 0.08 and len(known) < len(DOFS_TIE):
            usable.append(rng.choice([d for d in range(len(DOFS_TIE)) if d not in known]))     # unknown dof -> ValueError
        alpha = {d: rng.sample(range(1, len(SYMS)), rng.choice([1, 2, 3])) for d in usable}
        g = Gen(rng, len(DOFS_TIE), alpha, qs=qs, scale=rng.random() < 0.8, max_word=6, max_terms=10)
        g.env = []
        items = []
        for _i in range(rng.choice([1, 2, 2, 3, 4])):
            t = rng.choice(["O", "U", "U"])
            if rng.random() < 0.04:
                t = "L"                                                                            # plain list -> ValueError
            items.append({"lets": [], "body": g.gen(rng.choice([0, 0, 1, 2]), t)[0]})
        if rng.random() < 0.5:                 # the same global scale on every item: Model(c * H)
            k = rng.choice(KS)
            for it in items:
                it["body"] = {"t": "bin", "op": "*", "a": it["body"], "b": scale_sc(rng, k), "aug": False} if rng.random() < 0.5 \
                    else {"t": "bin", "op": "*", "a": scale_sc(rng, k), "b": it["body"], "aug": False}
        case = {"items": items, "known": known}
        if rng.random() < 0.35:                # same-object repetition: [op] * 3, part + extra + part
            case["repeat"] = [rng.randrange(len(items)) for _ in range(rng.choice([2, 3, 4]))]
        elif rng.random() < 0.25:
            it = rng.choice(items)
            if it["body"]["t"] != "list":
                it["lets"] = [it["body"]]
                extra = g.gen(0, "U")[0]
                it["body"] = {"t": "bin", "op": "+", "a": {"t": "bin", "op": "+", "a": {"t": "var", "i": 0}, "b": extra, "aug": False},
                              "b": {"t": "var", "i": 0}, "aug": False}
        out.append(case)
    return out


# ------------------------------------------------------------------------------- ==/hash pairs and splits
def gen_pairs(rng, n):
    out = []
    for _ in range(n):
        qs = rng.choice([1, 1, 2])
        g = Gen(rng, len(DOFS_TIE), None, qs=qs)
        a = g.leaf_op()[0]
        while a["t"] != "op":
            a = g.leaf_op()[0]
        if rng.random() < 0.4:                 # factors of every magnitude
            a["f"] = dict(a["f"], ex=a["f"]["ex"] + rng.choice(KS))
            if a["f"]["k"] in INT_KINDS:
                a["f"]["k"] = "float"
        b = json.loads(json.dumps(a))
        kind = rng.choice(["same", "ftype", "ftype", "zero", "via1", "negneg", "field", "field", "qnstyle", "product", "scal_order", "other"])
        pa, pb = {"lets": [], "body": a}, {"lets": [], "body": b}
        f = a["f"]
        if kind == "ftype":
            if f["im"] == 0:
                ks = ["float", "f64", "complex", "c128"] + (["int", "i64"] if 0 <= f["ex"] <= 40 else [])
            else:
                ks = ["complex", "c128"]
            b["f"] = dict(f, k=rng.choice(ks))
        elif kind == "zero":
            a["f"] = {"t": "sc", "k": rng.choice(["float", "int", "complex"]), "re": 0, "im": 0, "ex": 0}
            b["f"] = dict(a["f"])
            pb["body"] = {"t": "neg", "a": b} if rng.random() < 0.5 else {"t": "bin", "op": "*", "a": b, "b": {"t": "sc", "k": "float", "re": -1, "im": 0, "ex": rng.choice([0, 1])}, "aug": False}
        elif kind == "via1":
            pb["body"] = {"t": "bin", "op": "*", "a": b, "b": {"t": "sc", "k": rng.choice(["int", "float", "f64", "complex", "bool"]), "re": 1, "im": 0, "ex": 0}, "aug": False}
        elif kind == "negneg":
            pb["body"] = {"t": "neg", "a": {"t": "neg", "a": b}}
        elif kind == "field":
            w = rng.choice(["sym", "dof", "qn", "f", "f_im", "near", "near"])
            i = rng.randrange(len(b["syms"]))
            if w == "sym":
                b["syms"][i] = (b["syms"][i] % (len(SYMS) - 1)) + 1
            elif w == "dof":
                b["dofs"][i] = (b["dofs"][i] + 1) % len(DOFS_TIE)
                b.pop("share", None)
            elif w == "qn":
                b["qn"][i][rng.randrange(qs)] += 1
                if b["qnstyle"] == "none":
                    b["qnstyle"] = "nested"
            elif w == "near":      # factors differing by 2**-40 relative: not equal
                b["f"] = dict(f, k="complex" if f["im"] else "float", re=f["re"] * 2 ** 40 + 1, im=f["im"] * 2 ** 40, ex=f["ex"] - 40)
            elif w == "f":
                b["f"] = dict(f, re=f["re"] + 1)
            else:
                b["f"] = dict(f, k="complex", im=f["im"] + 1)
            if b["syms"][i] == 0:
                b["qn"][i] = [0] * qs
        elif kind == "qnstyle":
            b["qnstyle"] = "array" if a["qnstyle"] != "array" else "nested"
            if a["qnstyle"] == "none":
                b["qnstyle"] = "nested"
        elif kind == "product":
            c = g.leaf_op()[0]
            pa["body"] = {"t": "bin", "op": "*", "a": a, "b": c, "aug": False}
            pb["body"] = {"t": rng.choice(["oprod", "sprod"]), "items": [b, json.loads(json.dumps(c))]}
        elif kind == "scal_order":
            s = g.sc("mul")
            pa["body"] = {"t": "bin", "op": "*", "a": a, "b": s, "aug": False}
            pb["body"] = {"t": "bin", "op": "*", "a": dict(s), "b": b, "aug": False}
        elif kind == "other":
            pb["body"] = g.gen(2, "O")[0]
        out.append([pa, pb])
    return out


def gen_splits(rng, n):
    out = []
    for _ in range(n):
        qs = rng.choice([1, 1, 2])
        g = Gen(rng, len(DOFS_TIE), None, qs=qs, max_word=9)
        p = {"lets": [], "body": g.gen(rng.choice([0, 1, 2, 3]), "O")[0]}
        nsite = rng.choice([2, 3, 4, 6])
        site = [rng.randrange(nsite) for _ in DOFS_TIE]
        if rng.random() < 0.4:
            site = rng.sample(range(len(DOFS_TIE)), len(DOFS_TIE))
        out.append({"prog": p, "site": site})
    return out
