"""C18: numerical kernels (symmetry-blocked SVD/QR/eigh, Krylov exponential) meet their contracts."""
import json
import os
import sys

import common
sys.path.insert(0, os.path.join(common.VERIF, "tx"))
import krylovsites as txks
import svdqn as txsq
import krylovnorm as txkn

KRYLOV_RTOL = 1e-5            # the routine's convergence test: allclose(res, new_res) with rtol=1e-5 (atol=1e-8)
KRYLOV_TOL = 10 * KRYLOV_RTOL

CMF_REPRO = r'''
# Mps._evolve_tdvp_mu_cmf (real time, ivp_solver="krylov") hands expm_krylov the operator  y -> H_eff y / 1j , which is
# anti-Hermitian, while expm_krylov assumes a Hermitian operator (alpha[j] = vdot(w, V[j]).real is then identically 0).
# The result of that call is compared with scipy.linalg.expm on the very same linear map.  exit 1 = wrong result.
import sys, renormalizer, numpy as np, scipy.linalg
from renormalizer.model import Model, Op
from renormalizer.model import basis as ba
from renormalizer.mps import Mps, Mpo
import renormalizer.mps.mps as mpsmod
from renormalizer.utils import EvolveMethod, EvolveConfig, CompressConfig, CompressCriteria
from renormalizer.lib import expm_krylov as real_ek
np.random.seed(0)
basis = [ba.BasisHalfSpin("s0"), ba.BasisSHO("v0", 1.0, 4), ba.BasisHalfSpin("s1"), ba.BasisSHO("v1", 0.7, 4)]
terms = [Op("sigma_z", "s0", 0.5), Op("sigma_z", "s1", -0.3), Op("sigma_x sigma_x", ["s0", "s1"], 0.4),
         Op(r"b^\dagger b", "v0", 1.0), Op(r"b^\dagger b", "v1", 0.7), Op("sigma_z x", ["s0", "v0"], 0.5),
         Op("sigma_x x", ["s1", "v1"], 0.3), Op("x x", ["v0", "v1"], 0.2)]
model = Model(basis, terms); mpo = Mpo(model); H = mpo.todense()
worst = [0.0, 0.0]
def wrapped(Afunc, dt, v, *a, **k):
    res, j = real_ek(Afunc, dt, v, *a, **k)
    n = len(v)
    A = np.array([np.asarray(Afunc(np.eye(n, dtype=complex)[i])) for i in range(n)]).T
    ref = scipy.linalg.expm(dt * A) @ np.asarray(v)
    err = np.linalg.norm(np.asarray(res) - ref) / np.linalg.norm(ref)
    nonherm = np.linalg.norm(A - A.conj().T) / max(np.linalg.norm(A), 1e-300)
    print("expm_krylov call: n=%d dt=%r ||A-A^H||/||A||=%.3g  rel. error vs expm(dt*A)v = %.3g" % (n, dt, nonherm, err))
    worst[0] = max(worst[0], err); worst[1] = max(worst[1], nonherm)
    return res, j
mpsmod.expm_krylov = wrapped
init = Mps.random(model, 0, 8, 1.0).canonicalise().canonicalise().normalize("mps_and_coeff")
psi0 = init.todense(); dt = 0.5
ref = scipy.linalg.expm(-1j * dt * H) @ psi0
errs = {}
for solver in ("krylov", "RK45"):
    m = init.copy()
    m.evolve_config = EvolveConfig(EvolveMethod.tdvp_mu_cmf, ivp_solver=solver, ivp_rtol=1e-10, ivp_atol=1e-12)
    m.compress_config = CompressConfig(CompressCriteria.fixed, max_bonddim=64)
    errs[solver] = np.linalg.norm(m.evolve(mpo, dt).todense() - ref)
print("one CMF step dt=0.5, error vs dense propagator:", errs)
sys.exit(1 if worst[0] > 1e-4 else 0)
'''

DTYPE_REPRO = r'''
# expm_krylov must work for a complex Hermitian A and a real-dtype start vector.  Its Lanczos basis V was allocated with
# vstart.dtype (imaginary parts of every Lanczos vector dropped, only a ComplexWarning); the basis has to stay complex
# also AFTER the buffer grows (block_size smaller than the Krylov dimension).  exit 1 = wrong result.
import sys, warnings, renormalizer, numpy as np, scipy.linalg
from renormalizer.lib import expm_krylov
warnings.simplefilter("ignore")
rng = np.random.default_rng(3); n = 12
M = rng.normal(size=(n, n)) + 1j * rng.normal(size=(n, n)); H = (M + M.conj().T) / 2     # complex Hermitian
v = rng.normal(size=n)                                                                  # float64 vector
worst = 0.0
for dt in (-0.3, -0.3j):
    ref = scipy.linalg.expm(dt * H) @ v
    for block_size in (50, 4, 2):
        res, j = expm_krylov(lambda x: H @ x, dt, v.copy(), block_size)
        err = np.linalg.norm(res - ref) / np.linalg.norm(ref)
        print("dt=%r block_size=%d iterations=%d relative error=%.3g" % (dt, block_size, j, err)); worst = max(worst, err)
sys.exit(1 if worst > 1e-4 else 0)
'''

INPUT_REPRO = r'''
# expm_krylov must not modify the start vector it is given (xp.asarray does not copy an ndarray): a caller that re-uses the
# array gets exp(dt*A)v/|v| from the second call on.  exit 1 = input modified or second call wrong.
import sys, renormalizer, numpy as np, scipy.linalg
from renormalizer.lib import expm_krylov
rng = np.random.default_rng(0); n = 6; bad = 0
for cplx in (False, True):
    M = rng.normal(size=(n, n)) + (1j * rng.normal(size=(n, n)) if cplx else 0); H = (M + M.conj().T) / 2
    v = 3.0 * (rng.normal(size=n) + (1j * rng.normal(size=n) if cplx else 0)); keep = v.copy()
    ref = scipy.linalg.expm(-0.4 * H) @ keep
    for call in (1, 2):
        res, j = expm_krylov(lambda x: H @ x, -0.4, v)
        err = np.linalg.norm(res - ref) / np.linalg.norm(ref)
        same = v.tobytes() == keep.tobytes()
        print("complex=%s call %d: relative error %.3g, start vector unchanged: %s" % (cplx, call, err, same))
        bad += (err > 1e-4) or not same
sys.exit(1 if bad else 0)
'''

NORMS = [1e-30, 1e-12, 1e-6, 1 - 1e-5, 1 - 3e-7, 1.0, 1 + 3e-7, 1 + 8e-6, 1 + 1e-4, 1e6, 1e30]
NORM_TOL = 1e-10              # purely relative; used where the Krylov space is exhausted (breakdown / full-space exit), no absolute floor

KFAULT_REPRO = r'''
# fault path of _expm_krylov: when eigh_tridiagonal raises LinAlgError (LAPACK non-convergence) the kernel falls back to a dense
# np.linalg.eigh of the tridiagonal matrix; the result must satisfy the same contract.  The failure is injected.  exit 1 = wrong result.
import sys, renormalizer, numpy as np, scipy.linalg
from renormalizer.lib.krylov import krylov as K
def failing(*a, **k): raise np.linalg.LinAlgError("injected")
K.eigh_tridiagonal = failing
rng = np.random.default_rng(2); bad = 0
for n in (2, 5, 12, 30):
    M = rng.normal(size=(n, n)) + 1j * rng.normal(size=(n, n)); H = (M + M.conj().T) / 2
    v = rng.normal(size=n) + 1j * rng.normal(size=n)
    for dt in (-0.6j, -0.6):
        res, j = K.expm_krylov(lambda x: H @ x, dt, v.copy())
        E = scipy.linalg.expm(dt * H)
        err = np.linalg.norm(res - E @ v) / (np.linalg.norm(v) * np.linalg.norm(E, 2))
        print("n=%d dt=%r iterations=%d relative error on the fallback path %.3g" % (n, dt, j, err)); bad += err > 1e-6
sys.exit(1 if bad else 0)
'''

SFAULT_REPRO = r'''
# fault path of optimized_svd (used by svd_qn): when the gesdd driver raises LinAlgError the SVD is retried with gesvd; the factors
# must satisfy the same contract (U diag(S) V^T = block).  The failure is injected.  exit 1 = reconstruction wrong.
import sys, renormalizer, numpy as np, scipy.linalg
from renormalizer.mps import svd_qn as M
real_svd = scipy.linalg.svd
def svd(a, *args, **kw):
    if kw.get("lapack_driver") == "gesdd": raise scipy.linalg.LinAlgError("injected")
    return real_svd(a, *args, **kw)
scipy.linalg.svd = svd
rng = np.random.default_rng(4); bad = 0
for (m, n), scale in (((4, 3), 1.0), ((4, 3), 250.0), ((3, 5), 1e-6), ((9, 2), 7.0)):
    a = rng.normal(size=(m, n)) * scale
    qnl = np.zeros((m, 1), int); qnr = np.zeros((n, 1), int)
    for full in (True, False):
        u, su, ql, v, sv, qr = M.svd_qn(a, qnl, qnr, np.array([0]), full_matrices=full)
        k = min(m, n)
        err = np.abs((u[:, :k] * su[:k]) @ v[:, :k].T - a).max() / np.abs(a).max()
        print("shape %s scale %g full=%s  |U S V^T - A| / max|A| = %.3g" % ((m, n), scale, full, err)); bad += err > 1e-10
sys.exit(1 if bad else 0)
'''

NORM_REPRO = r'''
# expm_krylov must be homogeneous of degree 1 in the start vector and accurate in purely RELATIVE terms at every norm:
# it normalises vstart (unconditionally), runs Lanczos from the unit vector and multiplies the result by the norm.
# 5 x 5 complex Hermitian A (full-space exit: the Krylov approximation is exact), start vectors c * vhat with
# |c| in {1e-30 ... 1-1e-5, 1-3e-7, 1, 1+3e-7, 1+8e-6 ... 1e30}.  exit 1 = relative error or homogeneity defect > 1e-10.
import sys, renormalizer, numpy as np, scipy.linalg
from renormalizer.lib import expm_krylov
rng = np.random.default_rng(7); n = 5
M = rng.normal(size=(n, n)) + 1j * rng.normal(size=(n, n)); H = (M + M.conj().T) / 2
vhat = rng.normal(size=n) + 1j * rng.normal(size=n); vhat /= np.linalg.norm(vhat); vhat /= np.linalg.norm(vhat)
bad = 0
for dt in (-0.7j, -0.7):
    E = scipy.linalg.expm(dt * H); amp = np.linalg.norm(E, 2)
    unit, _ = expm_krylov(lambda x: H @ x, dt, vhat.copy())
    for c in (1e-30, 1e-12, 1e-6, 1 - 1e-5, 1 - 3e-7, 1.0, 1 + 3e-7, 1 + 8e-6, 1 + 1e-4, 1e6, 1e30):
        cc = c * np.exp(0.3j)
        res, j = expm_krylov(lambda x: H @ x, dt, cc * vhat)
        err = np.linalg.norm(res - E @ (cc * vhat)) / (abs(cc) * amp)
        hom = np.linalg.norm(res - cc * unit) / (abs(cc) * np.linalg.norm(unit))
        flag = err > 1e-10 or hom > 1e-10
        print("dt=%r |c|=%-22r relative error %.3g   |kernel(c v) - c kernel(v)| / |c kernel(v)| = %.3g %s" % (dt, c, err, hom, "<-- FAIL" if flag else ""))
        bad += flag
sys.exit(1 if bad else 0)
'''

ALIAS_REPRO = r'''
# expm_krylov(Afunc, dt, v): `w = Afunc(V[j])` followed by the in-place `w -= alpha[j]*V[j] + ...`.  If Afunc returns its argument
# (or a view of it) -- the identity, e.g. an effective Hamiltonian that is a multiple of 1 implemented without a copy -- the
# in-place update overwrites the Krylov basis row V[j] and the routine silently returns the ZERO vector instead of exp(dt) v.
# exit 1 = wrong result for an aliasing identity operator (the copying identity is the control).
import sys, renormalizer, numpy as np
from renormalizer.lib import expm_krylov
v = np.array([1.0, 2.0, 3.0, -1.0]); bad = 0
for name, f in (("lambda x: x.copy()", lambda x: x.copy()), ("lambda x: x", lambda x: x), ("lambda x: x[:]", lambda x: x[:]), ("lambda x: x.reshape(-1)", lambda x: x.reshape(-1))):
    for dt in (0.5, -0.5j):
        res, j = expm_krylov(f, dt, v.astype(complex))
        err = np.linalg.norm(res - np.exp(dt) * v) / np.linalg.norm(v)
        print("%-26s dt=%r  relative error %.3g" % (name, dt, err)); bad += err > 1e-4
sys.exit(1 if bad else 0)
'''

ABSTOL_REPRO = r'''
# The convergence test of expm_krylov is allclose(res, new_res) with NumPy's default ABSOLUTE tolerance 1e-8 applied to the
# norm-scaled result: for a start vector of norm 1e-9 every pair of iterates is "close", the loop returns at the first
# comparison (j = 6) whatever the operator, and the result is wrong by O(1) RELATIVE to |v|.  Fixed probe: n = 40,
# ||A dt|| = 20, dt imaginary, |v| = 1e-9 (the same vector with |v| = 1 is accurate to 1e-9).  exit 1 = relative error > 1e-4.
import sys, renormalizer, numpy as np, scipy.linalg
from renormalizer.lib import expm_krylov
rng = np.random.default_rng(5); n = 40
M = rng.normal(size=(n, n)) + 1j * rng.normal(size=(n, n)); H = (M + M.conj().T) / 2; H /= np.linalg.norm(H, 2)
v0 = rng.normal(size=n) + 1j * rng.normal(size=n); v0 /= np.linalg.norm(v0)
dt = -20j; worst = 0.0
for nrm in (1.0, 1e-9):
    v = v0 * nrm
    res, j = expm_krylov(lambda x: H @ x, dt, v.copy())
    err = np.linalg.norm(res - scipy.linalg.expm(dt * H) @ v) / nrm
    print("|v| = %g: iterations %d, error relative to |v| = %.3g" % (nrm, j, err)); worst = max(worst, err)
sys.exit(1 if worst > 1e-4 else 0)
'''

EIGH_REPRO = r'''
# eigh_qn must restore exactly the symmetry-allowed part of the density matrix.  Reference: brute-force element-wise
# projection (entry (i,j) survives iff both indices carry the same label q and the complementary side offers qntot - q).
# The density matrix is a generic positive Hermitian matrix: it has weight in every sector, one-sided ones included.
import sys, renormalizer, numpy as np
from renormalizer.mps.svd_qn import eigh_qn
qnl, qnr, qntot, system, cplx = %r, %r, %r, %r, %r
qnl = np.array(qnl, dtype=int); qnr = np.array(qnr, dtype=int); qntot = np.array(qntot, dtype=int)
qn, comp = (qnl, qnr) if system == "L" else (qnr, qnl)
N = len(qn); rng = np.random.default_rng(0)
g = rng.standard_normal((N, N)) + (1j * rng.standard_normal((N, N)) if cplx else 0)
dm = g @ g.conj().T + np.eye(N)
ref = np.zeros_like(dm)
for i in range(N):
    partner = any((c == qntot - qn[i]).all() for c in comp)
    for j in range(N):
        if partner and (qn[i] == qn[j]).all():
            ref[i, j] = dm[i, j]
u, s, new_qn = eigh_qn(dm.copy(), qnl, qnr, qntot, system)
err = np.abs((u * s ** 2) @ u.conj().T - ref).max()
orphans = [list(map(int, np.ravel(q))) for q in new_qn if not any((c == qntot - np.ravel(q)).all() for c in comp)]
print("max |U s^2 U^H - projection(dm)| =", err, " columns whose label has no partner:", orphans)
sys.exit(1 if err > 1e-8 * np.abs(dm).max() or orphans else 0)
'''

GENERIC_REPRO = r'''
# re-runs the stored case(s) through the C18 implementation runner (wrapping the real svd_qn / eigh_qn / expm_krylov)
import json, subprocess, sys
payload = json.loads(%r)
p = subprocess.run([sys.executable, %r], input=json.dumps(payload), capture_output=True, text=True)
line = [l for l in p.stdout.splitlines() if l.startswith("RESULT ")]
if not line:
    print(p.stdout[-2000:], p.stderr[-2000:]); sys.exit(2)
res = json.loads(line[-1][7:])["results"]
bad = [r for r in res if %s]
print(json.dumps(bad)[:3000]); sys.exit(1 if bad else 0)
'''


# ------------------------------------------------------------------------------------------------ generators
def gen_svd_case(rng, cid, malformed=False):
    qs = rng.choice([1, 1, 1, 2, 2, 3])
    kind = rng.choice(["generic", "generic", "generic", "one_sided", "all_same", "unbalanced", "sparse"])
    if kind == "unbalanced":
        m, n = rng.choice([(9, 2), (2, 9), (12, 3), (3, 10), (7, 1), (1, 6), (8, 2), (6, 2), (2, 6)])
    else:
        m, n = rng.randint(1, 8), rng.randint(1, 8)
    rngs = {"generic": 2, "one_sided": 3, "all_same": 1, "unbalanced": rng.choice([1, 2]), "sparse": 5}[kind]
    lo = rng.choice([0, 0, -1])
    def lab():
        return [rng.randrange(lo, lo + rngs) for _ in range(qs)]
    qnl = [lab() for _ in range(m)]
    qnr = [lab() for _ in range(n)]
    if kind == "one_sided":
        # shift one side so that many left sectors have no partner on the right and vice versa
        qnr = [[x + rng.choice([0, 0, 2]) for x in l] for l in qnr]
    i, j = rng.randrange(m), rng.randrange(n)
    qntot = [a + b for a, b in zip(qnl[i], qnr[j])]
    if malformed:
        qntot = [x + 50 for x in qntot]              # no sector can reach it: "Invalid quantum number"
    def factor(k):
        fs = [[k]] + [[a, k // a] for a in range(2, k) if k % a == 0]
        return rng.choice(fs)
    QR = rng.random() < 0.4
    system = rng.choice(["L", "R"]) if QR else rng.choice([None, "L", "R"])
    return {"id": cid, "kind": "svd", "pattern": kind, "qnl": qnl, "qnr": qnr, "qntot": qntot,
            "shape_l": factor(m), "shape_r": factor(n), "QR": QR, "system": system,
            "full": rng.random() < 0.5, "opt": rng.random() < 0.6, "complex": rng.random() < 0.4,
            "data": rng.choice(["rand", "rand", "masked", "lowrank", "ties", "zero"]), "malformed": malformed,
            # NORM stream: about a third of the cases at another overall scale (complex phase for complex data)
            "scale": rng.choice(NORMS) if rng.random() < 0.35 else 1.0, "theta": rng.uniform(0, 6.28),
            # FAULT-PATH stream: the gesdd driver "fails" (injected LinAlgError) and optimized_svd retries with gesvd
            "fault": (not QR) and rng.random() < 0.25}


def gen_eigh_case(rng, cid, malformed=False):
    c = gen_svd_case(rng, cid, malformed)
    c["kind"] = "eigh"
    c["system"] = rng.choice(["L", "R"])
    c["junk"] = rng.random() < 0.5
    c["dm"] = rng.choice(["state", "state", "generic", "generic", "indefinite"])
    return c


# always run first: hand-made label patterns with a one-sided sector and a generic positive density matrix (weight there)
EIGH_CORPUS = [
    {"qnl": [[0], [1], [1], [2], [0], [2]], "qnr": [[0], [1], [1], [0]], "qntot": [1], "system": "L"},     # sector 2 needs partner -1
    {"qnl": [[0], [1]], "qnr": [[1], [3], [1], [0]], "qntot": [1], "system": "R"},                           # sector 3 needs partner -2
    {"qnl": [[0, 1], [1, 0], [1, 1]], "qnr": [[1, 0], [0, 1], [2, 2]], "qntot": [1, 1], "system": "L"},     # (1,1) needs (0,0)
    {"qnl": [[0, 1], [1, 0], [1, 1]], "qnr": [[1, 0], [0, 1], [2, 2]], "qntot": [1, 1], "system": "R"},     # (2,2) needs (-1,-1)
]


def corpus_eigh_case(k, cid, cplx):
    c = dict(EIGH_CORPUS[k])
    c.update({"id": cid, "kind": "eigh", "pattern": "one_sided", "shape_l": [len(c["qnl"])], "shape_r": [len(c["qnr"])], "QR": False,
              "full": False, "opt": False, "complex": cplx, "data": "rand", "malformed": False, "junk": False, "dm": "generic"})
    return c


def gen_krylov_case(rng, cid, dtype_class=False):
    n = rng.choice([1, 2, 3, 4, 5, 6, 7, 8, 9, 10]) if rng.random() < 0.35 else rng.randint(11, 60)
    c = {"id": cid, "n": n, "bs": rng.choice([2, 2, 3, 4, 5, 7, 10, 16, 25, 50, rng.randint(2, 50)]),
         "spec": rng.choice(["rand", "rand", "rand", "wide", "wide", "clustered", "degenerate", "rankdef", "twolevel", "zero"]),
         "mat": rng.choice(["complex", "complex", "real", "diag", "blockdiag"]),
         "vec": rng.choice(["rand", "rand", "eigvec", "e0", "small"]),
         "phase": rng.choice([[1, 0], [-1, 0], [0, 1], [0, -1]]),
         "target": rng.choice([0.01, 0.5, 3, 10, 20]),
         "vdtype": "complex", "dtform": rng.choice(["float", "complex0"]), "scale": rng.choice([1.0, 1.0, 1e-3, 1e3, 1e6]),
         "cls": "main"}
    c["fault"] = rng.random() < 0.2              # FAULT-PATH stream: eigh_tridiagonal "fails" -> dense fallback in _expm_krylov
    if dtype_class == "small-norm":
        # informational class: the convergence test uses allclose's ABSOLUTE tolerance 1e-8, so the accuracy relative to
        # ||v|| degrades for small-norm vectors; measured and reported in the notes, not a verdict (see notes/C18.md)
        c.update({"n": rng.randint(30, 45), "bs": 50, "spec": "rand", "mat": "complex", "vec": "rand", "phase": [0, -1], "target": 20,
                  "scale": rng.choice([1e-6, 1e-9]), "cls": "small-norm", "fault": False})
    elif dtype_class:
        c["mat"] = "complex"; c["vdtype"] = "real"; c["vec"] = "rand"; c["cls"] = "real-vstart-complex-op"
        c["n"] = rng.randint(3, 30); c["spec"] = "rand"; c["target"] = rng.choice([0.5, 3]); c["scale"] = 1.0; c["fault"] = False
    elif c["mat"] in ("real", "diag") and rng.random() < 0.4:
        c["vdtype"] = "real"                       # real data throughout: admissible, result real or complex by dt
    return c


def gen_norm_cases(rng, start_id, per_norm):
    """NORM stream: start vectors c * vhat, |c| from NORMS, complex phase; mostly tiny n (every exit exhausts the Krylov space, so the
    result must be right to NORM_TOL in purely relative terms), a few larger n (convergence exit: homogeneity only)."""
    out = []
    for nv in NORMS:
        for k in range(per_norm):
            n = [2, 3, 5, 7, 6, 25, 4, 40, 12][k % 9]
            c = {"id": start_id + len(out), "n": n, "bs": rng.choice([2, 3, 50]),
                 "spec": rng.choice(["rand", "rand", "wide", "degenerate", "rankdef"]),
                 "mat": rng.choice(["complex", "complex", "real", "diag", "blockdiag"]),
                 "vec": rng.choice(["rand", "rand", "rand", "eigvec", "small"]),
                 "phase": rng.choice([[1, 0], [-1, 0], [0, 1], [0, -1]]), "target": rng.choice([0.5, 3, 20]),
                 "vdtype": "complex", "dtform": rng.choice(["float", "complex0"]), "scale": 1.0,
                 "normval": nv, "theta": rng.choice([0.0, rng.uniform(0, 6.28)]), "cls": "main"}
            if c["mat"] in ("real", "diag") and rng.random() < 0.4:
                c["vdtype"] = "real"
            c["fault"] = rng.random() < 0.2
            out.append(c)
    return out


# ------------------------------------------------------------------------------------------------ Coq text
def zlist(xs):
    return "[" + "; ".join(common.coq_Z(x) for x in xs) + "]"


def llist(ls):
    return "[" + "; ".join(zlist(l) for l in ls) + "]"


def mode_txt(c):
    return "{| m_deco := %s; m_sys := %s; m_full := %s; m_opt := %s |}" % (
        "DQr" if c["QR"] else "DSvd", "SysR" if c["system"] == "R" else "SysL",
        "true" if c["full"] else "false", "true" if c["opt"] else "false")


def full_order(keys, labels):
    """witness for the iteration order of the label set: the logged (non-skipped) keys in logged order, then the rest"""
    out = [list(k) for k in keys]
    for l in labels:
        if list(l) not in out:
            out.append(list(l))
    return out


HDR = "From RV Require Import Model.SvdQn Model.Krylov Gen.SvdQnShape.\nFrom Coq Require Import List ZArith Arith Bool.\nImport ListNotations.\nOpen Scope Z_scope.\n"


def svd_eval_line(c, r):
    if c["kind"] == "svd":
        order = full_order(r["order"], c["qnl"])
        return "Eval vm_compute in (svd_case src_shape %s %s %s %s %s (map Z.to_nat %s))." % (
            mode_txt(c), llist(c["qnl"]), llist(c["qnr"]), zlist(c["qntot"]), llist(order), zlist(r["perm"]))
    qn, comp = (c["qnl"], c["qnr"]) if c["system"] == "L" else (c["qnr"], c["qnl"])
    order = full_order(r["order"], qn)
    return "Eval vm_compute in (eigh_case src_shape %s %s %s %s)." % (llist(qn), llist(comp), zlist(c["qntot"]), llist(order))


def krylov_eval_line(c, r):
    j = r["it"] - 1
    brk = "(fun j => Nat.eqb j %d)" % j if r["exit"] == 1 else "(fun _ => false)"
    conv = "(fun j => Nat.eqb j %d)" % j if r["exit"] == 2 else "(fun _ => false)"
    return "Eval vm_compute in (map Z.of_nat (run_summary %d %d %s %s))." % (c["n"], c["bs"], brk, conv)


def run_shards(ctx, script, payloads, timeout):
    """ctx.impl_par with results passed through scratch files (deleted afterwards)"""
    import tempfile
    d = tempfile.mkdtemp(prefix="c18_")
    for k, pl in enumerate(payloads):
        pl["out"] = os.path.join(d, "%s_%d.json" % (script, k))
    outs = ctx.impl_par(script, payloads, timeout=timeout)
    res = []
    for pl, (rc, r, raw) in zip(payloads, outs):
        obj = None
        if r and r.get("file") and os.path.exists(r["file"]):
            try:
                obj = json.load(open(r["file"]))
            except Exception:
                obj = None
        if os.path.exists(pl["out"]):
            os.remove(pl["out"])
        res.append((rc, obj, raw))
    try:
        os.rmdir(d)
    except OSError:
        pass
    return res


def shape_diff_pre(shape):
    if shape is None:
        return {}
    ref = {k: True for k in shape}
    ref.update({"sh_u_label": "LabNl", "sh_u_index": "IdxL", "sh_v_label": "LabNr", "sh_v_index": "IdxR"})
    return {k: shape[k] for k in shape if shape[k] != ref[k]}


def chunks(xs, k):
    return [xs[i:i + k] for i in range(0, len(xs), k)]


# ------------------------------------------------------------------------------------------------ the check
def run(ctx):
    quick = ctx.tier == "quick"
    seed = ctx.seed
    ctx.trusted += [
        "translator tx/krylovsites.py (python ast scan of every expm_krylov call; fail-closed) and its classification rules",
        "translator tx/krylovnorm.py (prologue of expm_krylov and its kernel calls into the constants of Gen/KrylovNorm.v; fail-closed)",
        "translator tx/svdqn.py (statement-by-statement reading of svd_qn.py into the constants of Gen/SvdQnShape.v; fail-closed: unknown statements raise)",
        "hand-written models coq/Model/SvdQn.v and coq/Model/Krylov.v, tied to the code by harness/c18.py: logged blockappend arguments / argsort result / _expm_krylov call frames vs the models' vm_compute output (exact integers)",
        "witness loggers in harness/impl/c18_*.py (module-level proxies for scipy.linalg and np inside svd_qn, frame inspection in expm_krylov), NumPy/SciPy oracles",
        "modelled, not verified: LAPACK svd/qr/rq/eigh (contract checked on every logged call), binary64 rounding, the Krylov convergence test allclose(res,new_res) (accuracy in the ordinary exit is measured, not proved), eigh_tridiagonal",
    ]
    ctx.assumptions += ["per-block factors satisfy U diag(S) V^T = block with orthonormal columns (checked numerically on every call)",
                        "A Hermitian at the expm_krylov call sites whenever the effective Hamiltonian built by hop_expr* is Hermitian (C09's domain)"]
    broken = []
    # ---------------------------------------------------------------- 1. translator
    sites = None
    try:
        text, sites = txks.main(common.REPO)
        ctx.regen(txks.TARGET, text)
    except Exception as e:
        ctx.notes.append("translator tx/krylovsites.py failed: %r" % (e,))
        broken.append("translator tx/krylovsites.py")
    shape = None
    try:
        text_s, shape = txsq.main(common.REPO)
        ctx.regen(txsq.TARGET, text_s)
    except Exception as e:
        ctx.notes.append("translator tx/svdqn.py failed: %r" % (e,))
        ctx.regen(txsq.TARGET, txsq.render_failed(str(e)))
        broken.append("translator tx/svdqn.py (a statement of svd_qn / eigh_qn / blockappend / blockrecover / get_qn_mask is not one it knows): %s" % (str(e)[:400],))
    nshape = None
    try:
        text_n, nshape = txkn.main(common.REPO)
        ctx.regen(txkn.TARGET, text_n)
    except Exception as e:
        ctx.notes.append("translator tx/krylovnorm.py failed: %r" % (e,))
        ctx.regen(txkn.TARGET, txkn.render_failed(str(e)))
        broken.append("translator tx/krylovnorm.py (the prologue / kernel calls of expm_krylov are not of the known form): %s" % (str(e)[:400],))
    if nshape is not None and not all(nshape.values()):
        broken.append("C18_krylov_norm_shape (Proofs.KrylovProofs.norm_shape_ok: src_norm = ref_norm): expm_krylov no longer has the fact(s) %s (normalisation of the start vector / scaling of the result) the model and C18_krylov_homogeneous are written for"
                      % ({k: v for k, v in nshape.items() if not v},))
    # ---------------------------------------------------------------- 2. proofs
    ok_build, log = (False, "translator failed") if sites is None else ctx.coq_make(["Proofs/SvdQnProofs.vo", "Proofs/KrylovProofs.vo"])
    ok_props = False
    if ok_build:
        ok_props, log = ctx.props("Props/C18.v")
    else:
        ctx.obligations.append({"name": "C18 (build of Gen/KrylovSites.v + Proofs/SvdQnProofs.v + Proofs/KrylovProofs.v)", "file": "Proofs", "ok": False, "assumptions": None})
    if shape_diff_pre(shape):
        broken.append("C18_source_shape (Proofs.SvdQnProofs.shape_ok: src_shape = ref_shape): the source no longer has the structural fact(s) %s the model and its proofs are written for" % (shape_diff_pre(shape),))
    if sites is not None and shape is not None and not (ok_build and ok_props):
        broken.append("theorem(s) of Props/C18.v: " + ", ".join(o["name"] for o in ctx.obligations if not o["ok"]))
    if not ok_build:
        # the proofs did not build (e.g. src_shape <> ref_shape): the models and the generated tables are still needed for the tie
        ctx.coq_make(["Gen/SvdQnShape.vo", "Gen/KrylovSites.vo", "Gen/KrylovNorm.vo"])
    model_ok = all(os.path.exists(os.path.join(common.COQ, *p)) for p in (("Model", "SvdQn.vo"), ("Model", "Krylov.vo"), ("Gen", "SvdQnShape.vo")))
    shape_diff = None
    if shape is not None:
        ref = {k: True for k in shape}
        ref.update({"sh_u_label": "LabNl", "sh_u_index": "IdxL", "sh_v_label": "LabNr", "sh_v_index": "IdxR"})
        shape_diff = {k: shape[k] for k in shape if shape[k] != ref[k]}
        if shape_diff:
            ctx.notes.append({"source shape differs from the model's reference shape": shape_diff})

    # ---------------------------------------------------------------- 3. svd_qn / eigh_qn: implementation + oracle
    n_svd, n_eigh, n_kry, n_dtype = (420, 100, 360, 12) if quick else (6000, 1500, 6000, 60)
    rng = ctx.rng
    cases = []
    for k in range(len(EIGH_CORPUS)):
        cases.append(corpus_eigh_case(k, len(cases), cplx=bool(k % 2)))
    for i in range(n_svd):
        cases.append(gen_svd_case(rng, len(cases), malformed=(i % 25 == 24)))
    for i in range(n_eigh):
        cases.append(gen_eigh_case(rng, len(cases), malformed=(i % 25 == 24)))
    shards = chunks(cases, max(1, (len(cases) + 11) // 12))
    outs = run_shards(ctx, "c18_svdqn.py", [{"seed": seed, "cases": sh} for sh in shards], 600 if quick else 1500)
    results = {}
    impl_fail = []
    lapack_calls = 0
    for sh, (rc, res, raw) in zip(shards, outs):
        if res is None:
            impl_fail.append(raw[-1500:])
            continue
        lapack_calls += res.get("lapack_calls", 0)
        for r in res["results"]:
            results[r["id"]] = r
    oracle_bad, struct_bad, witness_bad = [], [], []
    fstat = {"svd_cases": 0, "svd_hits": 0, "krylov_cases": 0, "krylov_hits": 0}
    hist = {}
    eval_lines, eval_cases = [], []
    nontrivial = 0
    for c in cases:
        r = results.get(c["id"])
        if r is None:
            continue
        key = "%s/%s/%s/%s" % (c["kind"], "QR-" + str(c["system"]) if c["QR"] and c["kind"] == "svd" else ("SVD" if c["kind"] == "svd" else "eigh-" + c["system"]),
                               "full" if c["full"] else "econ", c["pattern"])
        hist[key] = hist.get(key, 0) + 1
        if r["error"]:
            if c["malformed"] and r["error"].startswith("ValueError"):
                r["expect"] = [-2]
            else:
                oracle_bad.append({"case": c, "error": r["error"]})
                continue
        else:
            if c["malformed"]:
                oracle_bad.append({"case": c, "error": "malformed case (no reachable sector) was accepted"})
                continue
            if not r["ok"]:
                oracle_bad.append({"case": c, "failures": r["oracle"]})
            r["expect"] = r["struct"]
            # non-trivial by rule: at least two blocks, or an empty / one-sided sector was skipped
            nkeys = len(r["order"])
            labels = c["qnl"] if (c["kind"] == "svd" or c["system"] == "L") else c["qnr"]
            if nkeys >= 2 or len({tuple(l) for l in labels}) > nkeys:
                nontrivial += 1
        if c.get("fault") and c["kind"] == "svd":
            fstat["svd_cases"] += 1
            fstat["svd_hits"] += r.get("fault_hits", 0)
        eval_lines.append(svd_eval_line(c, r))
        eval_cases.append((c, r))
    # ---------------------------------------------------------------- 4. Krylov: implementation + oracle
    kcases = [gen_krylov_case(rng, i) for i in range(n_kry)] + [gen_krylov_case(rng, n_kry + i, dtype_class=True) for i in range(n_dtype)]
    kcases += [gen_krylov_case(rng, len(kcases) + i, dtype_class="small-norm") for i in range(8)]
    kcases += gen_norm_cases(rng, len(kcases), 6 if quick else 40)
    small_norm = {}
    kshards = chunks(kcases, max(1, (len(kcases) + 11) // 12))
    kouts = run_shards(ctx, "c18_krylov.py", [{"seed": seed, "cases": sh} for sh in kshards], 600 if quick else 1500)
    kres = {}
    for sh, (rc, res, raw) in zip(kshards, kouts):
        if res is None:
            impl_fail.append(raw[-1500:])
            continue
        for r in res["results"]:
            kres[r["id"]] = r
    k_bad, k_dtype_bad, k_ctrl_bad = [], [], []
    k_lines, k_eval = [], []
    kstat = {"exit": {0: 0, 1: 0, 2: 0}, "grew": 0, "max_err": 0.0, "max_ortho": 0.0, "max_lanczos_inner": 0.0, "max_it": 0}
    for c in kcases:
        r = kres.get(c["id"])
        if r is None:
            continue
        if r["error"] and c["cls"] != "small-norm":
            (k_dtype_bad if c["cls"] != "main" else k_bad).append({"case": c, "error": r["error"]})
            continue
        if c["cls"] == "small-norm":
            if not r["error"]:
                k = "%g" % c["scale"]
                small_norm[k] = max(small_norm.get(k, 0.0), r["err"])
            continue
        if c["cls"] != "main":
            if r["err"] > KRYLOV_TOL:
                k_dtype_bad.append({"case": c, "err": r["err"], "it": r["it"], "warn": r["warn"]})
            continue
        kstat["exit"][r["exit"]] = kstat["exit"].get(r["exit"], 0) + 1
        kstat["grew"] += 1 if r["lens"][0] > c["bs"] else 0
        kstat["max_err"] = max(kstat["max_err"], r["err"])
        kstat["max_ortho"] = max(kstat["max_ortho"], r["ortho"])
        kstat["max_lanczos_inner"] = max(kstat["max_lanczos_inner"], r["lanczos_inner"])
        kstat["max_it"] = max(kstat["max_it"], r["it"])
        why = []
        if r["err"] > KRYLOV_TOL:
            why.append("error %.3g > %.1g" % (r["err"], KRYLOV_TOL))
        if c.get("fault"):
            fstat["krylov_cases"] += 1
            fstat["krylov_hits"] += r.get("fault_hits", 0)
        if c.get("normval") is not None:
            exact = r["exit"] in (0, 1)
            if exact and r["err"] > NORM_TOL:
                why.append("NORM: |c| = %r, Krylov space exhausted (exit %d) but relative error %.3g > %.0e" % (c["normval"], r["exit"], r["err"], NORM_TOL))
            h = r.get("homog")
            if not isinstance(h, float):
                why.append("NORM: homogeneity run: %s" % (h,))
            elif r.get("unit_it") == r["it"] and h > (NORM_TOL if exact else 1e-9):
                why.append("NORM: not homogeneous: |kernel(c v) - c kernel(v)| / |c kernel(v)| = %.3g for |c| = %r" % (h, c["normval"]))
            elif h > KRYLOV_TOL:
                why.append("NORM: not homogeneous (different iteration counts %s / %s): %.3g for |c| = %r" % (r.get("unit_it"), r["it"], h, c["normval"]))
            kstat["norm_cases"] = kstat.get("norm_cases", 0) + 1
            kstat["norm_max_homog"] = max(kstat.get("norm_max_homog", 0.0), h if isinstance(h, float) else 1.0)
            if exact:
                kstat["norm_max_err_exact_exit"] = max(kstat.get("norm_max_err_exact_exit", 0.0), r["err"])
        if r["refgap"] > 1e-9:
            why.append("reference values disagree (%.3g): oracle unusable for this case" % r["refgap"])
        if r["lanczos_inner"] > 1e-9:
            why.append("Lanczos three-term relation violated on logged alpha/beta/V (%.3g)" % r["lanczos_inner"])
        if not r.get("input_unchanged", False):
            why.append("the start vector passed in was modified by the call (not bit-identical to a copy taken before)")
        sc2 = r.get("second_call_err")
        if isinstance(sc2, str) or sc2 is None or sc2 > KRYLOV_TOL:
            why.append("second call with the same (unnormalised) array: %s" % (sc2 if isinstance(sc2, str) or sc2 is None else "error %.3g" % sc2))
        if r["ret_gap"] > 1e-9:
            why.append("returned vector is not ||v|| V exp(dt T) e1 for the logged alpha/beta/V (%.3g)" % r["ret_gap"])
        if r.get("complete") is not None:
            kstat["fullspace_max_noncomplete"] = max(kstat.get("fullspace_max_noncomplete", 0.0), r["complete"])
            kstat["fullspace_max_lanczos_last"] = max(kstat.get("fullspace_max_lanczos_last", 0.0), r["lanczos_last"])
        if r["exit"] == 1 and r["lanczos_last"] > 1e-9:
            why.append("breakdown exit but A V != V T (%.3g)" % r["lanczos_last"])
        if not r["slices_ok"] or r["it"] != r["calls"][-1] + 1 or r["exit"] not in (0, 1, 2):
            why.append("slice lengths / returned iteration count inconsistent")
        if r["warn"]:
            why.append("warnings: %s" % r["warn"])
        if why:
            k_bad.append({"case": c, "why": why, "result": {k: r[k] for k in ("exit", "it", "err", "relerr", "lens", "ortho")}})
        k_lines.append(krylov_eval_line(c, r))
        k_eval.append((c, r))
    # ---------------------------------------------------------------- 5. the models on the same cases (vm_compute)
    # each file:  Definition cases := [(model term, implementation's integers); ...]  and ONE Eval printing a 0/1 flag per case
    # (small output); the model's value is printed only for the first few mismatches in a follow-up file.
    n_model = 0
    site_flags = None
    if model_ok:
        def term(line):
            return line[len("Eval vm_compute in "):-1]
        def expect_svd(idx):
            return eval_cases[idx][1]["expect"]
        def expect_kry(idx):
            c, r = k_eval[idx]
            return [1, r["exit"], r["it"]] + r["lens"] + [1] + r["calls"]
        def casefile(lines, idxs, expect):
            body = ";\n  ".join("(%s, %s)" % (term(lines[i]), zlist(expect(i))) for i in idxs)
            return (HDR + "Definition zeq (a b : list Z) : bool := if list_eq_dec Z.eq_dec a b then true else false.\n"
                    "Definition cases : list (list Z * list Z) := [\n  " + body + "].\n"
                    "Eval vm_compute in (map (fun c => if zeq (fst c) (snd c) then 0 else 1) cases).\n")
        items = []
        for k, ch in enumerate(chunks(list(range(len(eval_lines))), 300)):
            items.append(("svd_%d" % k, casefile(eval_lines, ch, expect_svd), ch, "svd"))
        for k, ch in enumerate(chunks(list(range(len(k_lines))), 300)):
            items.append(("kry_%d" % k, casefile(k_lines, ch, expect_kry), ch, "kry"))
        # the call-site table evaluated by the kernel: 1 = Hermitian operator
        items.append(("sites", "From RV Require Import Model.Krylov Gen.KrylovSites.\nFrom Coq Require Import List ZArith.\nImport ListNotations.\n"
                      "Eval vm_compute in (map (fun s => if site_ok s then 1%Z else 0%Z) sites).\n", [], "sites"))
        evs = ctx.coq_eval_many([(n, t) for n, t, _, _ in items], timeout=900)
        mism = {"svd": [], "kry": []}
        for name, text, ch, what in items:
            rc, out = evs.get(name, (1, ""))
            vals = common.parse_Z_list(out) if rc == 0 else None
            if what == "sites":
                site_flags = vals
                continue
            if vals is None or len(vals) != len(ch):
                (struct_bad if what == "svd" else k_ctrl_bad).append({"what": "model evaluation failed for " + name, "out": out[-800:]})
                continue
            n_model += len(ch)
            mism[what] += [idx for idx, v in zip(ch, vals) if v != 0]
        # model values of the first mismatches
        follow = [("svd", i, eval_lines[i]) for i in mism["svd"][:4]] + [("kry", i, k_lines[i]) for i in mism["kry"][:4]]
        fvals = []
        if follow:
            rc_f, out_f = ctx.coq_eval("mismatch", HDR + "\n".join(l for _, _, l in follow) + "\n")
            fvals = common.parse_Z_lists(out_f) if rc_f == 0 else []
        shown = {}
        for (what, i, _), v in zip(follow, fvals):
            shown[(what, i)] = v
        for i in mism["svd"]:
            c, r = eval_cases[i]
            v = shown.get(("svd", i))
            if v == [-1]:
                witness_bad.append({"case": c, "order": r["order"], "perm": r["perm"], "what": "logged set order / argsort permutation rejected by order_okb / perm_okb"})
            else:
                struct_bad.append({"case": c, "impl": r["expect"], "model": v, "order": r["order"]})
        for i in mism["kry"]:
            c, r = k_eval[i]
            k_ctrl_bad.append({"case": c, "impl": expect_kry(i), "model": shown.get(("kry", i))})
    # ---------------------------------------------------------------- 6. the CMF coefficient site
    rc, cmf, raw = ctx.impl("c18_cmf.py", {"seed": 0, "dts": [0.1, 0.5]}, timeout=600)
    cmf_bad = None
    cmf_note = None
    if cmf is None:
        impl_fail.append("c18_cmf.py: " + raw[-1500:])
    else:
        anti = [c for c in cmf["calls"] if c["herm"] > 1e-6]          # operator passed is not Hermitian
        worst = max([c["relerr"] for c in anti], default=0.0)
        cmf_note = {"calls": len(cmf["calls"]), "non_hermitian_calls": len(anti), "worst_relerr_vs_expm": worst, "steps": cmf["steps"]}
        if anti and worst > KRYLOV_TOL:
            cmf_bad = {"non_hermitian_calls": anti[:4], "steps": cmf["steps"]}
    site_rows = []
    if sites is not None:
        for i, s in enumerate(sites):
            ok = None if not site_flags or i >= len(site_flags) else bool(site_flags[i])
            site_rows.append({"file": s["file"], "line": s["line"], "func": s["func"], "op": s["op"], "dt": s["dt"], "site_ok": ok})
    bad_sites = [s for s in site_rows if s["site_ok"] is False]
    refuted_ok = None
    if bad_sites and model_ok:
        # kernel-checked refutation of "every call site passes a Hermitian operator"
        rc_r, out_r = ctx.coq_eval("sites_refuted",
            "From RV Require Import Model.Krylov Gen.KrylovSites.\nFrom Coq Require Import List Bool.\n"
            "Lemma krylov_sites_hermitian_refuted : exists s, In s sites /\\ site_ok s = false.\n"
            "Proof. assert (H : existsb (fun s => negb (site_ok s)) sites = true) by (vm_compute; reflexivity).\n"
            "  apply existsb_exists in H. destruct H as [s [H1 H2]]. exists s. split; [exact H1|]. destruct (site_ok s); [discriminate | reflexivity]. Qed.\n"
            "Print Assumptions krylov_sites_hermitian_refuted.\n")
        refuted_ok = rc_r == 0 and "Closed under the global context" in out_r
        ctx.obligations.append({"name": "krylov_sites_hermitian_refuted (generated: some call site does not pass a Hermitian operator)", "file": "Corr/run_C18/sites_refuted.v",
                                "ok": refuted_ok, "assumptions": [] if refuted_ok else None})

    # ---------------------------------------------------------------- 7. verdicts
    impl_script = os.path.join(common.VERIF, "harness", "impl")
    if impl_fail:
        ctx.violation("c18-impl-runner", "correspondence (implementation runner crashed: machinery fault unless the repo cannot be imported)",
                      {"out": impl_fail[:3]}, found=False)
    if broken:
        ctx.violation("c18-proofs", "; ".join(broken), {"coq_log_tail": log[-2000:] if isinstance(log, str) else "",
                      "source_shape_differs_from_model (C18_source_shape / shape_ok)": shape_diff,
                      "hint": "if Proofs/KrylovProofs.v fails at sites_hermitian_b, a call site of expm_krylov no longer passes a (verifiably) Hermitian operator: see the sites table in the evidence notes and the cmf / site violation of this run"}, found=False)
    sf_bad = [b for b in oracle_bad if b["case"].get("fault") and b["case"]["kind"] == "svd" and not b["case"]["malformed"]]
    if sf_bad:
        oracle_bad = [b for b in oracle_bad if b not in sf_bad]
        rc_f, out_f = common.sh([common.IMPL_PY, "-c", SFAULT_REPRO], env=common.impl_env(), cwd="/", timeout=300)
        mini_f = min(sf_bad, key=lambda b: len(b["case"]["qnl"]) * len(b["case"]["qnr"]))
        ctx.violation("svd_qn-fault-path", "svd_qn on the retry path of optimized_svd (gesdd raised LinAlgError, injected; gesvd retry) violates the contract of the regular path",
                      {"failing": len(sf_bad), "smallest": mini_f, "repro_output": out_f[-1200:]}, found=True,
                      repro=SFAULT_REPRO if rc_f != 0 else GENERIC_REPRO % (json.dumps({"seed": seed, "cases": [mini_f["case"]]}), os.path.join(impl_script, "c18_svdqn.py"), "not r['ok']"))
    if (fstat["svd_cases"] and not fstat["svd_hits"]) or (fstat["krylov_cases"] and not fstat["krylov_hits"]):
        ctx.violation("c18-fault-injection-inert", "correspondence: the injected LinAlgError never reached a fallback branch (the kernels no longer call eigh_tridiagonal / scipy.linalg.svd(lapack_driver='gesdd') where the harness injects)",
                      {"fault_stream": fstat}, found=False)
    if oracle_bad:
        svd_b = [b for b in oracle_bad if b["case"]["kind"] == "svd"]
        eig_b = [b for b in oracle_bad if b["case"]["kind"] == "eigh"]
        for key, lst in (("svd_qn-contract", svd_b), ("eigh_qn-contract", eig_b)):
            if lst:
                mini = min(lst, key=lambda b: (b["case"]["id"] >= len(EIGH_CORPUS), len(b["case"]["qnl"]) * len(b["case"]["qnr"])))
                if key == "eigh_qn-contract":
                    mc = mini["case"]
                    snippet = EIGH_REPRO % (mc["qnl"], mc["qnr"], mc["qntot"], mc["system"], bool(mc.get("complex")))
                    rc_s, out_s = common.sh([common.IMPL_PY, "-c", snippet], env=common.impl_env(), cwd="/", timeout=300)
                    if rc_s == 1:              # the self-contained brute-force repro fails on this tree: use it
                        ctx.violation(key, "eigh_qn_sound fails on the real code (brute-force element-wise projection of a generic positive density matrix)",
                                      {"failing": len(lst), "smallest": mini, "repro_output": out_s[-600:]}, found=True, repro=snippet)
                        continue
                ctx.violation(key, "svd_qn_sound / eigh_qn_sound fail on the real code (NumPy oracle on the result)",
                              {"failing": len(lst), "smallest": mini}, found=True,
                              repro=GENERIC_REPRO % (json.dumps({"seed": seed, "cases": [mini["case"]]}), os.path.join(impl_script, "c18_svdqn.py"),
                                                     "(not r['ok']) and not (r['error'] or '').startswith('ValueError: Invalid quantum number')" if not mini["case"]["malformed"] else "not r['error']"))
    if struct_bad or witness_bad:
        lst = struct_bad + witness_bad
        ctx.violation("svd_qn-structure", "correspondence Model/SvdQn.v vs svd_qn/eigh_qn (gather index sets, dims, factor shapes, labels, sort permutation)",
                      {"mismatches": len(lst), "first": lst[:3]}, found=False)
    k_fault = [b for b in k_bad if b["case"].get("fault")]
    if k_fault:
        k_bad = [b for b in k_bad if b not in k_fault]
        rc_k, out_k = common.sh([common.IMPL_PY, "-c", KFAULT_REPRO], env=common.impl_env(), cwd="/", timeout=300)
        mini_k = min(k_fault, key=lambda b: b["case"]["n"])
        ctx.violation("krylov-fault-path", "the Krylov exponential on the fallback path of _expm_krylov (eigh_tridiagonal raised LinAlgError, injected; dense np.linalg.eigh) violates the contract of the regular path",
                      {"failing": len(k_fault), "smallest": mini_k, "repro_output": out_k[-1200:]}, found=True,
                      repro=KFAULT_REPRO if rc_k != 0 else GENERIC_REPRO % (json.dumps({"seed": seed, "cases": [mini_k["case"]]}), os.path.join(impl_script, "c18_krylov.py"),
                                                                           "r['error'] or r['err'] > %g or r['ret_gap'] > 1e-9" % KRYLOV_TOL))
    k_norm = [b for b in k_bad if any(w.startswith("NORM:") for w in b.get("why", []))]
    if k_norm:
        k_bad = [b for b in k_bad if b not in k_norm]
        rc_n, out_n = common.sh([common.IMPL_PY, "-c", NORM_REPRO], env=common.impl_env(), cwd="/", timeout=300)
        mini_n = min(k_norm, key=lambda b: b["case"]["n"])
        ctx.violation("krylov-norm-homogeneity",
                      "the Krylov exponential is not homogeneous of degree 1 in the start vector / misses its purely relative tolerance at some norm of the start vector (normalisation of vstart)",
                      {"failing": len(k_norm), "norms_failing": sorted({b["case"]["normval"] for b in k_norm}), "smallest": mini_n, "repro_output": out_n[-1500:]}, found=True,
                      repro=NORM_REPRO if rc_n != 0 else GENERIC_REPRO % (json.dumps({"seed": seed, "cases": [mini_n["case"]]}), os.path.join(impl_script, "c18_krylov.py"),
                                                                         "r['error'] or not isinstance(r.get('homog'), float) or r['homog'] > 1e-9 or (r['exit'] in (0, 1) and r['err'] > %g)" % NORM_TOL))
    k_inp = [b for b in k_bad if any("start vector passed in was modified" in w or "second call" in w for w in b.get("why", []))]
    if k_inp:
        k_bad = [b for b in k_bad if b not in k_inp or len(b.get("why", [])) > sum(1 for w in b["why"] if "start vector passed in was modified" in w or "second call" in w)]
        rc_i, out_i = common.sh([common.IMPL_PY, "-c", INPUT_REPRO], env=common.impl_env(), cwd="/", timeout=300)
        ctx.violation("krylov-input-modified", "the Krylov exponential modifies the start vector it is given / gives a different answer when the same array is used again",
                      {"failing": len(k_inp), "smallest": min(k_inp, key=lambda b: b["case"]["n"]), "repro_output": out_i[-800:]}, found=True,
                      repro=INPUT_REPRO if rc_i != 0 else GENERIC_REPRO % (json.dumps({"seed": seed, "cases": [min(k_inp, key=lambda b: b["case"]["n"])["case"]]}), os.path.join(impl_script, "c18_krylov.py"),
                                                                         "r['error'] or not r.get('input_unchanged') or not isinstance(r.get('second_call_err'), float) or r['second_call_err'] > %g" % KRYLOV_TOL))
    # fixed probe: operators whose callable returns its argument or a view of it
    rc_al, out_al = common.sh([common.IMPL_PY, "-c", ALIAS_REPRO], env=common.impl_env(), cwd="/", timeout=300)
    ctx.notes.append({"aliasing-operator probe (A = identity returning its argument / a view)": out_al[-700:]})
    if rc_al != 0:
        ctx.violation("krylov-afunc-aliases-input",
                      "the Krylov exponential returns the zero vector when the operator callable returns its argument or a view of it (the in-place `w -= ...` overwrites the Krylov basis row)",
                      {"probe": "A = identity as `lambda x: x`, `lambda x: x[:]`, `lambda x: x.reshape(-1)`; dt = 0.5 and -0.5j; control `lambda x: x.copy()`", "output": out_al[-800:],
                       "minimal_patch": "w = w - (alpha[j]*V[j] + (beta[j-1]*V[j-1] if j > 0 else 0))   instead of the in-place  w -= ..."},
                      found=True, repro=ALIAS_REPRO)
    # fixed probe: accuracy relative to |v| for a small-norm start vector (absolute tolerance in the convergence test)
    rc_a, out_a = common.sh([common.IMPL_PY, "-c", ABSTOL_REPRO], env=common.impl_env(), cwd="/", timeout=300)
    ctx.notes.append({"small-norm probe (|v| = 1e-9, ||A dt|| = 20)": out_a[-400:]})
    if rc_a != 0:
        ctx.violation("krylov-abs-tolerance-small-norm",
                      "the Krylov exponential misses its relative tolerance for small-norm start vectors: the convergence test allclose(res, new_res) applies the absolute tolerance 1e-8 to the norm-scaled result",
                      {"probe": "n = 40, ||A dt|| = 20, dt = -20j, |v| = 1e-9 vs |v| = 1", "output": out_a[-600:],
                       "minimal_patch": "xp.allclose(res, new_res, atol=1e-8 * nrmv)  (tolerances relative to the norm of the start vector)"},
                      found=True, repro=ABSTOL_REPRO)
    if k_bad:
        mini = min(k_bad, key=lambda b: b["case"]["n"])
        ctx.violation("krylov-accuracy", "Krylov exponential vs dense reference / Lanczos relations on the real code",
                      {"failing": len(k_bad), "smallest": mini}, found=True,
                      repro=GENERIC_REPRO % (json.dumps({"seed": seed, "cases": [mini["case"]]}), os.path.join(impl_script, "c18_krylov.py"),
                                             "r['error'] or r['err'] > %g or r['lanczos_inner'] > 1e-9 or r['warn'] or not r.get('input_unchanged') or not isinstance(r.get('second_call_err'), float) or r['second_call_err'] > %g" % (KRYLOV_TOL, KRYLOV_TOL)))
    if k_ctrl_bad:
        ctx.violation("krylov-control", "correspondence Model/Krylov.v vs expm_krylov (exit taken, iteration count, buffer lengths, iterations at which _expm_krylov is called); krylov_buffers_safe no longer describes the code",
                      {"mismatches": len(k_ctrl_bad), "first": k_ctrl_bad[:3]}, found=False)
    if k_dtype_bad:
        # measured: a case of this class is reported only if its error really exceeds the tolerance (or it raised)
        grew = [b for b in k_dtype_bad if b["case"]["bs"] < b.get("it", 10 ** 9)]
        ctx.violation("krylov-real-vstart-complex-op",
                      "the Krylov exponential returns a wrong vector for a complex Hermitian A and a real-dtype starting vector (Lanczos basis allocated with vstart.dtype; imaginary parts discarded with a ComplexWarning)",
                      {"input_class": "complex Hermitian A (dense), float64 start vector, dt real or imaginary, ||A dt|| in {0.5, 3}, block sizes 2..50",
                       "only_after_buffer_growth": bool(k_dtype_bad) and len(grew) == len(k_dtype_bad),
                       "observed": "relative error O(0.1..1) with a ComplexWarning; when only_after_buffer_growth is true the first allocation is complex but "
                                   "`V = xp.empty((len(V) + block_size, n), dtype=vstart.dtype)` re-creates a real buffer on growth"},
                      found=True, repro=DTYPE_REPRO, extra={"failing": len(k_dtype_bad), "of": n_dtype, "first": k_dtype_bad[:2]})
    if cmf_bad is not None or bad_sites:
        detail = {"sites_not_ok": bad_sites, "experiment": cmf_bad, "kernel_checked_refutation": refuted_ok,
                  "explanation": "expm_krylov takes alpha[j] = vdot(w, V[j]).real and a real symmetric tridiagonal T, i.e. it assumes a Hermitian operator. "
                                 "_evolve_tdvp_mu_cmf passes func1 = H_eff(.)/coef with coef = 1j in real time (anti-Hermitian): alpha is identically 0 "
                                 "(C18_antihermitian_rayleigh_imag), the Lanczos vectors are not orthogonal, T is not the compression of A, exp(dt*T) is real and grows "
                                 "while exp(dt*A) is unitary. Only the Taylor terms up to the Krylov dimension agree (A V = V T + rest holds by construction), so the error is small for "
                                 "||A||*dt << 1 and unbounded otherwise."}
        if cmf_bad is not None:
            ctx.violation("cmf-krylov-antihermitian", "krylov_sites_hermitian (Hermitian-operator precondition of expm_krylov at the coefficient site of Mps._evolve_tdvp_mu_cmf); the call returns a vector that is not exp(dt*A)v",
                          detail, found=True, repro=CMF_REPRO)
        else:
            ctx.violation("krylov-site-unclassified", "krylov_sites_hermitian: a call site is not recognised as passing the Hermitian effective Hamiltonian, but the experiment found no wrong result",
                          detail, found=False)
    ctx.notes.append({"fault_path_stream (cases / injected failures that reached a fallback branch)": fstat})
    ctx.notes.append({"krylov_stats": kstat, "cmf_experiment": cmf_note, "sites": site_rows, "lapack_contract_checks": lapack_calls,
                      "krylov_dtype_class": {"cases": n_dtype, "failing": len(k_dtype_bad)},
                      "krylov_small_norm_observation(scale -> worst error relative to ||v||; informational)": small_norm})
    samples = []
    if eval_cases:
        c, r = eval_cases[0]
        samples.append({"svd_qn case": {k: c[k] for k in ("qnl", "qnr", "qntot", "QR", "system", "full", "opt")}, "block order (witness)": r["order"], "structure (impl = model)": r.get("expect")})
    if k_eval:
        c, r = k_eval[0]
        samples.append({"expm_krylov case": c, "exit/it/lens/calls (impl = model)": [r["exit"], r["it"], r["lens"], r["calls"]], "err": r["err"]})
    if site_rows:
        samples.append({"call sites": site_rows[:3]})
    return {"evaluations": len(eval_cases) + len(k_eval) + len(site_rows) + (len(cmf["calls"]) if cmf else 0),
            "distinct_nontrivial": nontrivial + sum(1 for c, r in k_eval if r["it"] > 1),
            "rule": "svd_qn/eigh_qn case non-trivial iff it has >= 2 blocks or at least one skipped (empty / one-sided) sector; expm_krylov case non-trivial iff more than one Lanczos iteration ran; every case is compared model-vs-implementation on exact integers and checked by the NumPy oracle",
            "samples": samples[:3], "exhaustive": False, "model_evaluations": n_model,
            "input_distribution": {"svd_qn": hist, "krylov_exits(full,breakdown,converged)": kstat["exit"], "krylov_runs_with_buffer_growth": kstat["grew"],
                                   "malformed": sum(1 for c in cases if c["malformed"])},
            "witness_validity_failures": len(witness_bad), "lapack_contract_checks": lapack_calls}
