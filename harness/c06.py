"""C06: conserved quantum numbers are never violated by any operation.

1. build Model/Qn.v, Proofs/QnProofs.v, Props/C06.v (Print Assumptions parsed)
2. numerical stream (harness/impl/c06_num.py): compress / canonicalise / add+compress / apply / optimize_mps / evolve
   with conserving Hamiltonians; for every result the support pattern and the labels are exported and the
   proved-sound checker qn_validbV (Props/C06.v: C06_qn_validb_sound_multi) is evaluated on them inside Coq;
   the dense oracle (amplitudes outside the sector < 1e-10, operator of charge q lands in the shifted sector) runs in
   the same script on every result
3. the exact operations are tied by C03's integer correspondence (same model files); a small integer stream is
   re-run here so that C06 alone also notices a change of the label bookkeeping of add / apply / conj_trans"""
import json
import os

import common
import c03 as C3


def z(n):
    n = int(n)
    return str(n) if n >= 0 else "(%d)" % n


def nested(v, depth, leaf):
    if depth == 0:
        return leaf(v)
    return "[" + "; ".join(nested(x, depth - 1, leaf) for x in v) + "]"


HEADER = """From Coq Require Import ZArith List Bool.
Import ListNotations.
From RV Require Import Base.CRing Base.BigSum Model.Chain Model.Mp Model.Qn.
Open Scope Z_scope.
Definition b2z (b : bool) : Z := if b then 0 else 1.
"""


def export_def(k, e):
    sig = nested(e["sigma"], 3, z)
    qn = nested(e["qn"], 3, z)
    pats = nested(e["pats"], 4, lambda b: "true" if b else "false")
    m = "(@Build_meta VLab %s %d%%nat %s %s)" % (qn, e["qnidx"], nested(e["qntot"], 1, z), "true" if e["to_right"] else "false")
    return "Definition e%d : Z := b2z (qn_validbV %d%%nat %s %s %s)." % (k, e["ncomp"], sig, m, pats)


def tree_terms(e):
    """(stree, qtree, ptree) Coq terms of an exported tree"""
    st = "(SNode %s [%s])" % (nested(e["sg"], 3, z), "; ".join(tree_terms(c)[0] for c in e["ch"]))
    g = "(QNode %s [%s])" % (nested(e["q"], 2, z), "; ".join(tree_terms(c)[1] for c in e["ch"]))
    pt = "(PNode %s [%s])" % (nested(e["supp"], 2, lambda n: "%d%%nat" % n), "; ".join(tree_terms(c)[2] for c in e["ch"]))
    return st, g, pt


def tree_def(k, e):
    st, g, pt = tree_terms(e["tree"])
    return "Definition t%d : Z := b2z (ttns_validbV %d%%nat %s %s %s %s)." % (k, e["ncomp"], st, g, pt, nested(e["qtot"], 1, z))


def tree_file(exports):
    body = [HEADER.replace("Model.Qn.", "Model.Qn Model.Ttns Model.TtnsQn.")]
    for k, e in enumerate(exports):
        body.append(tree_def(k, e))
    body.append("Eval vm_compute in [%s]." % "; ".join("t%d" % k for k in range(len(exports))))
    return "\n".join(body) + "\n"


def mask_def(k, c):
    m = "(@Build_meta VLab %s %d%%nat %s %s)" % (nested(c["qn"], 3, z), c["qnidx"], nested(c["qntot"], 1, z), "true" if c["to_right"] else "false")
    bools = lambda depth: nested(c["mask"], depth, lambda b: "true" if b else "false")
    if c["two"]:
        return "Definition k%d : Z := bdiff4 (@mask2_tab VLab %s %s %s %d%%nat) %s." % (k, nested(c["sigma"][0], 2, z), nested(c["sigma"][1], 2, z), m, c["i"], bools(4))
    return "Definition k%d : Z := bdiff3 (@mask1_tab VLab %s %s %d%%nat) %s." % (k, nested(c["sigma"][0], 2, z), m, c["i"], bools(3))


def tmask_def(k, c):
    leaf = lambda q: "(QNode %s [])" % nested(q, 2, z)
    qtot = nested(c["qtot"], 1, z)
    bools = nested(c["mask"], 1, lambda b: "true" if b else "false")
    if c["two"]:
        return ("Definition m%d : Z := bdiff1 (@tmask2_flat VLab %s %s [%s] %s %s [%s]) %s." %
                (k, qtot, nested(c["sgn"], 3, z), "; ".join(leaf(q) for q in c["gsn"]), nested(c["sgp"], 3, z), nested(c["qp"], 2, z),
                 "; ".join(leaf(q) for q in c["gso"]), bools))
    return ("Definition m%d : Z := bdiff1 (@tmask1_flat VLab %s %s %s [%s]) %s." %
            (k, qtot, nested(c["sgn"], 3, z), nested(c["qn"], 2, z), "; ".join(leaf(q) for q in c["gsn"]), bools))


def tmask_file(cases):
    body = [HEADER.replace("Model.Qn.", "Model.Qn Model.QnMask Model.Ttns Model.TtnsQn.")]
    for k, c in enumerate(cases):
        body.append(tmask_def(k, c))
    body.append("Eval vm_compute in [%s]." % "; ".join("m%d" % k for k in range(len(cases))))
    return "\n".join(body) + "\n"


def mask_file(cases):
    body = [HEADER.replace("Model.Qn.", "Model.Qn Model.QnMask.")]
    for k, c in enumerate(cases):
        body.append(mask_def(k, c))
    body.append("Eval vm_compute in [%s]." % "; ".join("k%d" % k for k in range(len(cases))))
    return "\n".join(body) + "\n"


def cases_file(exports):
    body = [HEADER]
    for k, e in enumerate(exports):
        body.append(export_def(k, e))
    body.append("Eval vm_compute in [%s]." % "; ".join("e%d" % k for k in range(len(exports))))
    return "\n".join(body) + "\n"


def run(ctx):
    quick = ctx.tier == "quick"
    ctx.trusted += ["export of support patterns (|x| > 1e-12 max|x| per site tensor) and labels by harness/impl/c06_num.py, rendering as Coq terms by harness/c06.py",
                    "entries below the 1e-12 relative threshold are treated as zero (floating point; modelled, not verified)",
                    "dense oracle in harness/impl/c06_num.py (search only)",
                    "operator label invariant and kernel contracts decided by dense NumPy in harness/impl/c06_check.py, c06_oplab.py, c06_svdqn.py (search only); operator supports exported with the (up, down) pair merged into one physical index",
                    "tree exports by harness/impl/c06_tree.py (supports as index tuples, node labels) and mask exports by c06_mask.py",
                    "PARTIAL: tree gauge moves / compress / 2-site updates have no label theorem (their outputs are decided by the proved-sound tree checker)"]
    ok_build, log = ctx.coq_make(["Proofs/QnProofs.vo", "Proofs/QnMaskProofs.vo", "Proofs/TtnsQnProofs.vo", "Proofs/TtnsQnMoves.vo"])
    ok_props = False
    if ok_build:
        ok_props, log = ctx.props("Props/C06.v")
    else:
        ctx.obligations.append({"name": "C06 (build of Model/Qn.v, Proofs/QnProofs.v)", "file": "Proofs/QnProofs.v", "ok": False, "assumptions": None})

    tmp = "/tmp/verif_c06_%d" % os.getpid()
    os.makedirs(tmp, exist_ok=True)
    nsh, ncase = (12, 30) if quick else (14, 300)
    seeds = [ctx.rng.randrange(10 ** 6) for _ in range(nsh)]
    res = ctx.impl_par("c06_num.py", [{"seed": s, "ncases": ncase, "out": "%s/num_%d.json" % (tmp, i)} for i, s in enumerate(seeds)],
                       timeout=900 if quick else 3000)
    exports, fails, crashed = [], {}, []
    stats = {"cases": 0, "checks": 0, "ops": {}, "sector_mode": {}, "ncomp": {}, "exceptions": {}, "random_rejected": 0, "skipped_H_annihilates_state": 0}
    for (rc, r, out) in res:
        r = C3.load_result(r)
        if r is None:
            crashed.append(out[-800:])
            continue
        exports += r["exports"]
        for fl in r["failures"]:
            fails.setdefault(fl["key"], fl)
        for kk, v in r["stats"].items():
            if isinstance(v, dict):
                for a_, b_ in v.items():
                    stats[kk][a_] = stats[kk].get(a_, 0) + b_
            else:
                stats[kk] = stats.get(kk, 0) + v

    # trees and masks
    tsh, tcase = (10, 18) if quick else (14, 200)
    tres = ctx.impl_par("c06_tree.py", [{"seed": ctx.rng.randrange(10 ** 6), "ncases": tcase, "out": "%s/tree_%d.json" % (tmp, i)} for i in range(tsh)],
                        timeout=900 if quick else 3000)
    texports = []
    tstats = {"cases": 0, "checks": 0, "ops": {}, "sector_mode": {}, "ncomp": {}, "exceptions": {}, "random_rejected": 0}
    for (rc, r, out) in tres:
        r = C3.load_result(r)
        if r is None:
            crashed.append(out[-800:])
            continue
        texports += r["exports"]
        for fl in r["failures"]:
            fails.setdefault(fl["key"], fl)
        for kk, v in r["stats"].items():
            if isinstance(v, dict):
                for a_, b_ in v.items():
                    tstats.setdefault(kk, {})
                    tstats[kk][a_] = tstats[kk].get(a_, 0) + b_
            else:
                tstats[kk] = tstats.get(kk, 0) + v
    mres = ctx.impl_par("c06_mask.py", [{"seed": ctx.rng.randrange(10 ** 6), "ncases": 40 if quick else 400, "out": "%s/mask_%d.json" % (tmp, i)} for i in range(3)], timeout=600)
    mcases = []
    for (rc, r, out) in mres:
        r = C3.load_result(r)
        if r is None or r.get("errors"):
            crashed.append(out[-500:] if r is None else r["errors"][:2])
            continue
        mcases += r["cases"]

    # operator labels (constructed and after try_swap_site) and multi-component kernels / state-averaged DMRG
    ores = ctx.impl_par("c06_oplab.py", [{"seed": ctx.rng.randrange(10 ** 6), "ncases": 40 if quick else 400, "out": "%s/oplab_%d.json" % (tmp, i)} for i in range(4)], timeout=900)
    kres = ctx.impl_par("c06_svdqn.py", [{"seed": ctx.rng.randrange(10 ** 6), "ncases": 120 if quick else 1500, "nsa": 5 if quick else 40, "out": "%s/svdqn_%d.json" % (tmp, i)} for i in range(3)], timeout=900)
    ostats = {"operators": 0, "operator_cases_by_kind": {}, "qr_swap_assertions": 0, "kernel_cases": 0, "state_averaged_runs": 0, "state_averaged_states": 0}
    oexports = []
    cres = ctx.impl_par("c06_copy.py", [{"seed": ctx.rng.randrange(10 ** 6), "ncases": 60 if quick else 600, "out": "%s/copy_%d.json" % (tmp, i)} for i in range(2)], timeout=900)
    copy_cases = 0
    for (rc, r, out) in cres:
        r = C3.load_result(r)
        if r is None:
            crashed.append(out[-800:])
            continue
        copy_cases += r["stats"].get("cases", 0)
        for fl in r["failures"]:
            fails.setdefault(fl["key"], fl)
    for (rc, r, out) in list(ores) + list(kres):
        r = C3.load_result(r)
        if r is None:
            crashed.append(out[-800:])
            continue
        oexports += r["exports"]
        for fl in r["failures"]:
            fails.setdefault(fl["key"], fl)
        st_ = r["stats"]
        ostats["operators"] += st_.get("cases", 0)
        ostats["qr_swap_assertions"] += st_.get("swap_assertion_qr", 0)
        ostats["kernel_cases"] += st_.get("kernel_cases", 0)
        ostats["state_averaged_runs"] += st_.get("sa_cases", 0)
        ostats["state_averaged_states"] += st_.get("sa_states", 0)
        for a_, b_ in st_.get("by_kind", {}).items():
            ostats["operator_cases_by_kind"][a_] = ostats["operator_cases_by_kind"].get(a_, 0) + b_

    tmres = ctx.impl_par("c06_tmask.py", [{"seed": ctx.rng.randrange(10 ** 6), "ncases": 50 if quick else 500, "out": "%s/tmask_%d.json" % (tmp, i)} for i in range(3)], timeout=600)
    tmcases = []
    for (rc, r, out) in tmres:
        r = C3.load_result(r)
        if r is None or r.get("errors"):
            crashed.append(out[-500:] if r is None else r["errors"][:2])
            continue
        tmcases += r["cases"]

    # integer stream of the exact operations (labels only matter here)
    isteps = []
    ires = ctx.impl_par("c03_int.py", [{"seed": ctx.rng.randrange(10 ** 6), "ncases": 12 if quick else 60, "out": "%s/int_%d.json" % (tmp, i)} for i in range(4)], timeout=600)
    for (rc, r, out) in ires:
        r = C3.load_result(r)
        if r is None:
            crashed.append(out[-800:])
            continue
        isteps += [st for st in r["steps"] if "exception" not in st]
    try:
        os.rmdir(tmp)
    except OSError:
        pass

    bad_exports, corr_err, label_mism, bad_trees, bad_masks, bad_tmasks = [], [], [], [], [], []
    n_eval = 0
    if ok_build:
        files = []
        per = 60
        exports = exports + oexports
        for i in range(0, len(exports), per):
            files.append(("num_%03d" % (i // per), cases_file(exports[i:i + per])))
        peri = 20
        for i in range(0, len(isteps), peri):
            files.append(("int_%03d" % (i // peri), C3.cases_file(isteps[i:i + peri])))
        pert = 40
        for i in range(0, len(texports), pert):
            files.append(("tre_%03d" % (i // pert), tree_file(texports[i:i + pert])))
        perm = 40
        for i in range(0, len(mcases), perm):
            files.append(("msk_%03d" % (i // perm), mask_file(mcases[i:i + perm])))
        for i in range(0, len(tmcases), perm):
            files.append(("tmk_%03d" % (i // perm), tmask_file(tmcases[i:i + perm])))
        outs = ctx.coq_eval_many(files, timeout=900, par=14) if files else {}
        for name, _ in files:
            rc, out = outs[name]
            vals = common.parse_Z_list(out) if rc == 0 else None
            idx = int(name[4:])
            if name.startswith("tre_"):
                chunk = texports[idx * pert:(idx + 1) * pert]
                if vals is None or len(vals) != len(chunk):
                    corr_err.append({"file": name, "rc": rc, "out": out[-500:]})
                    continue
                for e, v in zip(chunk, vals):
                    n_eval += 1
                    if v:
                        bad_trees.append(e)
            elif name.startswith("tmk_"):
                chunk = tmcases[idx * perm:(idx + 1) * perm]
                if vals is None or len(vals) != len(chunk):
                    corr_err.append({"file": name, "rc": rc, "out": out[-500:]})
                    continue
                for c, v in zip(chunk, vals):
                    n_eval += 1
                    if v:
                        bad_tmasks.append((c, v))
            elif name.startswith("msk_"):
                chunk = mcases[idx * perm:(idx + 1) * perm]
                if vals is None or len(vals) != len(chunk):
                    corr_err.append({"file": name, "rc": rc, "out": out[-500:]})
                    continue
                for c, v in zip(chunk, vals):
                    n_eval += 1
                    if v:
                        bad_masks.append((c, v))
            elif name.startswith("num_"):
                chunk = exports[idx * per:(idx + 1) * per]
                if vals is None or len(vals) != len(chunk):
                    corr_err.append({"file": name, "rc": rc, "out": out[-500:]})
                    continue
                for e, v in zip(chunk, vals):
                    n_eval += 1
                    if v:
                        bad_exports.append(e)
            else:
                chunk = isteps[idx * peri:(idx + 1) * peri]
                if vals is None or len(vals) != 4 * len(chunk):
                    corr_err.append({"file": name, "rc": rc, "out": out[-500:]})
                    continue
                for k, st in enumerate(chunk):
                    n_eval += 1
                    # labels of the result, and operands / every other live object after the call (their labels
                    # must still be the ones exported before the call)
                    if vals[4 * k + 2] or vals[4 * k + 3] or C3.operands_after_mismatch(st):
                        label_mism.append(st)

    if not (ok_build and ok_props):
        bad = ", ".join(o["name"] for o in ctx.obligations if not o["ok"])
        ctx.violation("coq-build", "theorem(s) of Props/C06.v: " + bad, {"coq_log_tail": log[-1500:] if isinstance(log, str) else ""}, found=False)
    if corr_err or crashed:
        ctx.violation("corr:machinery", "correspondence machinery (cases file / impl script failed)", {"coq": corr_err[:3], "impl": crashed[:3]}, found=False)
    seen = set()
    for e in bad_exports:
        key = "labels-invalid:" + e["what"].split("[")[0]
        if key in seen:
            continue
        seen.add(key)
        if "is_op" in e:
            repro = (e["repro_lines"] + "import c06_check\nsys.exit(c06_check.%s(%s))\n" % ("op_labels_describe_blocks" if e["is_op"] else "labels_describe_blocks_model", e["name"]))
        else:
            repro = (e["repro_lines"] + "import json\nsys.path.insert(0, '/verif/harness/impl')\nimport c06_check\n"
                     "sys.exit(c06_check.labels_describe_blocks(%s, sites))\n" % e["name"])
        ctx.violation(key, "checker qn_validbV rejects the labels of the result of `%s` (C06_qn_validb_sound does not apply; the stored labels do not describe the non-zero blocks)" % e["what"],
                      {"op": e["what"], "qn": e["qn"], "qnidx": e["qnidx"], "qntot": e["qntot"], "bond_dims": e["bond_dims"], "case": e["case"]},
                      found=True, repro=repro)
    seen_t = set()
    for e in bad_trees:
        key = "tree-labels-invalid:" + e["what"].split("[")[0]
        if key in seen_t:
            continue
        seen_t.add(key)
        repro = (e["repro_lines"] + "sys.path.insert(0, '/verif/harness/impl')\nimport c06_check\nsys.exit(c06_check.tree_labels_describe_blocks(%s))\n" % e["name"])
        ctx.violation(key, "tree checker ttns_validbV rejects the labels of the result of `%s` (C06_ttns_validb_sound does not apply; the node labels do not describe the non-zero blocks)" % e["what"],
                      {"op": e["what"], "qtot": e["qtot"], "nnodes": e["nnodes"], "maxbond": e["maxbond"], "case": e["case"], "root_labels": e["tree"]["q"]},
                      found=True, repro=repro)
    if bad_masks:
        c, v = bad_masks[0]
        ctx.violation("corr:mask%d" % (2 if c["two"] else 1), "correspondence Model/QnMask.v (mask%d_tab) vs get_qn_mask(_get_big_qn(...)); C06_mask_update_valid no longer describes the code's mask" % (2 if c["two"] else 1),
                      {"differing_entries": v, "cases": len(bad_masks), "qn": c["qn"], "qnidx": c["qnidx"], "qntot": c["qntot"], "to_right": c["to_right"], "site": c["i"], "impl_mask": c["mask"]},
                      found=False)
    if bad_tmasks:
        c, v = bad_tmasks[0]
        ctx.violation("corr:tree-mask%d" % (2 if c["two"] else 1), "correspondence Model/TtnsQn.v (tmask%d_flat) vs TTNS.get_qnmask(node, include_parent=%s); C06_ttns_mask_update_valid no longer describes the code's mask" % (2 if c["two"] else 1, c["two"]),
                      {"differing_entries": v, "cases": len(bad_tmasks), "qtot": c["qtot"], "node_labels": c["qn"], "children_labels": c["gsn"], "mask_shape": c["shape"], "impl_mask": c["mask"][:200]},
                      found=False)
    by_op = {}
    for st in label_mism:
        by_op.setdefault(st["op"], []).append(st)
    if by_op:
        rc, r, out = ctx.impl("c03_replay.py", {"steps": [{k_: v_ for k_, v_ in lst[0].items() if k_ not in ("out", "after", "live_changed")} for lst in by_op.values()]}, timeout=300)
        codes = r["codes"] if r else [None] * len(by_op)
        for (op, lst), code in zip(by_op.items(), codes):
            st = lst[0]
            slim = {k_: v_ for k_, v_ in st.items() if k_ not in ("out", "after", "live_changed")}
            repro = ("import sys, json\nsys.path.insert(0, '/verif/harness/impl')\nimport c03_replay\nstep = json.loads(r'''%s''')\nsys.exit(c03_replay.replay(step))\n" % json.dumps(slim)) if code else None
            ctx.violation("corr-labels:" + op, "correspondence Model/Qn.v vs implementation for the labels of `%s` (result, or operands / other live objects after the call); the preservation theorem of Props/C06.v for this operation no longer describes the code" % op,
                          {"op": op, "mismatching_steps": len(lst),
                           "impl_result_labels": {"qn": st["out"][0]["qn"], "qnidx": st["out"][0]["qnidx"], "qntot": st["out"][0]["qntot"]} if st.get("out") else None,
                           "operand_centres": [o["qnidx"] for o in st["in"]],
                           "operand_qntot_before_after": [[b_["qntot"], a_["qntot"]] for b_, a_ in zip(st["in"], st.get("after") or [])],
                           "other_live_objects_changed": len(st.get("live_changed") or [])}, found=repro is not None, repro=repro)
    for kk, fl in fails.items():
        ctx.violation(kk, "dense oracle only: %s" % kk, fl["detail"], found=fl.get("repro") is not None, repro=fl.get("repro"))

    nontriv = sum(1 for e in exports if max(e["bond_dims"]) > 1 and e["what"] != "constructor")
    nontriv += sum(1 for e in texports if e["maxbond"] > 1 and e["what"] != "constructor")
    nontriv += sum(1 for c in mcases if 0 < c["true_entries"] < c["entries"])
    nontriv += sum(1 for c in tmcases if 0 < c["true_entries"] < c["entries"])
    samples = [{"op": e["what"], "ncomp": e["ncomp"], "qntot": e["qntot"], "qnidx": e["qnidx"], "bond_dims": e["bond_dims"], "sigma": e["sigma"]} for e in exports[1:4]]
    return {"evaluations": n_eval, "distinct_nontrivial": nontriv,
            "rule": "one evaluation = one chain or tree result (of a constructor or numerical operation, or a changed operand) whose exported support and labels were decided by the Coq checker, "
                    "or one exact-operation step whose labels were recomputed by the model, or one 1-site/2-site mask compared entry by entry with the model; "
                    "non-trivial = result of an operation (not the constructor) with some bond dimension > 1, or a mask with both true and false entries",
            "samples": samples, "exhaustive": False,
            "input_distribution": {"results_checked": len(exports), "checker_rejections": len(bad_exports), "by_operation": stats["ops"], "sector_mode": stats["sector_mode"],
                                   "label_components": stats["ncomp"], "exact_operation_steps": len(isteps), "exact_label_mismatches": len(label_mism),
                                   "rejected_Mps.random_raised": stats["random_rejected"], "skipped_H_annihilates_state": stats["skipped_H_annihilates_state"],
                                   "implementation_exceptions_not_about_labels": stats["exceptions"],
                                   "tree_results_checked": len(texports), "tree_checker_rejections": len(bad_trees), "tree_by_operation": tstats["ops"],
                                   "tree_cases": tstats["cases"], "tree_oracle_checks_incl_live_objects": tstats["checks"], "tree_sector_mode": tstats["sector_mode"],
                                   "tree_label_components": tstats["ncomp"], "tree_exceptions": tstats["exceptions"], "tree_random_rejected": tstats["random_rejected"],
                                   "tree_masks_compared": len(tmcases), "tree_masks_two_site": sum(1 for c in tmcases if c["two"]), "tree_mask_mismatches": len(bad_tmasks),
                                   "operators_checked (dense invariant + Coq checker + product vs dense)": ostats["operators"], "operator_cases_by_kind": ostats["operator_cases_by_kind"],
                                   "qr_swap_assertions_skipped": ostats["qr_swap_assertions"], "operator_and_product_exports_to_coq": len(oexports),
                                   "copied_basis_models (TI1DModel, non-default sigmaqn)": copy_cases, "multi_component_kernel_cases": ostats["kernel_cases"], "state_averaged_runs": ostats["state_averaged_runs"],
                                   "state_averaged_states": ostats["state_averaged_states"],
                                   "masks_compared": len(mcases), "masks_two_site": sum(1 for c in mcases if c["two"]), "mask_mismatches": len(bad_masks)}}
