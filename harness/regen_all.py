"""Run every translator against the current /repo and rewrite coq/Gen/*.v when the text changed."""
import importlib
import os
import sys
import traceback

sys.path.insert(0, os.path.dirname(os.path.abspath(__file__)))
import common
sys.path.insert(0, os.path.join(common.VERIF, "tx"))

TRANSLATORS = [("rk", "Gen/RkTableaux.v")]


def main():
    ctx = common.Ctx("regen", "quick", 0)
    rc = 0
    for mod, rel in TRANSLATORS:
        try:
            m = importlib.import_module(mod)
            r = m.main(common.REPO)
            text = r[0] if isinstance(r, tuple) else r
            ctx.regen(rel, text)
        except Exception:
            traceback.print_exc()
            rc = 1
    return rc


if __name__ == "__main__":
    sys.exit(main())
