"""Run every translator against the current /repo and rewrite coq/Gen/*.v when the text changed."""
import importlib
import os
import sys
import traceback

sys.path.insert(0, os.path.dirname(os.path.abspath(__file__)))
import common
sys.path.insert(0, os.path.join(common.VERIF, "tx"))
sys.path.insert(0, os.path.join(common.VERIF, "tx"))

# (module under tx/, generated file).  A module's main(repo) returns the Coq text (or a tuple whose first item is it).
TRANSLATORS = [("rk", "Gen/RkTableaux.v")]
# further translators register themselves by dropping a file tx/<name>.py that defines TARGET = "Gen/<X>.v" and main(repo)
for _f in sorted(os.listdir(os.path.join(common.VERIF, "tx"))):
    if _f.endswith(".py") and _f[:-3] not in [t[0] for t in TRANSLATORS]:
        try:
            _m = importlib.import_module(_f[:-3])
            if hasattr(_m, "TARGET") and hasattr(_m, "main"):
                TRANSLATORS.append((_f[:-3], _m.TARGET))
        except Exception:
            traceback.print_exc()


def main():
    ctx = common.Ctx("regen", "quick", 0)
    rc = 0
    for mod, rel in TRANSLATORS:
        try:
            m = importlib.import_module(mod)
            r = m.main(common.REPO)
            text = r[0] if isinstance(r, tuple) else r
            ctx.regen(rel, text)
        except Exception:
            traceback.print_exc()
            rc = 1
    common.write_coq_project()
    return rc


if __name__ == "__main__":
    sys.exit(main())
