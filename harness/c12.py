"""C12: tree tensor network time evolution matches the exact propagator.

1. Coq: Model/TreeSweep.v (explicit-stack machines of _tdvp_ps_forward/_backward, recursive two-site sweeps,
   replay checker, chain order, tdrk4 stage combination), Proofs/TreeSweepProofs.v, Props/C12.v.
2. Event-trace correspondence: TTNS.evolve with tdvp_ps / tdvp_ps2 on random trees with every local kernel,
   gauge move and environment builder wrapped; the logged event sequence must equal the model's
   (vm_compute of the stack machine with the proved fuel bound) and must pass the Coq replay checker
   (centre on the evolved object, every environment read is up to date).  Linear trees: the chain's logged
   local-propagator sequence vs chain_ps and vs the tree sequence under the site map.
3. Dense oracle on the real code (always): all four schemes vs scipy expm (see impl/c12_oracle.py).
"""
import json
import os

import common

HARN = os.path.dirname(os.path.abspath(__file__))


# ----------------------------------------------------------------------------- generators
def gen_shape(rng, n, shape):
    """parent array over nodes 0..n-1 in creation order (parent[i] < i)"""
    if shape == "linear":
        return [-1] + list(range(n - 1))
    if shape == "star":
        return [-1] + [0] * (n - 1)
    if shape == "binary":
        return [-1] + [(i - 1) // 2 for i in range(1, n)]
    if shape == "comb":       # a spine with one leaf hanging off each spine node
        par = [-1]
        spine = 0
        while len(par) < n:
            par.append(spine)          # leaf (or next spine node)
            if len(par) < n:
                par.append(spine)
                spine = len(par) - 1
        return par
    return [-1] + [rng.randrange(0, i) for i in range(1, n)]


def nest(par):
    kids = [[] for _ in par]
    for i, p in enumerate(par):
        if p >= 0:
            kids[p].append(i)

    def rec(i):
        return {"b": [], "c": [rec(k) for k in kids[i]]}

    return rec(0)


def preorder_nodes(desc):
    out = []

    def rec(d):
        out.append(d)
        for c in d["c"]:
            rec(c)

    rec(desc)
    return out


def assign_basis(rng, desc, kind, max_dofs, allow_dummy=True, allow_two=True):
    """fill d['b'] in pre-order; returns list of dof kinds (index = dof id)"""
    nodes = preorder_nodes(desc)
    kinds = []
    budget = max_dofs - len(nodes)      # extra dofs available for two-set nodes
    for idx, d in enumerate(nodes):
        internal = len(d["c"]) >= 1
        r = rng.random()
        if allow_dummy and internal and (len(d["c"]) >= 2 or idx == 0) and r < 0.25 and len(nodes) >= 3:
            d["b"] = []
            budget += 1
            continue
        k = 2 if (allow_two and budget > 0 and r > 0.75) else 1
        if k == 2:
            budget -= 1
        d["b"] = []
        for _ in range(k):
            if kind == "spin":
                x = "s"
            elif kind == "hcb":
                x = "e"
            else:
                x = "e" if (rng.random() < 0.5 or not any(t == "e" for t in kinds)) else rng.choice(["p2", "p3"])
            d["b"].append(x)
            kinds.append(x)
    return kinds


def dy(rng, lo=1, hi=8):
    return rng.choice([-1, 1]) * rng.randrange(lo, hi + 1) / 8.0


def gen_terms(rng, kinds, kind):
    n = len(kinds)
    terms = []
    pairs = [(a, b) for a in range(n) for b in range(a + 1, n)]
    rng.shuffle(pairs)
    chain = [(i, i + 1) for i in range(n - 1)]
    sel = chain + [p for p in pairs if p not in chain][: max(1, n // 2)]
    if kind == "spin":
        for a, b in sel:
            j = dy(rng)        # XX + YY = 2 (s+ s- + s- s+): the tree operator builder rejects complex local matrices
            terms.append(["sigma_+ sigma_-", [a, b], 2 * j])
            terms.append(["sigma_- sigma_+", [a, b], 2 * j])
            terms.append(["sigma_z sigma_z", [a, b], dy(rng)])
        for a in range(n):
            terms.append(["sigma_z", [a], dy(rng)])
            if rng.random() < 0.5:
                terms.append(["sigma_x", [a], dy(rng)])
    elif kind == "hcb":
        for a, b in sel:
            t = dy(rng)
            terms.append([r"a^\dagger a", [a, b], t])
            terms.append([r"a^\dagger a", [b, a], t])
            if rng.random() < 0.5:
                terms.append([r"a^\dagger a a^\dagger a", [a, a, b, b], dy(rng)])
        for a in range(n):
            terms.append([r"a^\dagger a", [a, a], dy(rng)])
    else:
        es = [i for i, k in enumerate(kinds) if k == "e"]
        ps = [i for i, k in enumerate(kinds) if k != "e"]
        for i in range(len(es) - 1):
            t = dy(rng)
            terms.append([r"a^\dagger a", [es[i], es[i + 1]], t])
            terms.append([r"a^\dagger a", [es[i + 1], es[i]], t])
        for e in es:
            terms.append([r"a^\dagger a", [e, e], dy(rng)])
        for p in ps:
            e = rng.choice(es)
            terms.append([r"b^\dagger b", [p], abs(dy(rng, 2, 8))])
            terms.append([r"a^\dagger a x", [e, e, p], dy(rng, 1, 4)])
    return terms


def gen_tree_case(rng, idx, n=None, shape=None, kind=None, max_dofs=7, allow_dummy=True):
    shape = shape or rng.choice(["linear", "binary", "star", "random", "random", "comb"])
    n = n or rng.randrange(3, 8)
    kind = kind or rng.choice(["spin", "hcb", "holstein"])
    for _ in range(50):
        desc = nest(gen_shape(rng, n, shape))
        kinds = assign_basis(rng, desc, kind, max_dofs, allow_dummy=allow_dummy)
        if 2 <= len(kinds) <= max_dofs and (kind != "holstein" or ("e" in kinds)):
            break
    ne = sum(1 for k in kinds if k == "e")
    qntot = 0
    if kind == "hcb":
        qntot = rng.randrange(1, max(2, ne))
    elif kind == "holstein":
        qntot = 1
    return {"id": idx, "tree": desc, "terms": gen_terms(rng, kinds, kind), "qntot": qntot, "model": kind, "shape": shape,
            "n": n, "ndof": len(kinds), "sector": kind in ("hcb", "holstein")}


# ----------------------------------------------------------------------------- Coq rendering
def coq_tree(desc):
    counter = [0]

    def rec(d):
        i = counter[0]
        counter[0] += 1
        return "(Node %d [%s])" % (i, "; ".join(rec(c) for c in d["c"]))

    return rec(desc)


EV_NAMES = {0: "Evolve0", 1: "Evolve1", 2: "Evolve2", 3: "QRUp", 4: "AbsorbUp", 5: "QRDown", 6: "AbsorbDown", 7: "EnvChild",
            8: "EnvParent", 9: "Split2"}


def coq_event(e):
    c, a, b, cc, t = e
    z = "(%d)%%Z" % t
    if c in (0, 1):
        return "%s %d %s" % (EV_NAMES[c], a, z)
    if c == 2:
        return "Evolve2 %d %d %s" % (a, b, z)
    if c in (3, 4):
        return "%s %d %d" % (EV_NAMES[c], a, b)
    if c in (5, 6, 8):
        return "%s %d %d %d" % (EV_NAMES[c], a, b, cc)
    if c == 7:
        return "EnvChild %d" % a
    if c == 9:
        return "Split2 %d %d %s" % (a, b, "true" if cc else "false")
    raise ValueError(e)


PREAMBLE = r"""From Coq Require Import List ZArith Bool.
Import ListNotations.
From RV Require Import Model.TreeSweep.
Local Open Scope Z_scope.
Definition zn (n : nat) : Z := Z.of_nat n.
Definition enc (e : event) : list Z :=
  match e with
  | Evolve0 a t => [0; zn a; 0; 0; t] | Evolve1 a t => [1; zn a; 0; 0; t] | Evolve2 a p t => [2; zn a; zn p; 0; t]
  | QRUp c p => [3; zn c; zn p; 0; 0] | AbsorbUp c p => [4; zn c; zn p; 0; 0]
  | QRDown p i c => [5; zn p; zn i; zn c; 0] | AbsorbDown p i c => [6; zn p; zn i; zn c; 0]
  | EnvChild c => [7; zn c; 0; 0; 0] | EnvParent p i c => [8; zn p; zn i; zn c; 0]
  | Split2 c p b => [9; zn c; zn p; if b then 1 else 0; 0]
  end.
Definition encc (e : cevent) : list Z := match e with CE1 s t => [1; zn s; t] | CE0 b t => [0; zn b; t] end.
Definition b2z (b : bool) : Z := if b then 1 else 0.
(* model trace of one full step: the stack machine run with the proved fuel bound (ps) / the recursion (ps2);
   a leading -1 marks fuel exhaustion, -2 an error flag of the machine *)
Definition model_ps (T : tree) : list Z :=
  match ps_step_machine (fuel_bound T) 1 T with
  | Some (l, false) => flat_map enc l
  | Some (_, true) => [-2]
  | None => [-1]
  end.
Definition model_ps2 (T : tree) : list Z := flat_map enc (ps2_step 1 T).
"""


# ----------------------------------------------------------------------------- the check
def run(ctx):
    rng = ctx.rng
    quick = ctx.tier == "quick"
    ctx.trusted += [
        "hand-written model coq/Model/TreeSweep.v of the loop skeletons of tn/time_evolution.py (no translator: the loops mix"
        " NumPy objects and control flow; tied by exact event-trace correspondence instead)",
        "event loggers harness/impl/c12_trace.py (wrappers around evolve_0site/1site/2site, expm_krylov, decompose_*/merge_*,"
        " update_2site, TTNEnviron.build_*_environ_node, Mps-side expm_krylov), the print_tree stub, CPython/NumPy/SciPy/opt_einsum",
        "modelled, not verified: accuracy of the TDVP schemes below full bond dimension, VMF regularised inverse, Krylov/ODE"
        " solver convergence, SVD truncation in the two-site and propagate-and-compress schemes, binary64 rounding",
        "dense oracle harness/impl/c12_oracle.py is NOT in the trusted base of any theorem (failing-input search only)",
    ]
    ctx.assumptions += [
        "C12_tree_ps_norm_conserved / C12_tree_ps_energy_conserved: contract of the local kernels (a local propagation applied"
        " at the orthogonality centre with up-to-date environments is an isometry / conserves <H>) is a Section hypothesis",
        "C12_tdrk4_poly: K-module laws and homogeneity of H are Section hypotheses; compressed_sum is exact addition (sufficient bond dimension)",
    ]
    # ---- 1. Coq
    ok_build, log = ctx.coq_make(["Proofs/TreeSweepProofs.vo"])
    ok_props = False
    if ok_build:
        ok_props, log = ctx.props("Props/C12.v")
    else:
        ctx.obligations.append({"name": "C12 (build of Model/TreeSweep.v + Proofs/TreeSweepProofs.v)", "file": "Proofs/TreeSweepProofs.v",
                                "ok": False, "assumptions": None})
    # ---- 2. event traces
    n_trace = 36 if quick else 240
    cases = []
    shapes = ["linear", "binary", "star", "random", "comb", "random"]
    for i in range(n_trace):
        c = gen_tree_case(rng, i, n=3 + (i % 5), shape=shapes[i % len(shapes)], max_dofs=9)
        c["method"] = ["ps", "ps2"][(i + i // len(shapes)) % 2]      # every shape meets both schemes
        step = rng.choice([0.25, 0.125, 0.0625, 0.5])
        c["tau"] = [0.0, -step] if i % 5 == 3 else [step, 0.0]
        c["m"] = rng.choice([2, 3, 4])
        cases.append(c)
    # a two-node tree and a deep chain are always present
    for j, (n, shape) in enumerate([(2, "linear"), (7, "linear"), (7, "star"), (2, "linear")]):
        c = gen_tree_case(rng, n_trace + j, n=n, shape=shape, kind="spin", max_dofs=9, allow_dummy=False)
        c["method"] = "ps" if j < 3 else "ps2"
        c["tau"] = [0.125, 0.0]
        c["m"] = 2
        cases.append(c)
    # purified states (auxiliary space): same schedule expected; real and imaginary time, both schemes
    base = len(cases)
    for j in range(6 if quick else 24):
        c = gen_tree_case(rng, base + j, n=2 + (j % 4), shape=["linear", "star", "random", "binary"][j % 4],
                          kind=["spin", "hcb"][j % 2], max_dofs=6, allow_dummy=(j % 3 == 0))
        c["method"] = ["ps", "ps2"][(j // 2) % 2]
        c["tau"] = [0.0, -0.125] if j % 2 else [0.125, 0.0]
        c["m"] = rng.choice([2, 3])
        c["aux"] = True
        cases.append(c)
    # tiny trees in a particle-number sector: the local Krylov spaces are exhausted after 1-3 vectors
    base = len(cases)
    for j in range(4 if quick else 12):
        c = gen_tree_case(rng, base + j, n=2 + (j % 2), shape="linear" if j % 4 < 2 else "star", kind=["hcb", "holstein"][(j // 2) % 2],
                          max_dofs=4, allow_dummy=False)
        c["method"] = ["ps", "ps2"][j % 2]
        c["tau"] = [0.25, 0.0] if j % 3 else [0.0, -0.25]
        c["m"] = 4
        cases.append(c)
    chain_cases = []
    for i in range(8 if quick else 40):
        n = 2 + (i % 5)
        kind = ["spin", "hcb"][i % 2]
        kinds = ["s" if kind == "spin" else "e"] * n
        chain_cases.append({"n": n, "kinds": kinds, "terms": gen_terms(rng, kinds, kind), "dt": rng.choice([0.25, 0.125]),
                            "m": rng.choice([2, 4]), "qntot": 0 if kind == "spin" else 1,
                            "centre": "left" if i % 4 != 3 else "right", "solver": "krylov"})
    # the logger is sequential: shard the cases over processes (each shard has its own deterministic NumPy seeds)
    tseed = rng.randrange(2**31)
    nsh = 4 if quick else 16
    tshards = [{"seed": tseed + k, "cases": cases[k::nsh], "chain_cases": chain_cases[k::nsh]} for k in range(nsh)]
    tres = ctx.impl_par("c12_trace.py", tshards, timeout=3000, par=16)
    res, out = {"tree": [None] * len(cases), "chain": [None] * len(chain_cases)}, ""
    for k, (rc_, r_, o_) in enumerate(tres):
        if r_ is None:
            res, out = None, (o_ or "")
            break
        res["tree"][k::nsh] = r_["tree"]
        res["chain"][k::nsh] = r_["chain"]
    corr_bad = []
    n_eval = 0
    nontriv = set()
    samples = []
    hist = {}
    if res is None:
        corr_bad.append({"what": "trace script failed", "out": out[-1500:]})
    elif ok_build:
        lines = [PREAMBLE]
        for i, (c, r) in enumerate(zip(cases, res["tree"])):
            if "error" in r:
                corr_bad.append({"what": "implementation raised on a tree case", "case": c["id"], "error": r["error"], "tb": r["tb"],
                                 "run_case": {"kind": "run", "id": c["id"], "tree": c["tree"], "terms": c["terms"], "qntot": c.get("qntot", 0),
                                              "method": c["method"], "tau": c["tau"], "m": c["m"], "aux": bool(c.get("aux")), "np_seed": r.get("np_seed")}})
                continue
            T = coq_tree(c["tree"])
            lines.append("Definition T%d := %s." % (i, T))
            lines.append("Definition I%d : list event := [%s]." % (i, "; ".join(coq_event(e) for e in r["events"])))
            lines.append("Eval vm_compute in (%s T%d)." % ("model_ps" if c["method"] == "ps" else "model_ps2", i))
            lines.append("Eval vm_compute in ([b2z (replay_ok T%d I%d); first_bad T%d (cinit T%d) I%d 0; zn (length I%d)])." % (i, i, i, i, i, i))
        for i, (c, r) in enumerate(zip(chain_cases, res["chain"])):
            if "error" in r:
                corr_bad.append({"what": "implementation raised on a chain case", "case": i, "error": r["error"], "tb": r["tb"]})
                continue
            lines.append("Eval vm_compute in (flat_map encc (chain_ps %d %d %s 1))." % (c["n"], r["qnidx0"], "true" if r["to_right0"] else "false"))
            lines.append("Eval vm_compute in (flat_map encc (flat_map (to_chain %d) (ps_step 1 (linear %d))))." % (c["n"], c["n"]))
        rc2, out2 = ctx.coq_eval("traces", "\n".join(lines) + "\n", timeout=600)
        lists = common.parse_Z_lists(out2) if rc2 == 0 else None
        if lists is None:
            corr_bad.append({"what": "model evaluation failed", "out": out2[-1500:]})
        else:
            pos = 0
            for i, (c, r) in enumerate(zip(cases, res["tree"])):
                if "error" in r:
                    continue
                model, flags = lists[pos], lists[pos + 1]
                pos += 2
                impl_flat = [x for e in r["events"] for x in e]
                n_eval += 1
                key = (c["shape"], c["n"], c["method"], ("imag" if c["tau"][1] else "real") + ("/aux" if c.get("aux") else ""))
                hk = "%s/%s%s%s" % (c["shape"], c["method"], "/imag" if c["tau"][1] else "", "/aux" if c.get("aux") else "")
                hist[hk] = hist.get(hk, 0) + 1
                bad = None
                if not r["ids_ok"]:
                    bad = "node numbering of the implementation is not the pre-order of the case"
                elif model != impl_flat:
                    k = next((j for j in range(min(len(model), len(impl_flat))) if model[j] != impl_flat[j]), min(len(model), len(impl_flat)))
                    bad = "event sequence differs at event %d: model %s, implementation %s" % (
                        k // 5, model[5 * (k // 5): 5 * (k // 5) + 5], impl_flat[5 * (k // 5): 5 * (k // 5) + 5])
                elif not r["coeff_ok"]:
                    bad = "coeff passed to the local kernels is not -1j (real time) / 1 (imaginary time)"
                elif r["bad"]:
                    bad = "; ".join(r["bad"])
                elif flags[0] != 1:
                    bad = "implementation trace fails the replay checker (centre / environment freshness) at event %d of %d" % (flags[1], flags[2])
                if bad:
                    corr_bad.append({"what": bad, "case": {k2: c[k2] for k2 in ("id", "tree", "method", "tau", "m", "shape")}})
                else:
                    nontriv.add((json.dumps(c["tree"]["c"] and [len(x["c"]) for x in preorder_nodes(c["tree"])]), c["method"], key[3]))
                    if len(samples) < 2:
                        samples.append({"tree": T, "method": c["method"], "tau": c["tau"], "events": len(r["events"]),
                                        "first_events": r["events"][:6]})
            for i, (c, r) in enumerate(zip(chain_cases, res["chain"])):
                if "error" in r:
                    continue
                mchain, mtree = lists[pos], lists[pos + 1]
                pos += 2
                n_eval += 1
                ichain = []
                for kind_, imps, tr_, _, t in r["chain_events"]:
                    if kind_ == 1:
                        ichain += [1, imps, t]
                    else:
                        ichain += [0, imps if tr_ else imps - 1, t]
                itree = []
                for e in r["tree_events"]:
                    if e[0] == 1:
                        itree += [1, c["n"] - 1 - e[1], e[4]]
                    elif e[0] == 0:
                        itree += [0, c["n"] - 1 - e[1], e[4]]
                bad = None
                if r["bad"]:
                    bad = "; ".join(r["bad"])
                elif ichain != mchain:
                    bad = "chain local-propagator sequence differs from chain_ps: impl %s model %s" % (ichain[:30], mchain[:30])
                elif itree != mtree:
                    bad = "linear-tree sequence (site-mapped) differs from the model: impl %s model %s" % (itree[:30], mtree[:30])
                elif r["to_right0"] and r["qnidx0"] == 0 and itree != ichain:
                    bad = "linear tree and chain sequences differ under the site map"
                elif (not r["to_right0"]) and sorted(zip(*[iter(itree)] * 3)) != sorted(zip(*[iter(ichain)] * 3)):
                    bad = "linear tree and chain (centre at the right end) do not perform the same multiset of local steps"
                elif r["state_diff"] is not None and r["to_right0"] and r["state_diff"] > 1e-7:
                    bad = "linear tree and chain states differ by %g after one step with the same sequence" % r["state_diff"]
                if bad:
                    corr_bad.append({"what": bad, "chain_case": c})
                else:
                    nontriv.add(("chain", c["n"], c["centre"]))
                    if len(samples) < 3 and c["n"] >= 3:
                        samples.append({"chain_n": c["n"], "centre": c["centre"], "chain_events": r["chain_events"][:5],
                                        "state_diff": r["state_diff"]})
            if pos != len(lists):
                corr_bad.append({"what": "unexpected number of values printed by the model evaluation", "got": len(lists), "used": pos})
    # ---- 3. dense oracle (always)
    ocases = []
    oid = [1000]

    def add(c):
        c["id"] = oid[0]
        oid[0] += 1
        ocases.append(c)

    n_exact = 8 if quick else 40
    for i in range(n_exact):
        kind = ["spin", "hcb", "holstein"][i % 3]
        shape = ["binary", "random", "star", "linear", "comb"][i % 5]
        n_ = rng.randrange(3, 6 if quick else 7)
        if shape == "star":            # the root tensor of a star grows exponentially with its degree (pc, two-site): keep it cheap
            n_ = min(n_, 4)
        c = gen_tree_case(rng, 0, n=n_, shape=shape, kind=kind, max_dofs=5 if quick else 7)
        c.update({"kind": "exact", "methods": ["ps", "ps2", "pc", "vmf"] if i % 2 == 0 or not quick else ["ps", "ps2", "pc"],
                  "imag": [False, True], "steps": [0.2, 0.1, 0.05, 0.02], "vmf_steps": [0.1, 0.02], "nsteps": 3})
        add(c)
    c = gen_tree_case(rng, 0, n=2, shape="linear", kind="spin", max_dofs=4, allow_dummy=False)
    c.update({"kind": "exact", "methods": ["ps", "ps2", "pc", "vmf"], "imag": [False, True], "steps": [0.2, 0.1, 0.05, 0.02],
              "vmf_steps": [0.1, 0.02], "nsteps": 4})
    add(c)
    for i in range(6 if quick else 30):
        kind = ["hcb", "spin", "holstein"][i % 3]
        shape = ["random", "binary", "star", "linear", "comb"][i % 5]
        n_ = rng.randrange(4, 8)
        if shape == "star":
            n_ = min(n_, 5)
        c = gen_tree_case(rng, 0, n=n_, shape=shape, kind=kind, max_dofs=7)
        c.update({"kind": "small", "m": 2, "step": rng.choice([0.1, 0.05]), "nsteps": 5})
        add(c)
    for i in range(5 if quick else 20):
        n = 3 + (i % 4)
        kind = ["spin", "hcb"][i % 2]
        kinds = ["s" if kind == "spin" else "e"] * n
        full = i % 3 != 2
        add({"kind": "chain", "n": n, "kinds": kinds, "terms": gen_terms(rng, kinds, kind), "qntot": 0 if kind == "spin" else 1,
             "m": 64 if full else 2, "methods": ["ps", "ps2", "pc", "vmf"] if full else ["ps"], "imag": [False, True],
             "steps": [0.1, 0.02]})
    for i in range(4 if quick else 16):
        kind = ["spin", "hcb"][i % 2]
        c = gen_tree_case(rng, 0, n=rng.randrange(2, 4), shape=["linear", "star", "random"][i % 3], kind=kind, max_dofs=3)
        c.update({"kind": "aux", "methods": ["ps", "ps2", "pc"] + (["vmf"] if i == 0 else []), "imag": [False, True], "step": 0.1})
        add(c)
    for i in range(2 if quick else 8):
        kind = ["spin", "hcb"][i % 2]
        c = gen_tree_case(rng, 0, n=rng.randrange(2, 5), shape=["random", "linear", "star"][i % 3], kind=kind, max_dofs=4)
        c.update({"kind": "coeff", "methods": ["ps", "ps2", "pc", "vmf"], "imag": [False, True], "step": 0.05,
                  "coeffs": [[2.0, 0.0], [0.0, 0.5]] if i % 2 == 0 else [[-0.25, 0.0], [1.5, -2.0]]})
        add(c)
    # tiny trees in a number sector: local invariant blocks of dimension 1..6 (Lanczos stops by exhaustion of the Krylov space)
    for i in range(3 if quick else 12):
        c = gen_tree_case(rng, 0, n=2 + (i % 2), shape="linear" if i % 3 else "star", kind=["hcb", "holstein", "hcb"][i % 3], max_dofs=4,
                          allow_dummy=False)
        c.update({"kind": "exact", "methods": ["ps", "ps2"], "imag": [False, True], "steps": [0.4, 0.2, 0.1], "nsteps": 3})
        add(c)
    # non-uniform per-bond limits (compress_config.max_dims): exact bond dimensions, and exact + random slack
    for i in range(3 if quick else 12):
        # spin models: without a quantum number the exact bond dimension is min(dim subtree, dim rest)
        c = gen_tree_case(rng, 0, n=rng.randrange(4, 7), shape=["random", "binary", "comb", "linear"][i % 4], kind="spin", max_dofs=6,
                          allow_dummy=False)
        c.update({"kind": "caps", "methods": ["ps2", "pc"], "criteria": ["fixed", "both"], "imag": [False, True], "step": 0.05, "nsteps": 3,
                  "extra": None if i % 2 == 0 else [rng.randrange(0, 3) for _ in range(c["n"])]})
        add(c)
    # SCALE / homogeneity stream: the norm of the state in the tensors (1e-12 .. 1e6, real and complex) or in coeff, normalize=False,
    # a step with step*||H|| = 8 (local Krylov spaces need more than 7 vectors) and a small one, every scheme, real and imaginary time
    scales = [["tensor", [1.0, 0.0]], ["tensor", [1e-12, 0.0]], ["tensor", [1e-9, 0.0]], ["tensor", [1e-6, 0.0]], ["tensor", [1e6, 0.0]],
              ["tensor", [0.6e-9, 0.8e-9]], ["coeff", [1e-9, 0.0]], ["coeff", [0.0, 1e6]]]
    for i in range(2 if quick else 6):
        c = gen_tree_case(rng, 0, n=6, shape=["binary", "random", "comb"][i % 3], kind="spin", max_dofs=6, allow_dummy=False)
        c.update({"kind": "scale", "methods": ["ps", "ps2"], "imag": [False, True], "xbig": 8.0, "small": 0.05, "scales": scales})
        add(c)
        if i % 2 == 0:
            c2 = dict(c)
            c2.update({"methods": ["pc", "vmf"], "xbig": None, "scales": [scales[0], scales[2], scales[4], scales[5], scales[6], scales[7]]})
            add(c2)
    # bonds of dimension exactly 1: product states under a non-interacting H, and one entangled parent-child pair with
    # uncoupled spectator subtrees; phase-sensitive comparison, all schemes
    for i in range(3 if quick else 9):
        n_ = rng.randrange(3, 6)
        par = gen_shape(rng, n_, ["random", "binary", "linear", "star"][i % 4])
        desc = nest(par)
        for d in preorder_nodes(desc):
            d["b"] = ["s"]
        # pre-order id of every node = its dof id (one spin per node); pick a parent-child pair
        ids_, kids_ = {}, []
        def _walk(d, p, acc=ids_):
            me = len(acc); acc[id(d)] = me
            if p is not None:
                kids_.append((p, me))
            for ch in d["c"]:
                _walk(ch, me)
        _walk(desc, None)
        terms = []
        for a in range(n_):
            terms.append(["sigma_z", [a], (rng.randrange(3, 9)) / 8.0])       # all positive: <H> of the all-up state is large
            terms.append(["sigma_x", [a], dy(rng)])
        pair = None
        if i % 3 != 0:
            pair = list(kids_[rng.randrange(len(kids_))])
            terms.append(["sigma_z sigma_z", pair, dy(rng)])
            terms.append(["sigma_x sigma_x", pair, dy(rng)])
        add({"kind": "bond1", "tree": desc, "terms": terms, "pair": pair, "methods": ["vmf", "ps", "ps2", "pc"], "imag": [False, True],
             "step": 0.25 if pair is None else 0.125, "nsteps": 3, "shape": "bond1", "n": n_})
    # one case per process (start-up ~3 s each); generous time-out: a loaded machine must not look like a hang
    shards = [{"seed": ctx.seed, "cases": [c]} for c in ocases]
    ores = ctx.impl_par("c12_oracle.py", shards, timeout=3000, par=16)
    oracle_fail = []
    oracle_runs = 0
    ostats = {"exact": 0, "small": 0, "chain": 0, "aux": 0, "coeff": 0, "run": 0, "caps": 0, "scale": 0, "bond1": 0}
    worst = {}
    regimes = {"exact_complete": 0, "second_order_after_bond_shrink": 0}
    ratios = {}
    by_id = {c["id"]: c for c in ocases}
    for (rc_, r_, out_), sh in zip(ores, shards):
        if r_ is None:
            oracle_fail.append({"what": "oracle script failed or timed out", "out": (out_ or "")[-1200:], "cases": [c["id"] for c in sh["cases"]]})
            continue
        for item in r_:
            oracle_runs += 1
            ostats[item["kind"]] += 1
            st = item.get("stats", {})
            for k_, v_ in (st.get("hom") or {}).items():
                worst["scale:hom:" + k_.split("/")[0]] = max(worst.get("scale:hom:" + k_.split("/")[0], 0.0), v_)
            for k_, v_ in (st.get("errs") or {}).items():
                mx = max(v_) if isinstance(v_, list) else v_
                key = item["kind"] + ":" + k_.split("/")[0] + ("/history" if k_.endswith("history") else "")
                worst[key] = max(worst.get(key, 0.0), mx)
            for k_ in ("norm_drift", "energy_drift"):
                if k_ in st:
                    worst[k_] = max(worst.get(k_, 0.0), st[k_])
            for k_, v_ in (st.get("diffs") or {}).items():
                worst["chain:" + k_.split("/")[0]] = max(worst.get("chain:" + k_.split("/")[0], 0.0), v_)
            if item["kind"] == "exact":
                for m_, rs_ in (st.get("halving_ratios") or {}).items():
                    ratios.setdefault(m_, []).extend(rs_)
                regimes["exact_complete" if not st.get("ps_shrunk") else "second_order_after_bond_shrink"] += 1
            if item["kind"] == "small" and "reversal_dev" in st:
                k_ = "reversal_chain" if st.get("chain") else "reversal_branching(informational)"
                worst[k_] = max(worst.get(k_, 0.0), st["reversal_dev"])
            if item["kind"] == "small" and not st.get("truncated", True):
                ctx.notes.append("small-bond case %s was not actually truncated" % item["id"])
            for f in item["fails"]:
                oracle_fail.append({"case": by_id[item["id"]], "fail": f})
    ctx.notes.append("error ratio on halving the step (incomplete tangent projector; 8 = locally third order, 4 = locally second order): "
                     + json.dumps({k: [float("%.3g" % min(v)), float("%.3g" % max(v))] for k, v in sorted(ratios.items())}))
    ctx.notes.append("oracle worst deviations: " + json.dumps({k: float("%.3g" % v) for k, v in sorted(worst.items())}))
    # ---- 4. verdict
    lib_src = open(os.path.join(HARN, "impl", "c12_lib.py")).read()
    orc_src = open(os.path.join(HARN, "impl", "c12_oracle.py")).read()

    def repro_for(case):
        return ("import sys, types, json\n"
                "lib = types.ModuleType('c12_lib'); exec(compile(%r, 'c12_lib', 'exec'), lib.__dict__); sys.modules['c12_lib'] = lib\n"
                "orc = types.ModuleType('c12_oracle_mod'); exec(compile(%r, 'c12_oracle', 'exec'), orc.__dict__)\n"
                "r = orc.check_case(json.loads(%r), %d)\n"
                "print(json.dumps(r['fails'], indent=1)[:3000])\n"
                "sys.exit(1 if r['fails'] else 0)\n" % (lib_src, orc_src, json.dumps(case), ctx.seed))

    if not (ok_build and ok_props):
        ctx.violation("coq-build", "theorem(s) of Props/C12.v: " + ", ".join(o["name"] for o in ctx.obligations if not o["ok"]),
                      {"coq_log_tail": (log or "")[-2000:]}, found=False)
    classes = {}
    for f in oracle_fail:
        if "fail" in f:
            w = f["fail"].get("what", "?")
            meth = f["fail"].get("method", "")
            key = "oracle:" + w.split(" (")[0].replace(" ", "-")[:60] + ((":" + meth) if meth else "")
        else:
            key = "oracle:script"
        classes.setdefault(key, []).append(f)
    have_input = None
    for key, fl in sorted(classes.items()):
        f0 = fl[0]
        if "case" in f0:
            have_input = have_input or f0
            ctx.violation(key, "dense oracle: " + f0["fail"].get("what", "") + (" [also breaks the trace correspondence]" if corr_bad else ""),
                          {"n_failures": len(fl), "first": f0["fail"], "case": f0["case"]}, found=True, repro=repro_for(f0["case"]))
        else:
            ctx.violation(key, "dense oracle could not run", f0, found=False)
    if corr_bad:
        kinds_ = {}
        for b in corr_bad:
            k = b["what"].split(" at event")[0].split(":")[0][:70]
            kinds_.setdefault(k, []).append(b)
        for k, bl in sorted(kinds_.items()):
            # the trace mismatch itself is a failing input of the correspondence; a dense failing input, if any, was reported above.
            # A case on which the implementation raised IS a concrete failing input: confirm it stand-alone and attach the repro
            found, repro, first = False, None, bl[0]
            for b in bl[:4]:
                if "run_case" in b:
                    rc_, r_, _ = ctx.impl("c12_oracle.py", {"seed": ctx.seed, "cases": [b["run_case"]]}, timeout=900)
                    if r_ and r_[0]["fails"]:
                        found, repro, first = True, repro_for(b["run_case"]), dict(b, confirmed=r_[0]["fails"][0])
                        break
            ctx.violation("trace:" + k.replace(" ", "-"), "correspondence event-trace (Model/TreeSweep.v vs tn/time_evolution.py): " + bl[0]["what"],
                          {"n": len(bl), "first": first}, found=found, repro=repro)
    dist = {"trace_cases": hist, "oracle_cases": ostats, "chain_trace_cases": len(chain_cases), "projector_splitting_regimes": regimes}
    return {"evaluations": n_eval + oracle_runs, "distinct_nontrivial": len(nontriv),
            "rule": "a trace case counts once per distinct (children-count profile in pre-order, scheme, real/imag) whose logged event sequence"
                    " equals the model's exactly and passes the Coq replay checker; chain cases per (n, centre); oracle cases are counted in evaluations only",
            "samples": samples[:3], "exhaustive": False, "input_distribution": dist,
            "oracle_worst": {k: float("%.3g" % v) for k, v in sorted(worst.items())}}
