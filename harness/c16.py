"""C16: built-in basis sets and model builders realise their documented physics."""
import json
import math
import os
import sys
import time
from fractions import Fraction

import common
sys.path.insert(0, os.path.join(common.VERIF, "tx"))
import shotable as txsho
import builders as txbld
import basiscopy as txcopy
import c16_bld

NDUMP = 12          # size of the model matrices evaluated in Coq (top-left blocks serve all nbas <= NDUMP)
KMAX = 6            # powers x^k, p^k compared for k = 0..KMAX

CANON_SPIN = ["I", "sigma_x", "sigma_y", "sigma_z", "isigma_y", "sigma_+", "sigma_-"]
ALL_SPIN = ["I", "sigma_x", "X", "x", "sigma_y", "Y", "y", "isigma_y", "iY", "iy", "sigma_z", "Z", "z", "sigma_-", "-", "sigma_+", "+"]
SECOND_QUANT = ["b", "b b", r"b^\dagger", r"b^\dagger b^\dagger", r"b^\dagger+b", r"b^\dagger-b", r"b^\dagger b", r"b b^\dagger", "n"]
MALFORMED_SHO = ["q", "b b b", "x^1.5"]
SINE_CASES = [[4, 0.0, 1.0], [6, -1.3, 2.1], [5, 0.5, 4.0]]

ALIASES = {"x x": ("table", "x^2"), "p p": ("table", "p^2"), "partialx": ("table", "dx"), "x partialx": ("table", "x dx"),
           "partialx x": ("table", "dx x"), "partialx^2": ("table", "dx^2"), r"b^\dagger + b": ("table", r"b^\dagger+b"),
           "x x x": ("xpow", 3), "p p p": ("ppow", 3)}


def cstr(s):
    return '"' + s.replace('"', '""') + '"'


# --------------------------------------------------------------------------------------------- Coq side
def eval_text(table_syms, spin_words):
    L = ["From Coq Require Import QArith ZArith List String Bool.", "Import ListNotations.",
         "From RV Require Import Model.Ladder Model.Pauli Model.SineDvr Gen.ShoTable.", "Close Scope Q_scope.", "Open Scope string_scope.", "Open Scope list_scope.",
         "Definition b2z (b : bool) : Z := if b then 1%Z else 0%Z."]
    # E0 booleans
    L.append("Eval vm_compute in (map (fun p => b2z (product_check sho_table p)) product_symbols ++ map (fun p => b2z (sum_check sho_table p)) sum_symbols"
             " ++ map (fun p => b2z (scalar_check sho_table p)) scalar_symbols ++ [b2z (commutator_check sho_table)]"
             " ++ map (fun s => b2z (shift_check sho_table sho_table_x0 s)) shift_symbols ++ map (fun s => b2z (dvr_check sho_dvr s)) dvr_frame_symbols).")
    # E1 plain table
    L.append("Eval vm_compute in (flat_map (fun p => key_list (fst (snd p)) ++ dump %d (rmat (snd p))) sho_table)." % NDUMP)
    # E2 x0 table
    L.append("Eval vm_compute in (flat_map (fun p => Z.of_nat (List.length (snd p)) :: flat_map (fun tm => Z.of_nat (fst (fst tm)) :: key_list (snd (fst tm))"
             " ++ dump %d (rmat (snd (fst tm), snd tm))) (snd p)) sho_table_x0)." % NDUMP)
    # E3 dvr kinds
    L.append("Eval vm_compute in (map (fun p => match snd p with DvrNone => 0%Z | DvrRotate => 1%Z | DvrMixed => 2%Z | DvrDiagPow k => (10 + Z.of_nat k)%Z end) sho_dvr).")
    # E4/E5 powers, E6 formula
    L.append("Eval vm_compute in (flat_map (fun k => dump %d (mpow_memo 24 Xr k)) (seq 0 %d))." % (NDUMP, KMAX + 1))
    L.append("Eval vm_compute in (flat_map (fun k => dump %d (mpow_memo 24 Dr k)) (seq 0 %d))." % (NDUMP, KMAX + 1))
    L.append("Eval vm_compute in (flat_map (fun k => dump 10 (fun m n => xpow_rat k m n)) (seq 0 7)).")
    # E7 spin words
    words = "[" + "; ".join("[" + "; ".join(cstr(s) for s in w) + "]" for w in spin_words) + "]"
    L.append("Eval vm_compute in (flat_map (fun w => match spin_word w with Some m => 1%Z :: flat_m2 m | None => [0%Z] end) " + words + ").")
    # E8 sine
    L.append("Eval vm_compute in (flat_map (dump1 6) [du_c; u_a; u_b; uu_a; uu_b; udu_c; uudu_a; uudu_b; p2_c]).")
    # E9 hops, E10 electrons
    L.append("Eval vm_compute in (dump 6 hops_bd ++ dump 6 hops_b).")
    L.append("Eval vm_compute in (flat_map (fun i => dump 4 (mev_create i) ++ dump 4 (mev_annih i)) (seq 0 3)"
             " ++ flat_map (fun i => flat_map (fun j => dump 4 (mev_hop i j) ++ dump 3 (me_hop i j)) (seq 0 3)) (seq 0 3)).")
    return "\n".join(L) + "\n"


class Reader:
    def __init__(self, xs):
        self.xs = xs
        self.pos = 0

    def z(self):
        v = self.xs[self.pos]
        self.pos += 1
        return v

    def q(self):
        n, d = self.xs[self.pos], self.xs[self.pos + 1]
        self.pos += 2
        return Fraction(n, d)

    def mat(self, n):
        return [[self.q() for _ in range(n)] for _ in range(n)]

    def done(self):
        return self.pos == len(self.xs)


def sqrt_fact_ratio(m, n):
    return math.sqrt(math.factorial(m) / math.factorial(n))


def phys(coef, key, omega, N, extra=1.0):
    """rational similarity-picture matrix + prefactor key -> complex NxN list"""
    sw, k2, ki = key
    pref = omega ** (sw / 2.0) * 2.0 ** (k2 / 2.0) * (1j ** ki) * extra
    return [[complex(pref * float(coef[m][n]) * sqrt_fact_ratio(m, n)) for n in range(N)] for m in range(N)]


def madd(a, b):
    return [[x + y for x, y in zip(r, s)] for r, s in zip(a, b)]


def zeros(N):
    return [[0j] * N for _ in range(N)]


def impl_matrix(re, im):
    if im is None:
        return [[complex(x) for x in r] for r in re]
    return [[complex(x, y) for x, y in zip(r, s)] for r, s in zip(re, im)]


def mat_diff(a, b, tol):
    """None or (m, n, impl, expected)"""
    if len(a) != len(b) or any(len(r) != len(s) for r, s in zip(a, b)):
        return ("shape", len(a), len(b), None)
    scale = max([1.0] + [abs(x) for r in b for x in r])
    for m, (r, s) in enumerate(zip(a, b)):
        for n, (x, y) in enumerate(zip(r, s)):
            if not abs(x - y) <= tol * scale:
                return (m, n, x, y)
    return None


def nontrivial(mat):
    n = len(mat)
    off = any(abs(mat[i][j]) > 0 for i in range(n) for j in range(n) if i != j)
    diag = len({round(abs(mat[i][i]), 12) for i in range(n)}) > 1
    return off or diag


# --------------------------------------------------------------------------------------------- repro snippets
def repro_sho_product(d):
    return ('import sys, numpy as np\nfrom renormalizer.model.basis import BasisSHO\n'
            'omega, N, x0, sym, fa, fb = %r, %r, %r, %r, %r, %r\n'
            'b = BasisSHO(0, omega, N, x0=x0); big = BasisSHO(0, omega, N + 2, x0=x0)\n'
            '# the symbol written as a product must be the product of the (untruncated) factors restricted to N levels\n'
            'ref = (np.asarray(big.op_mat(fa)) @ np.asarray(big.op_mat(fb)))[:N, :N]\n'
            'M = np.asarray(b.op_mat(sym))\n'
            'i = np.unravel_index(np.argmax(np.abs(M - ref)), M.shape)\n'
            'print("BasisSHO(omega=%%r, nbas=%%d, x0=%%r).op_mat(%%r)[%%d,%%d] = %%r, expected (op_mat(%%r) @ op_mat(%%r))[%%d,%%d] = %%r" %% (omega, N, x0, sym, i[0], i[1], M[i], fa, fb, i[0], i[1], ref[i]))\n'
            'sys.exit(0 if np.allclose(M, ref, rtol=0, atol=1e-9 * max(1, np.abs(ref).max())) else 1)\n'
            % (d["omega"], d["nbas"], d.get("x0", 0.0), d["symbol"], d["factors"][0].replace("partialx", "dx"), d["factors"][1].replace("partialx", "dx")))


def repro_dvr_frame(d):
    return ('import sys, numpy as np\nfrom renormalizer.model.basis import BasisSHO\n'
            'omega, N, sym = %r, %r, %r\n'
            'bd = BasisSHO(0, omega, N, dvr=True); bp = BasisSHO(0, omega, N); V = bd.dvr_v\n'
            '# x and p of bd are in the DVR frame (V^T . V); a product symbol must be in the same frame\n'
            'M, ref = np.asarray(bd.op_mat(sym)), V.T @ np.asarray(bp.op_mat(sym)) @ V\n'
            'x, p = np.asarray(bd.op_mat("x")), np.asarray(bd.op_mat("p"))\n'
            'print("dvr=True:", sym, "in DVR frame:", np.allclose(M, ref), " x frame ok:", np.allclose(x, V.T @ np.asarray(bp.op_mat("x")) @ V), " p frame ok:", np.allclose(p, V.T @ np.asarray(bp.op_mat("p")) @ V))\n'
            'sys.exit(0 if np.allclose(M, ref, rtol=0, atol=1e-9) else 1)\n' % (d["omega"], d["nbas"], d["symbol"]))


def repro_power(d):
    sym = d["symbol"]
    return ('import sys, numpy as np\nfrom renormalizer.model.basis import BasisSHO\n'
            'omega, N, x0, sym = %r, %r, %r, %r\n'
            'base, k = (sym.split("^") + ["1"])[:2] if " " not in sym else (sym[0], str(len(sym.split())))\n'
            'k = int(k)\n'
            'b = BasisSHO(0, omega, N, x0=x0); big = BasisSHO(0, omega, N + k + 1, x0=x0)\n'
            'ref = np.linalg.matrix_power(np.asarray(big.op_mat(base)), k)[:N, :N]\n'
            'M = np.asarray(b.op_mat(sym))\n'
            'print(sym, "max deviation from the k-th power of the exact operator:", np.abs(M - ref).max())\n'
            'sys.exit(0 if np.allclose(M, ref, rtol=0, atol=1e-9 * max(1, np.abs(ref).max())) else 1)\n' % (d["omega"], d["nbas"], d.get("x0", 0.0), sym))


def repro_oracle_class(cls, seed, tier):
    return ('import json, subprocess, sys, os\n'
            '# re-runs the C16 dense oracle (independent NumPy references) and reports the class %r\n'
            'p = subprocess.run([sys.executable, "/verif/harness/impl/c16_oracle.py"], input=json.dumps({"seed": %d, "tier": %r}), capture_output=True, text=True, env=os.environ)\n'
            'res = [json.loads(l[7:]) for l in p.stdout.splitlines() if l.startswith("RESULT ")]\n'
            'bad = [f for f in res[0]["fails"] if f["cls"] == %r] if res else [{"cls": "oracle crashed", "detail": p.stdout[-800:] + p.stderr[-800:]}]\n'
            'print(json.dumps(bad, indent=1)[:3000])\n'
            'sys.exit(1 if bad else 0)\n' % (cls, seed, tier, cls))


def repro_copy(d):
    return ('import sys, numpy as np\nfrom renormalizer.model import basis as B\n'
            'cls, kwargs, sym = %r, %r, %r\n'
            'b = getattr(B, cls)("q", **kwargs)\n'
            '# copy(new_dof) must return the same basis under a new dof name (TI1DModel cells, tree auxiliary space)\n'
            'try:\n    c = b.copy("r")\nexcept Exception as e:\n    print(cls, kwargs, ".copy raised", repr(e)); sys.exit(1)\n'
            'if sym is None:\n    print("copy ok"); sys.exit(0)\n'
            'A, C = np.asarray(b.op_mat(sym)), np.asarray(c.op_mat(sym))\n'
            'print(cls, kwargs, sym, "max |copy - original| =", np.abs(A - C).max())\n'
            'sys.exit(0 if np.allclose(A, C, rtol=0, atol=1e-9 * max(1, np.abs(A).max())) else 1)\n' % (d.get("basis"), d.get("kwargs", {}), d.get("symbol")))


def repro_copy_any(d):
    if d.get("basis") in ("BasisSHO", "BasisSineDVR", "BasisDummy", "BasisHopsBoson") and ("symbol" in d or d.get("what") == "copy raised"):
        return repro_copy(d)
    if d.get("basis") == "BasisSimpleElectron" and "sigmaqn" in d.get("kwargs", {}):
        return ('import sys, numpy as np\nfrom renormalizer.model import basis as B\n'
                'b = B.BasisSimpleElectron("e", sigmaqn=%r); c = b.copy("f")\n'
                'print("sigmaqn", b.sigmaqn.tolist(), "copy", c.sigmaqn.tolist())\n'
                'sys.exit(0 if np.array_equal(b.sigmaqn, c.sigmaqn) else 1)\n' % (d["kwargs"]["sigmaqn"],))
    return None


REPRO = {"sho-product-symbol": repro_sho_product, "sho-x0-product-symbols": repro_sho_product,
         "sho-dvr-unrotated-symbols": repro_dvr_frame, "sho-power": repro_power}

ORACLE_WHAT = {
    "sho-product-symbol": "theorem C16_sho_product_symbols on the real code: a BasisSHO symbol written as a product is not the product of its factors in the written order",
    "sho-x0-product-symbols": "theorem C16_sho_shifted_origin on the real code (product symbols): the branch is not the product of the shifted x with p / dx",
    "sho-dvr-unrotated-symbols": "theorem C16_sho_dvr_frame on the real code: with dvr=True a product symbol is not returned in the frame of op_mat('x'), op_mat('p')",
    "sho-commutator": "theorem C16_sho_commutator on the real code",
    "basis-copy": "theorem C16_copy_forwards on the real code: b.copy(new_dof) is not the same basis (its local matrices differ)",
    "basis-copy-sinedvr-drops-flags": "theorem C16_copy_forwards on the real code (BasisSineDVR): copy does not forward `dvr` / `quadrature`, which op_mat reads",
    "basis-copy-dummy-raises": "theorem C16_copy_forwards on the real code (BasisDummy): copy hands an attribute to the wrong constructor parameter and raises",
    "basis-copy-sigmaqn": "theorem C16_copy_forwards on the real code: copy does not forward the quantum numbers (sigmaqn) of the basis",
    "ti1d-shifted-cell": "TI1DModel with a shifted-origin / DVR unit-cell oscillator does not generate the documented Hamiltonian (per-cell bases are made by copy)",
    "tree-aux-copy": "BasisTree.add_auxiliary_space: the auxiliary (Q) basis is not the same basis as the physical one",
    "sho-power": "position/momentum powers = powers of the exact operators (C16_x_power_partial / oracle)",
    "sho-general-xp-power": "general_xp_power=True agrees with the hard-coded branches",
    "sho-shifted-origin": "theorem C16_sho_shifted_origin on the real code",
    "sho-dvr": "DVR variant = rotation of the plain one (dense oracle)",
    "sinedvr-integral": "sine-DVR matrices = integrals over the analytic basis functions (scipy quad oracle; C16_sinedvr_integrals_partial proves algebraic consequences only)",
}


# --------------------------------------------------------------------------------------------- the check
def run(ctx):
    t0 = time.time()
    ctx.trusted += [
        "translator tx/builders.py (python ast of the term / site loops of TI1DModel, HolsteinModel, SpinBosonModel, heisenberg_ops, construct_j_matrix, Mol.__init__, Phonon.reorganization_energy -> Gallina; fail-closed; non-generating statements compared with a whitelist; numpy helpers np.ones/np.diag/item assignment modelled by np_vec/np_diag/mat_set); exact correspondence of model.ham_terms / model.basis on dyadic parameters (harness/c16_bld.py)",
        "translator tx/basiscopy.py (structural facts about __init__ / copy / op_mat of every BasisSet subclass; the verdict is computed in Coq, Model/BasisCopy.v)",
        "translator tx/shotable.py (python ast of BasisSHO.op_mat -> prefactor + rational combination of ladder monomials; fail-closed; primitive matrices recognised by exact source text)",
        "hand-written models Model/Ladder.v (monomials in the rational picture, shift_spec, xpow_rat), Model/Pauli.v (spin_symbols, unit matrices), Model/SineDvr.v (closed forms): tied by correspondence harness/c16.py + harness/impl/c16_sho.py",
        "float conversion in harness/c16.py: entry = rational * sqrt(m!/n!) * omega^(sw/2) * 2^(k2/2) * i^ki, compared at 1e-12 relative (1e-10 for the general power formula)",
        "dense oracle harness/impl/c16_oracle.py (own ladder matrices, kron, scipy.integrate.quad) -- not in the trusted base of any theorem; it searches failing inputs and alone carries the builder clause and the sine-DVR integrals",
        "modelled, not verified: binary64 rounding; scipy.linalg.eigh in the DVR variant (checked per call by the oracle: V orthogonal, V^T x V diagonal); Quantity unit constants",
    ]
    ctx.assumptions += [
        "omega > 0 real, x0 real; prefactors live in the multiplicative group generated by Q*, sqrt(omega), sqrt(2), i with the multiplication Ladder.sc_mul / normal form sc_rat, sc_key",
        "second-quantised symbols (b, b^dagger, ...) are compared at x0 = 0 only: the source documents (warning) that they do not support a shifted origin",
        "the DVR power x^k is judged against 'up to the documented truncation at the highest level': it equals (truncated x)^k and must agree with the exact power on entries with m+n+k <= 2N-2",
        "builders: term lists / site lists are proved equal to the documented Hamiltonians (all sizes, all parameters); what a term list MEANS as a dense operator (kron of local matrices, C01) and the equality of schemes 1-3 and 4 on the shared 0/1-excitation sector are checked by the dense oracle only",
        "Model.check_operator_terms drops terms whose factor is exactly 0 (documented there): the correspondence filters zero-coefficient terms of the model",
    ]
    broken = []
    detail = {}
    # ---- 1. translator
    tab = None
    try:
        text, tab = txsho.main(common.REPO)
        ctx.regen("Gen/ShoTable.v", text)
    except Exception as e:
        ctx.notes.append("translator tx/shotable.py failed: %r" % (e,))
        broken.append("translator tx/shotable.py: %r" % (e,))
        ctx.obligations.append({"name": "translator tx/shotable.py -> Gen/ShoTable.v", "file": "Gen/ShoTable.v", "ok": False, "assumptions": None})
    bld_ok = False
    try:
        ctx.regen("Gen/Builders.v", txbld.main(common.REPO))
        bld_ok = True
    except Exception as e:
        ctx.notes.append("translator tx/builders.py failed: %r" % (e,))
        broken.append("translator tx/builders.py: %r" % (e,))
        ctx.obligations.append({"name": "translator tx/builders.py -> Gen/Builders.v", "file": "Gen/Builders.v", "ok": False, "assumptions": None})
    copy_ok = False
    try:
        ctx.regen("Gen/BasisCopy.v", txcopy.main(common.REPO)[0])
        copy_ok = True
    except Exception as e:
        ctx.notes.append("translator tx/basiscopy.py failed: %r" % (e,))
        broken.append("translator tx/basiscopy.py: %r" % (e,))
        ctx.obligations.append({"name": "translator tx/basiscopy.py -> Gen/BasisCopy.v", "file": "Gen/BasisCopy.v", "ok": False, "assumptions": None})
    # ---- 2. build + props
    ok_models, log_m = ctx.coq_make(["Gen/ShoTable.vo", "Model/Pauli.vo", "Model/SineDvr.vo"]) if tab is not None else (False, "translator failed")
    ok_bmodels = False
    if bld_ok:
        ok_bmodels, log_b = ctx.coq_make(["Gen/Builders.vo"])
        if not ok_bmodels:
            broken.append("Gen/Builders.v does not compile")
            detail["builders_log_tail"] = log_b[-800:]
    ok_cmodels = False
    if copy_ok:
        ok_cmodels, log_c = ctx.coq_make(["Gen/BasisCopy.vo"])
        if not ok_cmodels:
            broken.append("Gen/BasisCopy.v does not compile")
    ok_build, log = (False, log_m)
    if ok_models and ok_bmodels and ok_cmodels:
        ok_build, log = ctx.coq_make(["Proofs/LadderProofs.vo", "Proofs/PauliProofs.vo", "Proofs/SineDvrProofs.vo", "Proofs/BuildersProofs.vo", "Proofs/BasisCopyProofs.vo"])
    ok_props = False
    if ok_build:
        ok_props, log = ctx.props("Props/C16.v")
        if not ok_props:
            broken.append("theorem(s) of Props/C16.v: " + ", ".join(o["name"] for o in ctx.obligations if not o["ok"]))
    elif tab is not None and bld_ok and copy_ok:
        ctx.obligations.append({"name": "C16 (build of Gen/ShoTable.v, Gen/Builders.v + Proofs/{Ladder,Pauli,SineDvr,Builders}Proofs.v)", "file": "Proofs/LadderProofs.v", "ok": False, "assumptions": None})
        import re as _re
        which = sorted(set(_re.findall(r'File "\./(Proofs/\w+\.v)", line \d+, characters [\d-]+:\s*\n\s*Error', log or "")))
        broken.append("theorems of Props/C16.v (proof files do not compile against the regenerated Gen files%s)" % ((": " + ", ".join(which)) if which else ""))
    detail["coq_log_tail"] = log[-1200:] if isinstance(log, str) else ""
    # ---- 3. correspondence
    rng = ctx.rng
    omegas = [0.25, 1.0, 4.0, 2.25] + [round(rng.uniform(0.002, 0.02), 6), round(rng.uniform(0.3, 3.0), 6), round(rng.uniform(3.0, 30.0), 4)]
    if ctx.tier == "thorough":
        omegas += [round(rng.uniform(0.002, 30.0), 6) for _ in range(5)]
    nbas_list = list(range(1, 13 if ctx.tier == "thorough" else 11))
    table_syms = [e["symbol"] for e in tab] if tab is not None else []
    gen_syms = ["x^%d" % k for k in range(0, KMAX + 1) if k != 2] + ["p^%d" % k for k in range(0, KMAX + 1) if k != 2]
    sho_syms = table_syms + list(ALIASES) + gen_syms + MALFORMED_SHO
    sho_syms_x0 = [s for s in sho_syms if s not in SECOND_QUANT and s != r"b^\dagger + b"]
    gxp_syms = ["x", "x^2", "p", "p^2"]
    spin_words = [[s] for s in ALL_SPIN] + [[a, b] for a in CANON_SPIN for b in CANON_SPIN]
    for _ in range(20):
        spin_words.append([rng.choice(ALL_SPIN) for _ in range(3)])
    spin_words += [["sigma_q"], ["X", "W"]]
    corr_bad = []
    ev = nontriv = 0
    samples = []
    dist = {"sho_plain": 0, "sho_x0": 0, "sho_general_xp_power": 0, "sho_malformed_rejected": 0, "spin_words": 0, "sine_helper_matrices": 0, "electron": 0, "hops": 0, "x_power_k_entries": 0}
    model = None
    if ok_models:
        rc, out = ctx.coq_eval("model", eval_text(table_syms, spin_words))
        lists = common.parse_Z_lists(out) if rc == 0 else []
        if rc != 0 or len(lists) != 11:
            corr_bad.append({"what": "model evaluation failed", "out": out[-800:]})
        else:
            model = parse_model(lists, table_syms, spin_words, corr_bad)
    else:
        corr_bad.append({"what": "model files do not compile", "log": (log_m or "")[-800:]})
    payload = {"omegas": omegas, "x0s": [0.0, 0.5], "nbas": nbas_list, "sho_symbols": sho_syms, "sho_symbols_x0": sho_syms_x0, "gxp_symbols": gxp_syms,
               "spin_words": spin_words, "sine": SINE_CASES, "nel": 3, "hops_nbas": 6}
    rc, res, out = ctx.impl("c16_sho.py", payload, timeout=600)
    if res is None:
        corr_bad.append({"what": "implementation script failed", "out": out[-1500:]})
    if model is not None and res is not None:
        ev, nontriv = correspond(model, res, payload, corr_bad, samples, dist)
        detail["model_flags"] = model["flags"]
    copy_flags = {}
    if ok_cmodels:
        rcc, outc = ctx.coq_eval("copy", "From Coq Require Import List String Bool ZArith.\nImport ListNotations.\nFrom RV Require Import Model.BasisCopy Gen.BasisCopy.\n"
                                 "Eval vm_compute in (map (fun n => match find_class n basis_classes with Some c => if class_ok c then 1%Z else 0%Z | None => (-1)%Z end) all_basis_classes).\n"
                                 "Eval vm_compute in (map (fun c => if existsb (String.eqb (bc_name c)) all_basis_classes then 1%Z else 0%Z) basis_classes).\n")
        ls = common.parse_Z_lists(outc) if rcc == 0 else []
        names = ["BasisSHO", "BasisHopsBoson", "BasisMultiElectron", "BasisMultiElectronVac", "BasisSimpleElectron", "BasisHalfSpin", "BasisSineDVR", "BasisDummy"]
        if len(ls) == 2 and len(ls[0]) == len(names):
            copy_flags = dict(zip(names, ls[0]))
            if not all(ls[1]):
                corr_bad.append({"what": "a BasisSet subclass of the source is not covered by the copy obligation"})
        else:
            corr_bad.append({"what": "copy obligation: model evaluation failed", "out": outc[-600:]})
    # builders: exact correspondence of ham_terms / basis with Gen/Builders.v
    if ok_bmodels:
        ev_b, nt_b = c16_bld.run(ctx, corr_bad, dist, samples)
        ev += ev_b
        nontriv += nt_b
    if corr_bad:
        broken.append("correspondence implementation vs Coq model (%d mismatches; first: %s)" % (len(corr_bad), json.dumps(corr_bad[0], default=str)[:300]))
    detail["correspondence"] = corr_bad[:8]
    # ---- 4. oracle (always)
    rc3, ores, oout = ctx.impl("c16_oracle.py", {"seed": ctx.seed, "tier": ctx.tier}, timeout=1500)
    ofails = []
    if ores is None:
        broken.append("dense oracle crashed")
        detail["oracle_output"] = oout[-1500:]
    else:
        ofails = ores["fails"]
        detail["oracle_checks"] = ores["checks"]
        detail["oracle_nfail"] = ores["nfail"]
    # model-level findings derived from the generated tables
    flags = dict(model["flags"]) if model else {}
    flags["copy_class_false"] = [k for k, v in copy_flags.items() if v != 1]
    detail["copy_class_ok"] = copy_flags
    # ---- 5. report
    reported = set()
    for f in ofails:
        cls, d = f["cls"], f["detail"]
        br = ORACLE_WHAT.get(cls, "dense oracle: " + cls)
        if cls == "sho-product-symbol" and flags.get("product_check_false"):
            br += "; Ladder.product_check is false for " + ", ".join(flags["product_check_false"])
        if cls in ("sho-x0-product-symbols", "sho-shifted-origin") and flags.get("shift_check_false"):
            br += "; Ladder.shift_check false for " + ", ".join(flags["shift_check_false"])
        if cls == "sho-dvr-unrotated-symbols" and flags.get("dvr_none_products"):
            br += "; Ladder.dvr_check false for " + ", ".join(flags["dvr_none_products"])
        if broken:
            br += " || also broken: " + "; ".join(broken)
        rep = REPRO[cls](d) if cls in REPRO else None
        if rep is None and cls.startswith("basis-copy"):
            rep = repro_copy_any(d)
        if rep is None:
            rep = repro_oracle_class(cls, ctx.seed, ctx.tier)
        if cls.startswith("basis-copy") and flags.get("copy_class_false"):
            br += "; Model.BasisCopy.class_ok false for " + ", ".join(flags["copy_class_false"])
        ctx.violation(cls, br, {"failing_input": d, "failures_in_class": ores["nfail"].get(cls), **{k: v for k, v in detail.items() if k in ("model_flags", "correspondence")}},
                      found=True, repro=rep)
        reported.add(cls)
    # broken theorem / translator / correspondence without any failing input on the real code
    if broken and not ofails:
        ctx.violation("c16-model-tie", "; ".join(broken), detail, found=False)
    # model-level flags without an oracle witness
    for cname, key in (("BasisSineDVR", "basis-copy-sinedvr-drops-flags"), ("BasisDummy", "basis-copy-dummy-raises")):
        if cname in flags.get("copy_class_false", []) and key not in reported:
            ctx.violation(key, "Model.BasisCopy.class_ok false for " + cname, detail, found=False)
    prod_shift = [x for x in flags.get("shift_check_false", []) if x in ("x p", "p x", "x dx", "dx x")]
    other_shift = [x for x in flags.get("shift_check_false", []) if x not in prod_shift]
    if prod_shift and "sho-x0-product-symbols" not in reported:
        ctx.violation("sho-x0-product-symbols", "Ladder.shift_check false for " + ", ".join(prod_shift), detail, found=False)
    if other_shift and "sho-shifted-origin" not in reported:
        ctx.violation("sho-shifted-origin", "Ladder.shift_check false for " + ", ".join(other_shift), detail, found=False)
    if flags.get("dvr_none_products") and "sho-dvr-unrotated-symbols" not in reported:
        ctx.violation("sho-dvr-unrotated-symbols", "Ladder.dvr_check false for: " + ", ".join(flags["dvr_none_products"]), detail, found=False)
    ctx.notes.append("oracle checks per class: %s" % (json.dumps(ores["checks"]) if ores else "crashed"))
    ctx.notes.append("wall: %.1fs" % (time.time() - t0))
    return {"evaluations": ev, "distinct_nontrivial": nontriv,
            "rule": "one evaluation = one implementation matrix (all entries) compared with the Coq model's matrix; a case (flags, omega, x0, nbas, symbol) is non-trivial when the model matrix has a non-zero off-diagonal entry or a non-constant diagonal; SHO part exhaustive over every symbol of the generated table + aliases + generic powers k<=6 x nbas 1..10 x 7 omega x x0 in {0, 0.5} (second-quantised symbols at x0=0 only)",
            "samples": samples[:3], "exhaustive": True, "input_distribution": dist,
            "oracle_checks": (ores or {}).get("checks"), "omegas": omegas}


def parse_model(lists, table_syms, spin_words, corr_bad):
    m = {"flags": {}}
    e0 = lists[0]
    names = (["product:" + p for p in ["b b", "b+ b+", "b+ b", "b b+", "n", "x^2", "p^2", "x p", "p x", "x dx", "dx x", "dx^2", "dx dx"]]
             + ["sum:b+ + b", "sum:b+ - b"] + ["scalar:%d" % i for i in range(8)] + ["commutator"]
             + ["shift:" + s for s in ["x", "x^2", "p", "p^2", "dx", "dx^2", "dx dx", "I", "x p", "p x", "x dx", "dx x"]]
             + ["dvr:" + s for s in ["x", "x^2", "p", "p^2", "dx", "dx^2", "dx dx", "x p", "p x", "x dx", "dx x"]])
    if len(e0) != len(names):
        corr_bad.append({"what": "flag vector length", "got": len(e0)})
        return None
    fl = dict(zip(names, e0))
    m["flags"]["product_check_false"] = [k[8:] for k, v in fl.items() if k.startswith("product:") and not v]
    m["flags"]["shift_check_false"] = [k[6:] for k, v in fl.items() if k.startswith("shift:") and not v]
    m["flags"]["dvr_check_false"] = [k[4:] for k, v in fl.items() if k.startswith("dvr:") and not v]
    m["flags"]["other_checks_false"] = [k for k, v in fl.items() if not v and not k.startswith(("product:", "shift:", "dvr:"))]
    r = Reader(lists[1])
    m["table"] = {}
    for s in table_syms:
        key = (r.z(), r.z(), r.z())
        m["table"][s] = (key, r.mat(NDUMP))
    if not r.done():
        corr_bad.append({"what": "table dump length"})
        return None
    r = Reader(lists[2])
    m["table_x0"] = {}
    for s in table_syms:
        nt = r.z()
        terms = []
        for _ in range(nt):
            e = r.z()
            key = (r.z(), r.z(), r.z())
            terms.append((e, key, r.mat(NDUMP)))
        m["table_x0"][s] = terms
    if not r.done():
        corr_bad.append({"what": "x0 table dump length"})
        return None
    m["dvr"] = dict(zip(table_syms, lists[3]))
    m["flags"]["dvr_none_products"] = m["flags"]["dvr_check_false"]
    r = Reader(lists[4])
    m["xpow"] = [r.mat(NDUMP) for _ in range(KMAX + 1)]
    r = Reader(lists[5])
    m["dpow"] = [r.mat(NDUMP) for _ in range(KMAX + 1)]
    r = Reader(lists[6])
    m["xpow_formula"] = [r.mat(10) for _ in range(7)]
    r = Reader(lists[7])
    m["spin"] = []
    for w in spin_words:
        if r.z() == 1:
            v = [r.z() for _ in range(8)]
            m["spin"].append([[complex(v[0], v[1]), complex(v[2], v[3])], [complex(v[4], v[5]), complex(v[6], v[7])]])
        else:
            m["spin"].append(None)
    r = Reader(lists[8])
    m["sine"] = {k: r.mat(6) for k in ["du_c", "u_a", "u_b", "uu_a", "uu_b", "udu_c", "uudu_a", "uudu_b", "p2_c"]}
    r = Reader(lists[9])
    m["hops"] = {"bd": r.mat(6), "b": r.mat(6)}
    r = Reader(lists[10])
    m["el"] = {"create": [], "annih": [], "hop": {}, "me_hop": {}}
    for i in range(3):
        m["el"]["create"].append(r.mat(4))
        m["el"]["annih"].append(r.mat(4))
    for i in range(3):
        for j in range(3):
            m["el"]["hop"][(i, j)] = r.mat(4)
            m["el"]["me_hop"][(i, j)] = r.mat(3)
    return m


def model_sho(model, gxp, omega, x0, N, sym):
    """the model's matrix for an implementation symbol, or None when the model rejects the symbol"""
    def xpow(k):
        acc = zeros(N)
        for j in range(k + 1):
            c = math.comb(k, j) * x0 ** (k - j) if (x0 != 0 or j == k) else 0.0
            if c == 0.0:
                continue
            acc = madd(acc, phys(model["xpow"][j], (0, 0, 0), omega, N, extra=c * (2 * omega) ** (-j / 2.0)))
        return acc

    def ppow(k):
        return phys(model["dpow"][k], (0, 0, 0), omega, N, extra=(1j ** k) * (omega / 2.0) ** (k / 2.0))

    def table(s):
        if x0 == 0:
            key, coef = model["table"][s]
            return phys(coef, key, omega, N)
        acc = zeros(N)
        for e, key, coef in model["table_x0"][s]:
            acc = madd(acc, phys(coef, key, omega, N, extra=x0 ** e))
        return acc
    if gxp and sym in ("x", "x^2", "p", "p^2"):
        k = 2 if sym.endswith("^2") else 1
        return xpow(k) if sym[0] == "x" else ppow(k)
    if sym in model["table"]:
        return table(sym)
    if sym in ALIASES:
        kind, arg = ALIASES[sym]
        return table(arg) if kind == "table" else (xpow(arg) if kind == "xpow" else ppow(arg))
    for base, f in (("x", xpow), ("p", ppow)):
        if sym.startswith(base + "^") and sym[2:].isdigit() and int(sym[2:]) <= KMAX:
            return f(int(sym[2:]))
    return None


def correspond(model, res, payload, corr_bad, samples, dist):
    ev = nontriv = 0
    rejected = {(tuple(e[1:6])) for e in res["errors"] if e[0] == "sho"}
    for gxp, omega, x0, N, sym, re, im in res["sho"]:
        exp = model_sho(model, gxp, omega, x0, N, sym)
        if exp is None:
            corr_bad.append({"what": "implementation accepts a symbol the model rejects", "symbol": sym, "omega": omega, "nbas": N})
            continue
        got = impl_matrix(re, im)
        generic = gxp or sym not in model["table"] and ALIASES.get(sym, ("", ""))[0] != "table"
        d = mat_diff(got, exp, 1e-10 if generic else 1e-12)
        ev += 1
        dist["sho_general_xp_power" if gxp else ("sho_plain" if x0 == 0 else "sho_x0")] += 1
        if nontrivial(exp):
            nontriv += 1
        if d is not None:
            corr_bad.append({"what": "SHO matrix differs from the model", "general_xp_power": gxp, "omega": omega, "x0": x0, "nbas": N, "symbol": sym,
                             "entry": [d[0], d[1]], "impl": str(d[2]), "model": str(d[3])})
        elif len(samples) < 3 and N == 3 and sym in ("x p", "x^2") and omega == 1.0 and not gxp:
            samples.append({"symbol": sym, "omega": omega, "x0": x0, "nbas": N, "impl": [[str(x) for x in r] for r in got], "model": [[str(x) for x in r] for r in exp]})
    # malformed stream: both sides reject
    for (gxp, omega, x0, N, sym) in rejected:
        if model_sho(model, gxp, omega, x0, N, sym) is not None:
            corr_bad.append({"what": "implementation rejects a symbol the model accepts", "symbol": sym, "omega": omega, "x0": x0, "nbas": N})
        else:
            dist["sho_malformed_rejected"] += 1
    if not all(res.get("factor_linear", [False])):
        corr_bad.append({"what": "op factor is not applied linearly"})
    # x_power_k helper against the transcribed formula
    for k in range(7):
        for m_ in range(10):
            for n_ in range(10):
                exp = float(model["xpow_formula"][k][m_][n_]) * 2.0 ** (-k / 2.0) * sqrt_fact_ratio(m_, n_)
                got = res["x_power_k"][k][m_][n_]
                dist["x_power_k_entries"] += 1
                if not abs(got - exp) <= 1e-10 * max(1.0, abs(exp)):
                    corr_bad.append({"what": "x_power_k differs from Ladder.xpow_rat", "k": k, "m": m_, "n": n_, "impl": got, "model": exp})
    # spin
    impl_spin = {tuple(w): impl_matrix(re, im) for w, re, im in res["spin"]}
    rej_spin = {tuple(e[1]) for e in res["errors"] if e[0] == "spin"}
    for w, mm in zip(payload["spin_words"], model["spin"]):
        ev += 1
        dist["spin_words"] += 1
        if mm is None:
            if tuple(w) not in rej_spin:
                corr_bad.append({"what": "spin word accepted by the implementation, rejected by the model", "word": w})
            continue
        got = impl_spin.get(tuple(w))
        if got is None or mat_diff(got, mm, 0.0) is not None:
            corr_bad.append({"what": "spin matrix differs", "word": w, "impl": str(got), "model": str(mm)})
        else:
            nontriv += 1
    # sine helper matrices
    pi2 = math.pi ** 2
    for case in res["sine"]:
        n, L = case["nbas"], case["L"]
        S = model["sine"]
        exp = {"du": lambda j, k: float(S["du_c"][j][k]) / L,
               "u": lambda j, k: L * (float(S["u_a"][j][k]) + float(S["u_b"][j][k]) / pi2),
               "uu": lambda j, k: L * L * (float(S["uu_a"][j][k]) + float(S["uu_b"][j][k]) / pi2),
               "udu": lambda j, k: float(S["udu_c"][j][k]),
               "uudu": lambda j, k: L * (float(S["uudu_a"][j][k]) + float(S["uudu_b"][j][k]) / pi2),
               "p2": lambda j, k: pi2 / (L * L) * float(S["p2_c"][j][k])}
        for name, f in exp.items():
            ev += 1
            dist["sine_helper_matrices"] += 1
            nontriv += 1
            e = [[complex(f(j, k)) for k in range(n)] for j in range(n)]
            d = mat_diff(impl_matrix(case[name], None), e, 1e-12)
            if d is not None:
                corr_bad.append({"what": "sine-DVR closed form differs from Model/SineDvr.v", "matrix": name, "nbas": n, "L": L, "entry": [d[0], d[1]], "impl": str(d[2]), "model": str(d[3])})
    # electrons (exact)
    el, mel = res["electron"], model["el"]

    def exact(a, b):
        return mat_diff(impl_matrix(a, None), [[complex(x) for x in r] for r in b], 0.0) is None
    for i in range(3):
        ev += 2
        dist["electron"] += 2
        if not exact(el["mev_create"][i], mel["create"][i]) or not exact(el["mev_annih"][i], mel["annih"][i]):
            corr_bad.append({"what": "BasisMultiElectronVac a^dagger / a", "i": i})
        for j in range(3):
            ev += 4
            dist["electron"] += 4
            nontriv += 4
            k = i * 3 + j
            if not exact(el["me_hop"][k], mel["me_hop"][(i, j)]) or not exact(el["me_hop_rev"][k], mel["me_hop"][(i, j)]):
                corr_bad.append({"what": "BasisMultiElectron a^dagger a / a a^dagger", "i": i, "j": j})
            if not exact(el["mev_hop"][k], mel["hop"][(i, j)]) or not exact(el["mev_hop_rev"][k], mel["hop"][(i, j)]):
                corr_bad.append({"what": "BasisMultiElectronVac a^dagger a / a a^dagger", "i": i, "j": j})
    se = el["se"]
    if se[r"a^\dagger"] != [[0.0, 0.0], [1.0, 0.0]] or se["a"] != [[0.0, 1.0], [0.0, 0.0]] or se[r"a^\dagger a"] != [[0.0, 0.0], [0.0, 1.0]] or se["I"] != [[1.0, 0.0], [0.0, 1.0]] or el["dummy"] != [[1.0]]:
        corr_bad.append({"what": "BasisSimpleElectron / BasisDummy", "impl": se})
    # hops
    hp = res["hops"]
    ev += 2
    dist["hops"] += 2
    nontriv += 2
    if not exact(hp[r"\tilde{b}^\dagger"], model["hops"]["bd"]) or not exact(hp[r"\tilde{b}"], model["hops"]["b"]):
        corr_bad.append({"what": "BasisHopsBoson ladder matrices"})
    return ev, nontriv
