"""Writes /verif/MANIFEST.json from the table below (kept valid at all times)."""
import json
import os

V = os.path.dirname(os.path.dirname(os.path.abspath(__file__)))
ALL = ["C%02d" % i for i in range(1, 21)]

CHECKS = {}
READY = [x.strip() for x in open(os.path.join(V, "harness", "ready.txt")).read().split() if x.strip()]
for _f in sorted(os.listdir(os.path.join(V, "harness", "meta"))):
    if _f.endswith(".json") and _f[:-5] in READY:
        CHECKS[_f[:-5]] = json.load(open(os.path.join(V, "harness", "meta", _f)))

NA_REASON = "check not built yet in this round; see DESIGN.md §6 for the planned model/theorems (will be claimed once its check passes on the unchanged tree)"


def main():
    checks = []
    for pid in ALL:
        if pid in CHECKS:
            c = CHECKS[pid]
            checks.append({
                "property_id": pid,
                "quick_cmd": "./check %s --tier quick" % pid,
                "thorough_cmd": "./check %s --tier thorough" % pid,
                "evidence_file": "/verif/evidence/%s.json" % pid,
                "replay_cmd_template": "./check %s --replay {path}" % pid,
                "engine": "coq-model+tie",
                "level_claimed": {"category": c.get("category", "proof"), "text": c["text"], "design_ref": c["design"]},
                "level_note": c["note"],
                "technique": c["technique"]})
    man = {
        "version": 1,
        "setup_cmd": "./setup.sh",
        "hooks": {"guard": "RENORMALIZER_VERIF",
                  "enable": "none needed: loggers / fault injectors are installed by the harness process by wrapping module attributes; the guard variable is set by the harness but /repo does not read it",
                  "baseline_off_cmd": "cd /repo && /venv/bin/python -m pytest -ra -q -p no:cacheprovider --timeout=900 --continue-on-collection-errors",
                  "source_commits": [], "add_only": True},
        "engines": [{"name": "coq-model+tie", "path": "/verif/coq + /verif/harness + /verif/tx",
                     "serves_properties": sorted(CHECKS), "kind_free_text": "Coq 8.16 models and theorems; translators regenerate Gen/*.v from /repo; correspondence checks run model (vm_compute) and implementation on the same inputs; dense NumPy oracles search for replays"}],
        "checks": checks,
        "notes": "See DESIGN.md. Every check: regenerate Gen/*.v from /repo, rebuild, compile Props/<ID>.v with Print Assumptions, run correspondence, run the failing-input search.",
        "not_applicable": [{"property_id": p, "reason": NA.get(p, NA_REASON)} for p in ALL if p not in CHECKS],
    }
    with open(os.path.join(V, "MANIFEST.json"), "w") as f:
        json.dump(man, f, indent=1)


NA = {}

if __name__ == "__main__":
    main()
