"""C09: real-time evolution converges to the exact propagator for every scheme."""
import json
import os
import re
import sys
from fractions import Fraction
from math import factorial

import common
sys.path.insert(0, os.path.join(common.VERIF, "tx"))
import rk as txrk
import stepctl as txctl
import stepctlgen as txgen
import trunc as txtrunc
import sweepsched as txsweep

PRE = "import renormalizer\nimport numpy as np, scipy.linalg as sla, sys\nfrom renormalizer.model import Model, Op, basis as ba\n" \
      "from renormalizer.mps import Mps, Mpo, MpDm\nfrom renormalizer.utils import EvolveConfig, EvolveMethod, CompressConfig, CompressCriteria\n" \
      "np.random.seed(7)\n" \
      "def holstein():\n" \
      "    basis=[]; ham=[]\n" \
      "    for i in range(2):\n" \
      "        basis += [ba.BasisSimpleElectron('e%d'%i), ba.BasisSHO('v%d'%i, 1.0+0.1*i, 3)]\n" \
      "        ham += [Op(r'a^\\dagger a','e%d'%i,0.3*(i+1)), Op(r'b^\\dagger b','v%d'%i,1.0+0.1*i), Op(r'a^\\dagger a','e%d'%i,0.6)*Op(r'b^\\dagger+b','v%d'%i)]\n" \
      "    ham += [Op(r'a^\\dagger a',['e0','e1'],0.7), Op(r'a^\\dagger a',['e1','e0'],0.7)]\n" \
      "    return Model(basis, ham)\n" \
      "m = holstein(); mpo = Mpo(m); H = mpo.todense()\n" \
      "dense = lambda x: np.asarray(x.todense())*x.coeff\n"

REPROS = {
    "tdrk-adaptive-rejected-step-applied": PRE +
        "s = Mps.random(m, 1, 8).canonicalise().canonicalise()\n"
        "s.evolve_config = EvolveConfig(EvolveMethod.prop_and_compress_tdrk, rk_solver='RKF45', adaptive=True, guess_dt=0.4, adaptive_rtol=1e-6)\n"
        "s.compress_config = CompressConfig(CompressCriteria.fixed, max_bonddim=32)\n"
        "psi = dense(s); out = s.evolve(mpo, 0.4)\n"
        "err = np.linalg.norm(dense(out) - sla.expm(-1j*H*0.4) @ psi)\n"
        "print('adaptive general-RK, first trial step rejected: distance to exp(-iHt)psi =', err)\n"
        "sys.exit(1 if err > 1e-3 else 0)\n",
    "mu-vmf-cmf-overcomplete-reshape": PRE +
        "bad = []\n"
        "for meth in (EvolveMethod.tdvp_mu_cmf, EvolveMethod.tdvp_mu_vmf):\n"
        "    s = Mps.random(m, 1, 20)          # left-canonical, bond dims [1,2,6,9,1]: bond 3 larger than its right block (3)\n"
        "    s.evolve_config = EvolveConfig(meth)\n"
        "    psi = dense(s)\n"
        "    try:\n"
        "        out = s.evolve(mpo, 0.05)\n"
        "        if np.linalg.norm(dense(out) - sla.expm(-1j*H*0.05) @ psi) > 1e-3: bad.append((meth, 'wrong'))\n"
        "    except ValueError as e:\n"
        "        bad.append((meth, repr(e)))\n"
        "print(bad); sys.exit(1 if bad else 0)\n",
    "vmf-overcomplete-singular-overlap": PRE +
        "s = Mps.random(m, 1, 8).canonicalise().canonicalise()\n"
        "s = mpo @ s                         # operator applied: bonds [1,8,16,6,1], rank deficient, not canonical\n"
        "s.normalize('mps_and_coeff')\n"
        "s.evolve_config = EvolveConfig(EvolveMethod.tdvp_vmf)   # force_ovlp=True (default)\n"
        "psi = dense(s)\n"
        "try:\n"
        "    out = s.evolve(mpo, 0.02)\n"
        "    err = np.linalg.norm(dense(out) - sla.expm(-1j*H*0.02) @ psi); print(err); sys.exit(1 if err > 1e-3 else 0)\n"
        "except ValueError as e:\n"
        "    print('raised', repr(e)); sys.exit(1)\n",
    "tdvp-ps-noncanonical-input": PRE +
        "s = Mps.random(m, 1, 8).canonicalise().canonicalise()\n"
        "s = mpo @ s                         # a state straight from Mpo.apply is not in canonical form\n"
        "s.normalize('mps_and_coeff')\n"
        "s.evolve_config = EvolveConfig(EvolveMethod.tdvp_ps)\n"
        "s.compress_config = CompressConfig(CompressCriteria.fixed, max_bonddim=64)\n"
        "psi = dense(s); out = s.evolve(mpo, 0.02)\n"
        "err = np.linalg.norm(dense(out) - sla.expm(-1j*H*0.02) @ psi)\n"
        "c = s.copy().canonicalise(); c.evolve_config = s.evolve_config; err2 = np.linalg.norm(dense(c.evolve(mpo, 0.02)) - sla.expm(-1j*H*0.02) @ psi)\n"
        "print('TDVP-PS at full bond dimension: error', err, ' after canonicalise():', err2)\n"
        "r = Mps.random(m, 1, 8).canonicalise().canonicalise(); r.ensure_right_canonical()      # to_right=True, qnidx=0\n"
        "x = Mpo(m, Op(r'b^\\dagger+b', 'v1', 1.0) + Op(r'b^\\dagger b', 'v1', 0.7)) @ r                # non-unitary one-site operator on the LAST site, raw product\n"
        "x = x.scale(1.0/np.linalg.norm(dense(x))); x.evolve_config = s.evolve_config; x.compress_config = s.compress_config\n"
        "px = dense(x); err3 = np.linalg.norm(dense(x.evolve(mpo, 0.1)) - sla.expm(-1j*H*0.1) @ px)\n"
        "print('mu @ psi with psi right-canonical, mu on the last site: error', err3)\n"
        "sys.exit(1 if (err > 1e-6 or err3 > 1e-6) else 0)\n",
    "tdrk-adaptive-callable-time-offset":
        "import renormalizer\nimport numpy as np, sys\nfrom renormalizer.model import Model, Op, basis as ba\nfrom renormalizer.mps import Mps, Mpo\n"
        "from renormalizer.utils import EvolveConfig, EvolveMethod, CompressConfig, CompressCriteria\n"
        "np.random.seed(5); n = 4\n"
        "basis = [ba.BasisHalfSpin(i) for i in range(n)]\n"
        "h0 = [Op('X X', [i, i+1], 0.8) for i in range(n-1)] + [Op('Z', i, 0.3*(i+1)) for i in range(n)]\n"
        "h1 = [Op('X', i, 1.0 if i % 2 else -1.2) for i in range(n)]\n"
        "f = lambda t: np.sin(3.0*t) + 0.5*t\n"
        "times = []\n"
        "def mpo_t(t, *a, **k):\n"
        "    times.append(float(t)); return Mpo(Model(basis, h0 + [o*float(f(t)) for o in h1]))\n"
        "H0 = np.asarray(Mpo(Model(basis, h0)).todense()); H1 = np.asarray(Mpo(Model(basis, h1)).todense())\n"
        "s = Mps.random(Model(basis, h0), 0, 8).canonicalise().canonicalise()\n"
        "s.evolve_config = EvolveConfig(EvolveMethod.prop_and_compress_tdrk, rk_solver='Cash-Karp45', adaptive=True, guess_dt=0.1, adaptive_rtol=1e-5)\n"
        "s.compress_config = CompressConfig(CompressCriteria.fixed, max_bonddim=32)\n"
        "psi = (np.asarray(s.todense())*s.coeff).astype(complex); T = 0.9; out = s.evolve(mpo_t, T)\n"
        "y = psi.copy(); N = 4000; h = T/N; F = lambda t, v: -1j*((H0 + f(t)*H1) @ v)\n"
        "for i in range(N):\n"
        "    t = i*h; k1 = F(t, y); k2 = F(t+h/2, y+h/2*k1); k3 = F(t+h/2, y+h/2*k2); k4 = F(t+h, y+h*k3); y = y + h/6*(k1+2*k2+2*k3+k4)\n"
        "err = np.linalg.norm(np.asarray(out.todense())*out.coeff - y)\n"
        "print('adaptive Cash-Karp with H(t): distance to the dense reference', err, '; largest time the callable was sampled at', max(times), 'of', T)\n"
        "sys.exit(1 if (err > 2e-3 or max(times) < 0.9*T) else 0)\n",
    "vmf-cmf-noncanonical-input":
        "import renormalizer\nimport numpy as np, scipy.linalg as sla, sys\nfrom renormalizer.model import Model, Op, basis as ba\nfrom renormalizer.mps import Mps, Mpo\n"
        "from renormalizer.utils import EvolveConfig, EvolveMethod\n"
        "np.random.seed(3); n = 4\n"
        "basis = [ba.BasisHalfSpin(i) for i in range(n)]\n"
        "model = Model(basis, [Op('X X', [i, i+1], 1.0) for i in range(n-1)] + [Op('Z Z', [i, i+1], 0.4) for i in range(n-1)] + [Op('Z', i, 0.3*(i+1)) for i in range(n)] + [Op('X', i, 0.5) for i in range(n)])\n"
        "mpo = Mpo(model); H = np.asarray(mpo.todense())\n"
        "c = Mps.random(model, 0, 4); c2 = Mps.random(model, 0, 4); c = c.to_complex().add(c2.scale(0.8j)); c.canonicalise().canonicalise(); c.normalize('mps_and_coeff')\n"
        "g = c.copy(); r = np.random.RandomState(7)      # COMPLEX state, complex gauge transform on every bond: same vector, same flags\n"
        "for i in range(n-1):\n"
        "    d = g[i].shape[-1]; X = np.eye(d) + 0.5*r.standard_normal((d, d)) + 0.5j*r.standard_normal((d, d))\n"
        "    g[i] = np.tensordot(g[i].array, X, axes=(-1, 0)); g[i+1] = np.tensordot(np.linalg.inv(X), g[i+1].array, axes=(-1, 0))\n"
        "psi = np.asarray(g.todense())*g.coeff; ref = sla.expm(-0.3j*H) @ psi; bad = []\n"
        "for meth in (EvolveMethod.tdvp_vmf, EvolveMethod.tdvp_mu_vmf, EvolveMethod.tdvp_mu_cmf):\n"
        "    for fo in (True, False):\n"
        "        a = g.copy(); a.evolve_config = EvolveConfig(meth, force_ovlp=fo); a.evolve_config.vmf_auto_switch = False\n"
        "        for _ in range(1 if meth != EvolveMethod.tdvp_mu_cmf else 30): a = a.evolve(mpo, 0.3 if meth != EvolveMethod.tdvp_mu_cmf else 0.01)\n"
        "        e = np.linalg.norm(np.asarray(a.todense())*a.coeff - ref); print(meth.name, 'force_ovlp', fo, 'error on the re-gauged (same vector, same flags) input', e)\n"
        "        if e > 1e-3: bad.append((meth.name, fo, e))\n"
        "sys.exit(1 if bad else 0)\n",
    "input-object-reuse": PRE +
        "s = Mps.random(m, 1, 8).canonicalise().canonicalise(); psi = dense(s); bad = []\n"
        "for trapz in (False, True):\n"
        "    a = s.copy(); a.evolve_config = EvolveConfig(EvolveMethod.tdvp_mu_cmf); a.evolve_config.tdvp_cmf_c_trapz = trapz\n"
        "    fresh = []\n"
        "    for k in range(2):\n"
        "        f = a.copy(); f.evolve_config = a.evolve_config.copy(); fresh.append(np.linalg.norm(dense(f.evolve(mpo, 0.04)) - sla.expm(-0.04j*H) @ psi))\n"
        "    errs = [np.linalg.norm(dense(a.evolve(mpo, 0.04)) - sla.expm(-0.04j*H) @ psi) for k in range(2)]   # the same object twice\n"
        "    print('CMF trapz=%s: error of two calls on one input object' % trapz, errs, ' on fresh copies', fresh, ' midpoint flag afterwards', a.evolve_config.tdvp_cmf_midpoint, a.evolve_config.tdvp_cmf_c_trapz)\n"
        "    if errs[1] > 1.5*errs[0] or not a.evolve_config.tdvp_cmf_midpoint or a.evolve_config.tdvp_cmf_c_trapz != trapz: bad.append(trapz)\n"
        "sys.exit(1 if bad else 0)\n",
    "local-ode-solver-signed-step": PRE +
        "s = Mps.random(m, 1, 8).canonicalise().canonicalise(); psi = dense(s); t = -0.2; ref = sla.expm(-1j*H*t) @ psi; bad = []\n"
        "for meth, solver in ((EvolveMethod.tdvp_ps, 'krylov'), (EvolveMethod.tdvp_ps, 'RK45'), (EvolveMethod.tdvp_ps2, 'RK45'), (EvolveMethod.tdvp_vmf, 'krylov'), (EvolveMethod.tdvp_mu_vmf, 'krylov')):\n"
        "    a = s.copy(); a.evolve_config = EvolveConfig(meth, ivp_solver=solver); a.compress_config = CompressConfig(CompressCriteria.fixed, max_bonddim=64)\n"
        "    e = np.linalg.norm(dense(a.evolve(mpo, t)) - ref); print(meth.name, solver, 'backward step t = -0.2: distance to exp(-iHt)psi', e)\n"
        "    if e > 1e-3: bad.append((meth.name, solver, e))\n"
        "sys.exit(1 if bad else 0)\n",
    "krylov-large-step":
        "import renormalizer\nimport numpy as np, scipy.linalg as sla, sys\nfrom renormalizer.model import Model, Op, basis as ba\nfrom renormalizer.mps import Mps, Mpo\n"
        "from renormalizer.utils import EvolveConfig, EvolveMethod, CompressConfig, CompressCriteria\n"
        "np.random.seed(2); nbas = 80\n"
        "model = Model([ba.BasisHalfSpin('s'), ba.BasisSHO('v', 1.0, nbas)], [Op('sigma_z', 's', 0.5), Op('sigma_x', 's', 0.3), Op(r'b^\\dagger b', 'v', 1.0), Op(r'sigma_z b^\\dagger+b', ['s', 'v'], 0.8)])\n"
        "mpo = Mpo(model); H = np.asarray(mpo.todense()); s = Mps.random(model, 0, 2, 1.0); s.normalize('mps_and_coeff'); psi = np.asarray(s.todense())*s.coeff; bad = []\n"
        "for meth in (EvolveMethod.tdvp_ps, EvolveMethod.tdvp_ps2):\n"
        "    for dt in (0.04, 2.0, 4.0):\n"
        "        a = s.copy(); a.evolve_config = EvolveConfig(meth, ivp_solver='krylov'); a.compress_config = CompressConfig(CompressCriteria.fixed, max_bonddim=2)\n"
        "        o = a.evolve(mpo, dt); e = np.linalg.norm(np.asarray(o.todense())*o.coeff - sla.expm(-1j*dt*H) @ psi)\n"
        "        print(meth.name, 'dt', dt, 'dt*||H||', dt*np.linalg.norm(H, 2), 'distance to exp(-iHt)psi at full bond dimension', e)\n"
        "        if not e < 1e-6: bad.append((meth.name, dt, e))\n"
        "sys.exit(1 if bad else 0)\n",
    "nonuniform-bond-limits":
        "import renormalizer\nimport numpy as np, scipy.linalg as sla, sys\nfrom renormalizer.model import Model, Op, basis as ba\nfrom renormalizer.mps import Mps, Mpo\n"
        "from renormalizer.utils import EvolveConfig, EvolveMethod, CompressConfig, CompressCriteria\n"
        "np.random.seed(4); n = 6\n"
        "basis = [ba.BasisHalfSpin(i) for i in range(n)]\n"
        "model = Model(basis, [Op('X X', [i, i+1], 0.9) for i in range(n-1)] + [Op('Z Z', [i, i+1], 0.5) for i in range(n-1)] + [Op('Z', i, 0.2*(i+1)) for i in range(n)] + [Op('X', i, 0.4) for i in range(n)])\n"
        "mpo = Mpo(model); H = np.asarray(mpo.todense()); bad = []\n"
        "s = Mps.random(model, 0, 16).canonicalise().canonicalise(); s.normalize('mps_and_coeff')\n"
        "for right in (False, True):\n"
        "    for lims in ([1, 2, 4, 8, 4, 2, 1], [1, 2, 4, 3, 4, 2, 1]):\n"
        "        a = s.copy()\n"
        "        if right: a.ensure_right_canonical()\n"
        "        psi = np.asarray(a.todense())*a.coeff\n"
        "        a.evolve_config = EvolveConfig(EvolveMethod.tdvp_ps2); a.compress_config = CompressConfig(CompressCriteria.fixed, max_bonddim=64); a.compress_config.max_dims = np.array(lims)\n"
        "        o = a.evolve(mpo, 0.1); bd = [int(x) for x in o.bond_dims]; e = np.linalg.norm(np.asarray(o.todense())*o.coeff - sla.expm(-0.1j*H) @ psi)\n"
        "        print('start right-canonical' if right else 'start left-canonical', 'max_dims', lims, 'bond_dims', bd, 'error', e)\n"
        "        if any(b > l for b, l in zip(bd, lims)) or (lims[3] == 8 and e > 1e-7): bad.append((right, lims, bd, e))\n"
        "sys.exit(1 if bad else 0)\n",
    "adaptive-error-not-relative": PRE +
        "s = Mps.random(m, 1, 8).canonicalise().canonicalise(); psi = dense(s); ref = sla.expm(-0.4j*H) @ psi; errs = {}\n"
        "for c in (1.0, 1e-3):\n"
        "    a = s.copy().scale(c)                       # the norm sits in the tensors\n"
        "    a.evolve_config = EvolveConfig(EvolveMethod.prop_and_compress, adaptive=True, guess_dt=0.05, adaptive_rtol=1e-5)\n"
        "    a.compress_config = CompressConfig(CompressCriteria.fixed, max_bonddim=64)\n"
        "    errs[c] = np.linalg.norm(dense(a.evolve(mpo, 0.4, normalize=False)) - c*ref) / c\n"
        "print('adaptive Taylor P&C, rtol 1e-5: relative error for |psi| = 1 and 1e-3:', errs)\n"
        "sys.exit(1 if errs[1e-3] > 20 * errs[1.0] + 1e-9 else 0)\n",
    "cmf-trapz-loses-norm": PRE +
        "s = Mps.random(m, 1, 8).canonicalise().canonicalise(); psi = dense(s); c = 1e-3\n"
        "a = s.copy().scale(c); a.evolve_config = EvolveConfig(EvolveMethod.tdvp_mu_cmf); a.evolve_config.tdvp_cmf_c_trapz = True\n"
        "out = dense(a.evolve(mpo, 0.04, normalize=False))\n"
        "print('CMF trapezoid variant, input norm 1e-3, normalize=False: output norm', np.linalg.norm(out), ' distance/c to exp(-iHt)psi', np.linalg.norm(out - c*sla.expm(-0.04j*H) @ psi)/c)\n"
        "sys.exit(1 if abs(np.linalg.norm(out)/c - 1) > 1e-6 else 0)\n",
    "cmf-krylov-solver-dependence": PRE +
        "s = Mps.random(m, 1, 8).canonicalise().canonicalise()\n"
        "outs = []\n"
        "for solver in ('krylov', 'RK45'):\n"
        "    a = s.copy(); a.evolve_config = EvolveConfig(EvolveMethod.tdvp_mu_cmf, ivp_solver=solver)\n"
        "    outs.append(dense(a.evolve(mpo, 0.3)))\n"
        "d = np.linalg.norm(outs[0] - outs[1])\n"
        "print('CMF, one step 0.3: |krylov - RK45| =', d)\n"
        "sys.exit(1 if d > 1e-4 else 0)\n",
}

# oracle failure class -> stable violation key
def classify(k, rec):
    exc = (rec.get("exc") or "")
    if k.startswith("adaptive/tdrk") and k.endswith("after-rejection"):
        return "tdrk-adaptive-rejected-step-applied"
    if k.startswith("exception/") and "cannot reshape" in exc and rec.get("gauge") in ("random-raw", "operator-applied") \
            and (k.split("/")[1].startswith("cmf") or k.split("/")[1] == "tdvp_mu_vmf"):
        return "mu-vmf-cmf-overcomplete-reshape"
    if k.startswith("exception/tdvp_vmf") and "infs or NaNs" in exc and rec.get("gauge") in ("random-raw", "operator-applied"):
        return "vmf-overcomplete-singular-overlap"
    if k == "exception/sequence" and "cannot reshape" in exc and str(rec.get("failing_call", "")).startswith(("cmf", "tdvp_mu_vmf")):
        return "mu-vmf-cmf-overcomplete-reshape"      # a preceding two-site / P&C call left bonds larger than their right block
    if k == "exception/sequence" and "infs or NaNs" in exc and str(rec.get("failing_call", "")).startswith("tdvp_vmf"):
        return "vmf-overcomplete-singular-overlap"
    if k.startswith("gauge/") and k.split("/")[1].startswith(("tdvp_vmf", "tdvp_mu_vmf", "cmf")) and \
            (k.split("/")[2] in ("regauged-left-flags", "regauged-right-flags", "added-raw", "operator-applied") or k.split("/")[2].startswith("complex-")):
        return "vmf-cmf-noncanonical-input"
    if k.startswith("large-step/"):
        return "krylov-large-step"
    if k.startswith("nonuniform-limits/"):
        return "nonuniform-bond-limits"
    if k.startswith("homogeneity/cmf_trapz") and rec.get("where") == "tensors":
        return "cmf-trapz-loses-norm"
    if k.startswith("homogeneity/"):
        return "adaptive-error-not-relative" if rec.get("check") == "homogeneity-adaptive" else "oracle/" + k
    if k.startswith("negative/"):
        return "local-ode-solver-signed-step" if k.split("/")[1].startswith(("ps", "ps2", "tdvp_", "cmf")) else "oracle/" + k
    if k.startswith("gauge/ps/applied-") or k.startswith("gauge/ps/added-raw"):
        return "tdvp-ps-noncanonical-input"
    if k.startswith(("reuse/", "exception/reuse/")):
        return "input-object-reuse"
    if k.startswith("gauge/ps/operator-applied"):
        return "tdvp-ps-noncanonical-input"
    if k.startswith("solver-dependence/tdvp_mu_cmf"):
        return "cmf-krylov-solver-dependence"
    return "oracle/" + "/".join(k.split("/")[:2])


def q_of_float(x):
    return Fraction(float(x))


def coq_q(fr):
    return "(Qmake (%d) %d)" % (fr.numerator, fr.denominator)


def export_coeffs(ctx, tabs):
    """row(s) of Rk.ti_coeff for every method and tcoefs 1..6, evaluated inside Coq"""
    txt = ("From RV Require Import Gen.RkTableaux Model.Rk Model.Prop.\nFrom Coq Require Import List QArith ZArith.\nImport ListNotations.\n"
           "Eval vm_compute in (flat_map (fun m => flat_map (fun row => flat_map (fun q => [Qnum q; Zpos (Qden q)]) row) (ti_coeff m)) methods).\n"
           "Eval vm_compute in (flat_map (fun N => flat_map (fun q => [Qnum (Qred q); Zpos (Qden (Qred q))]) (tcoefs N)) (seq 1 6)).\n")
    rc, out = ctx.coq_eval("coeffs", txt)
    lists = common.parse_Z_lists(out) if rc == 0 else []
    if len(lists) != 2:
        return None, None, out
    flat, ft = lists
    ti = {}
    pos = 0
    for t in tabs:
        rows = []
        for _ in t["b"]:
            n = t["nstage"] + 1
            rows.append([Fraction(flat[pos + 2 * k], flat[pos + 2 * k + 1]) for k in range(n)])
            pos += 2 * n
        ti[t["name"]] = rows
    if pos != len(flat):
        return None, None, out
    taylor = {}
    pos = 0
    for N in range(1, 7):
        taylor[N] = [Fraction(ft[pos + 2 * k], ft[pos + 2 * k + 1]) for k in range(N + 1)]
        pos += 2 * (N + 1)
    if pos != len(ft):
        return None, None, out
    return ti, taylor, out


def pc_payload(seed, imag, tabs, ti, taylor, n_models):
    return {"seed": seed, "imag": imag, "n_models": n_models,
            "ti": {k: [[str(x) for x in r] for r in v] for k, v in ti.items()},
            "taylor": {str(N): [str(x) for x in v] for N, v in taylor.items()},
            "tabs": [{"name": t["name"], "a": [[str(x) for x in r] for r in t["a"]], "b": [[str(x) for x in r] for r in t["b"]],
                      "c": [str(x) for x in t["c"]]} for t in tabs]}


# ------------------------------------------------------------------------------- controller replay
def ctl_coq_text(traces):
    lines = ["From RV Require Import Gen.StepCtlConsts Model.StepCtl.", "From Coq Require Import List QArith ZArith.", "Import ListNotations.",
             "Definition enc (r : option (list event * Q)) : list Z := match r with None => [] | Some (tr, g) =>",
             "  (flat_map (fun e => [Qnum (Qred (e_dt e)); Zpos (Qden (Qred (e_dt e))); (if e_acc e then 1 else 0)%Z; Qnum (Qred (e_guess e)); Zpos (Qden (Qred (e_guess e)))]) tr)",
             "  ++ [Qnum (Qred g); Zpos (Qden (Qred g))] end."]
    for i, t in enumerate(traces):
        ps = "[" + "; ".join(coq_q(q_of_float(it["p"])) for it in t["its"]) + "]"
        fn = {"tdvp": "tdvp_run", "pc": "pc_run", "tdrk": "tdrk_run"}[t["ctl"]]
        lines.append("Eval vm_compute in (enc (%s %d (est_of_list %s) %s %s))." %
                     (fn, len(t["its"]) + 3, ps, coq_q(q_of_float(t["target"])), coq_q(q_of_float(t["guess0"]))))
    return "\n".join(lines) + "\n"


def td_coq_text(runs, tabs):
    idx = {t["name"]: i for i, t in enumerate(tabs)}
    lines = ["From RV Require Import Gen.RkTableaux Gen.StepCtlConsts Model.StepCtl.", "From Coq Require Import List QArith ZArith.", "Import ListNotations.",
             "Definition enc (r : option (list event * Q)) : list Z := match r with None => [] | Some (tr, g) =>",
             "  (flat_map (fun e => [Qnum (Qred (e_dt e)); Zpos (Qden (Qred (e_dt e))); (if e_acc e then 1 else 0)%Z; Qnum (Qred (e_guess e)); Zpos (Qden (Qred (e_guess e)))]) tr)",
             "  ++ [Qnum (Qred g); Zpos (Qden (Qred g))] end.",
             "Definition enct (cs : list Q) (r : option (list event * Q)) : list Z := match r with None => [] | Some (tr, _) =>",
             "  flat_map (fun q => [Qnum (Qred q); Zpos (Qden (Qred q))]) (sample_times cs tr) end."]
    for r in runs:
        ps = "[" + "; ".join(coq_q(q_of_float(it["p"])) for it in r["its"]) + "]"
        call = "(tdrk_run %d (est_of_list %s) %s %s)" % (len(r["its"]) + 3, ps, coq_q(q_of_float(r["target"])), coq_q(q_of_float(r["guess0"])))
        lines.append("Eval vm_compute in (enc %s)." % call)
        lines.append("Eval vm_compute in (enct (t_c tab_%d) %s)." % (idx[r["solver"]], call))
    return "\n".join(lines) + "\n"


def dims_coq_text(cases):
    zl = lambda xs: "[" + "; ".join("%d" % x for x in xs) + "]"
    lines = ["From RV Require Import Gen.RkTableaux Model.Dims.", "From Coq Require Import List ZArith.", "Import ListNotations.", "Open Scope Z_scope."]
    for c in cases:
        e = {"taylor": "(taylor_dexp %d)" % c["arg"], "tdrk4": "tdrk4_dexp", "rk": "(rk_dexp tab_%d)" % c["arg"]}[c["kind"]]
        lines.append("Eval vm_compute in (dbound %s %s %s %s)." % (zl(c["din"]), zl(c["dop"]), zl([c["limit"]] * len(c["din"])), e))
    return "\n".join(lines) + "\n"


def close(a, b, rel=1e-10):
    return abs(a - b) <= rel * max(abs(a), abs(b), 1e-300)


def compare_ctl(t, zs):
    """t: implementation trace; zs: model output (list of ints).  Returns None if equal, else a description.
    The model tests exact equality where the code tests allclose(rtol=1e-5, atol=1e-8): a run in which the code
    stops although the model would continue with a remaining time below that tolerance is counted as residual."""
    if not zs:
        return "model ran out of fuel / returned None"
    n = (len(zs) - 2) // 5
    if (len(zs) - 2) % 5:
        return "model output malformed"
    its = t["its"]
    evolved = 0.0
    for k in range(max(n, len(its))):
        if k >= n or k >= len(its):
            rem = abs(t["target"] - evolved)
            if k >= len(its) and rem <= 1e-8 + 1e-5 * abs(t["target"]):
                return "residual-allclose"
            return "length: model %d events, implementation %d" % (n, len(its))
        dt = zs[5 * k] / zs[5 * k + 1]
        acc = zs[5 * k + 2]
        g = zs[5 * k + 3] / zs[5 * k + 4]
        it = its[k]
        iacc = 0 if it["outcome"] == "reject" else 1
        if not close(dt, it["dt"]) or not close(g, it["guess"]) or acc != iacc:
            return "event %d: model (dt=%r, acc=%d, guess=%r) vs implementation (dt=%r, %s, guess=%r)" % (k, dt, acc, g, it["dt"], it["outcome"], it["guess"])
        if iacc:
            evolved += it["dt"]
        last_model = (k == n - 1)
        last_impl = (it["outcome"] == "final")
        if last_model != last_impl:
            rem = abs(t["target"] - evolved)
            if last_impl and rem <= 1e-8 + 1e-5 * abs(t["target"]):
                return "residual-allclose"
            return "event %d: final step disagreement (model last=%s, implementation outcome=%s)" % (k, last_model, it["outcome"])
    gfin = zs[-2] / zs[-1]
    if t["final_guess"] is None or not close(gfin, t["final_guess"]):
        return "final guess_dt: model %r vs implementation %r" % (gfin, t["final_guess"])
    return None


# ------------------------------------------------------------------------------- PS event replay
def ps_coq_text(runs):
    lines = ["From RV Require Import Model.PsSweep.", "From Coq Require Import List QArith ZArith.", "Import ListNotations.",
             "Definition encq (q : Q) : list Z := [Qnum (Qred q); Zpos (Qden (Qred q))].",
             "Definition enc (tr : list psev) : list Z := flat_map (fun e => match e with",
             " | Fwd i h => [0%Z; Z.of_nat i] ++ encq h | Split i b => [1%Z; Z.of_nat i; Z.of_nat b; 1%Z]",
             " | Bwd b h => [2%Z; Z.of_nat b] ++ encq h | Absorb b j => [3%Z; Z.of_nat b; Z.of_nat j; 1%Z]",
             " | Fwd2 l h => [4%Z; Z.of_nat l] ++ encq h | Bwd1 j h => [5%Z; Z.of_nat j] ++ encq h end) tr."]
    for r in runs:
        fn = "ps1_step" if r["scheme"] == "tdvp_ps" else "ps2_step"
        lines.append("Eval vm_compute in (enc (%s %d %s %d %s))." % (fn, r["n"], "true" if r["to_right"] else "false", r["q"], coq_q(q_of_float(r["dt"]))))
    return "\n".join(lines) + "\n"


def model_obs(zs, solver):
    """model events -> the observation format of harness/impl/c09_ps.py"""
    evs = [zs[i:i + 4] for i in range(0, len(zs), 4)]
    obs = []
    for k, (tag, a, b, c) in enumerate(evs):
        d = lambda x: x if solver == "krylov" else "ivp"
        if tag == 0:
            obs += [["K", d("fwd"), abs(b / c)], ["QR"]]
            nxt = evs[k + 1] if k + 1 < len(evs) else None
            if nxt is None or nxt[0] != 1:
                obs.append(["SET", a])              # end site of a half sweep: the evolved tensor is stored
        elif tag == 1:
            obs.append(["SET", a])                  # the isometry is stored on the site
        elif tag == 2:
            obs.append(["K", d("bwd"), abs(b / c)])
        elif tag == 3:
            obs.append(["SET", b])                  # the bond matrix is absorbed into site j
        elif tag == 4:
            obs += [["K", d("fwd"), abs(b / c)], ["UPD", [a, a + 1]]]
        elif tag == 5:
            obs += [["K", d("bwd"), abs(b / c)], ["SET", a]]
    return obs


def impl_obs(run):
    obs = run["obs"]
    if run["scheme"] == "tdvp_ps":
        return obs
    # two-site: keep the local evolutions, the two-site updates and the store that follows a backward evolution
    out = []
    for i, x in enumerate(obs):
        if x[0] in ("K", "UPD"):
            out.append(x)
        elif x[0] == "SET" and i > 0 and obs[i - 1][0] == "K":
            out.append(x)
    return out


def obs_eq(a, b):
    if a[0] != b[0]:
        return False
    if a[0] == "K":
        return a[1] == b[1] and abs(a[2] - b[2]) <= 1e-12
    return a[1:] == b[1:]


def run(ctx):
    seed = ctx.rng.randrange(1 << 30)
    quick = ctx.tier == "quick"
    ev = 0
    nontriv = 0
    samples = []
    ctx.trusted += [
        "translators tx/rk.py (tableaux, Taylor coefficients), tx/stepctl.py (safeguard constants; which variable receives the general-RK trial result), tx/stepctlgen.py (decision logic of the three controllers: symbolic execution of the loop bodies into step functions), tx/trunc.py (kept-count rule, shared with C05) -- fail-closed python-ast readers",
        "correspondence harness/c09.py + harness/impl/c09_{pc,ctl,ps}.py: one-step P&C results vs dense polynomials with coefficients exported from the Coq model; controller traces parsed from the implementation's own DEBUG log and replayed through Model/StepCtl.v with the logged estimates; projector-splitting event traces observed by logging shims around expm_krylov/solve_ivp/svd_qn/__setitem__/_update_mps",
        "hand-written models Model/Prop.v, Model/StepCtl.v (control flow), Model/PsSweep.v (tied by the correspondences above, not translated)",
        "modelled, not verified: binary64 rounding; compress()/canonicalise() as the identity at sufficient bond dimension; np.allclose termination tests modelled as exact equality; accuracy of every TDVP scheme (PS, PS2, VMF, CMF), of expm_krylov / RK45, the regularised inverse -- observed by the dense oracle only",
        "the dense oracle (scipy expm with an independently assembled H) is a search procedure, not part of any theorem"]
    ctx.assumptions += ["sufficient bond dimension for the exactness clauses (limit 64..256 on models of dense dimension <= 36)",
                        "real-time P&C theorems: time-independent linear generator (time-dependent case by correspondence against an independent dense RK)"]
    broken = []
    # ------------------------------------------------------------------ 1. translators
    tabs = None
    cinfo = None
    try:
        text, tabs = txrk.main(common.REPO)
        ctx.regen("Gen/RkTableaux.v", text)
    except Exception as e:
        ctx.notes.append("translator tx/rk.py failed: %r" % (e,))
        broken.append("translator tx/rk.py")
    try:
        text2, cinfo = txctl.main(common.REPO)
        ctx.regen("Gen/StepCtlConsts.v", text2)
    except Exception as e:
        ctx.notes.append("translator tx/stepctl.py failed: %r" % (e,))
        broken.append("translator tx/stepctl.py")
    try:
        # the kept-count rule of compress (shared with C05): regenerated here too so that it matches the tree under test
        ctx.regen("Gen/Trunc.v", txtrunc.main(common.REPO)[0])
    except Exception as e:
        ctx.notes.append("translator tx/trunc.py failed: %r" % (e,))
        broken.append("translator tx/trunc.py")
    try:
        # which site index _update_mps hands to compute_m_trunc (shared with C08): regenerated for the tree under test
        r_ = txsweep.main(common.REPO)
        ctx.regen("Gen/SweepSched.v", r_[0] if isinstance(r_, tuple) else r_)
    except Exception as e:
        ctx.notes.append("translator tx/sweepsched.py failed: %r" % (e,))
        broken.append("translator tx/sweepsched.py (site index handed to compute_m_trunc by _update_mps): %r" % (e,))
    ginfo = None
    try:
        text3, ginfo = txgen.main(common.REPO)
        ctx.regen("Gen/StepCtlGen.v", text3)
    except Exception as e:
        ctx.notes.append("translator tx/stepctlgen.py failed: %r" % (e,))
        broken.append("translator tx/stepctlgen.py (decision logic of the step-size controllers): %r" % (e,))
    # ------------------------------------------------------------------ 2. proofs
    ok_build, log = (False, "translator failed")
    ok_props = False
    if tabs is not None and cinfo is not None and ginfo is not None:
        ok_build, log = ctx.coq_make(["Proofs/PropProofs.vo", "Proofs/StepCtlProofs.vo", "Proofs/PsSweepProofs.vo", "Proofs/DimsProofs.vo"])
        if ok_build:
            ok_props, log = ctx.props("Props/C09.v")
    if not ok_build:
        ctx.obligations.append({"name": "C09 (build of Model/Proofs for Prop, StepCtl, PsSweep)", "file": "Proofs/PropProofs.v", "ok": False, "assumptions": None})
    if not (ok_build and ok_props):
        broken.append("theorem(s) of Props/C09.v: " + (", ".join(o["name"] for o in ctx.obligations if not o["ok"]) or "build"))
    if tabs is not None and [t["name"] for t in tabs][5:6] != ["C_RK4"]:
        broken.append("tab_5 is not C_RK4 (tdrk4_is_C_RK4 is stated about tab_5)")
    corr_bad = []
    # ------------------------------------------------------------------ 3/4. implementation side: one parallel pool
    jobs = []          # (kind, payload)
    ti = taylor = None
    if ok_build and tabs is not None:
        ti, taylor, out = export_coeffs(ctx, tabs)
        if ti is None:
            corr_bad.append({"what": "export of ti_coeff / tcoefs from Coq failed", "out": out[-600:]})
        else:
            for i in range(2 if quick else 8):
                jobs.append(("pc", dict(pc_payload(seed + 17 * i, False, tabs, ti, taylor, 3 if quick else 6), script="c09_pc.py")))
            ctx.notes.append("P&C tie: ten tableaux x (real, complex, MpDm) + tdrk4 + Taylor 1..6 + time-dependent callable; coefficients d_k exported from Coq by vm_compute")
    if ok_build:
        for i in range(4 if quick else 10):
            jobs.append(("ctl", {"script": "c09_ctl.py", "seed": seed + 101 * i, "n": 3 if quick else 6, "budget_s": 60 if quick else 600}))
        for i in range(1 if quick else 4):
            jobs.append(("dims", {"script": "c09_dims.py", "seed": seed + 31 * i, "n": 2 if quick else 4}))
        for i in range(2 if quick else 6):
            jobs.append(("td", {"script": "c09_td.py", "seed": seed + 53 * i, "n": 3 if quick else 5}))
        for i in range(2 if quick else 6):
            jobs.append(("ps", {"script": "c09_ps.py", "seed": seed + 7 * i, "n": 6 if quick else 12}))
    nsh = 14
    budget = 75 if quick else 900
    for i in range(nsh):
        jobs.append(("oracle", {"script": "c09_oracle.py", "seed": seed, "shard": i, "nshards": nsh, "tier": ctx.tier, "budget_s": budget}))
    # the long oracle shards first
    jobs.sort(key=lambda j: {"oracle": 0, "pc": 1, "ctl": 2, "td": 3, "dims": 3, "ps": 4}[j[0]])
    results = ctx.impl_par("c09_dispatch.py", [p for _, p in jobs], timeout=(420 if quick else 3000), par=14)
    by = {"pc": [], "ctl": [], "ps": [], "oracle": [], "td": [], "dims": []}
    for (kind, _), r in zip(jobs, results):
        by[kind].append(r)
    # ---- P&C tie
    for rc, res, raw in by["pc"]:
        if res is None or "n" not in res:
            corr_bad.append({"what": "c09_pc.py failed", "out": (raw or "")[-800:]})
            continue
        ev += res["n"]
        nontriv += res["n"] - res["nbad"]
        if res["nbad"]:
            corr_bad.append({"what": "P&C one-step result differs from the model polynomial", "cases": res["bad"][:5]})
        samples += res["samples"][:1]
    n_pc = ev
    # ---- controller traces
    n_ctl = n_ctl_ok = n_resid = 0
    traces = []
    for rc, res, raw in by["ctl"]:
        if res is None or "traces" not in res:
            corr_bad.append({"what": "c09_ctl.py failed", "out": (raw or "")[-800:]})
            continue
        if res["problems"]:
            corr_bad.append({"what": "controller log incomplete / run raised", "cases": res["problems"][:2]})
        traces += [t for t in res["traces"] if t["exc"] is None and t["its"] and all(i["p"] is not None for i in t["its"])]
    # exact rational replay: the numbers gain ~53 bits per iteration, so very long traces are left out (counted)
    n_long = sum(1 for t in traces if len(t["its"]) > 30)
    traces = [t for t in traces if len(t["its"]) <= 30]
    # ---- PS runs
    runs = []
    for rc, res, raw in by["ps"]:
        if res is None or "runs" not in res:
            corr_bad.append({"what": "c09_ps.py failed", "out": (raw or "")[-800:]})
            continue
        runs += res["runs"]
    good = [r for r in runs if r["exc"] is None]
    ivp_bad = [{k: v for k, v in r.items() if k != "obs"} for r in good
               if r.get("ivp_calls_checked") and (not r["ivp_span_ok"] or r["ivp_max_err"] > 1e-4)]
    for r in runs:
        if r["exc"] is not None:
            corr_bad.append({"what": "projector-splitting step raised", "run": {k: v for k, v in r.items() if k != "obs"}})
    # ---- adaptive general RK with a time-dependent callable
    td_runs = []
    td_classes = []
    for rc, res, raw in by["td"]:
        if res is None or "runs" not in res:
            corr_bad.append({"what": "c09_td.py failed", "out": (raw or "")[-800:]})
            continue
        for r in res["runs"]:
            if r["exc"] is not None or not r["its"] or any(i["p"] is None or i["outcome"] is None for i in r["its"]):
                corr_bad.append({"what": "time-dependent adaptive run raised / incomplete log", "run": {k: v for k, v in r.items() if k != "sample_times"}})
            elif len(r["its"]) <= 30:
                td_runs.append(r)
    # ---- bond limits
    dim_cases = []
    dim_other = []
    for rc, res, raw in by["dims"]:
        if res is None or "cases" not in res:
            corr_bad.append({"what": "c09_dims.py failed", "out": (raw or "")[-800:]})
            continue
        for c in res["cases"]:
            if c["exc"] is not None:
                corr_bad.append({"what": "scheme raised in the bond-limit runs", "case": c})
            elif c["kind"] in ("taylor", "tdrk4", "rk"):
                dim_cases.append(c)
            else:
                dim_other.append(c)
    # ---- replay both through the Coq models
    items = []
    if dim_cases:
        items.append(("dims", dims_coq_text(dim_cases)))
    if td_runs and tabs is not None:
        items.append(("td", td_coq_text(td_runs, tabs)))
    if traces:
        items.append(("ctl", ctl_coq_text(traces)))
    if good:
        items.append(("ps", ps_coq_text(good)))
    outs = ctx.coq_eval_many(items) if (items and ok_build) else {}
    if traces and ok_build:
        rc, out = outs.get("ctl", (1, ""))
        zl = common.parse_Z_lists(out) if rc == 0 else []
        if len(zl) != len(traces):
            corr_bad.append({"what": "controller replay in Coq failed", "out": out[-800:]})
        else:
            for t, zs in zip(traces, zl):
                n_ctl += 1
                ev += len(t["its"])
                d = compare_ctl(t, zs)
                if d is None:
                    n_ctl_ok += 1
                    if any(i["outcome"] == "reject" for i in t["its"]) or len(t["its"]) > 1:
                        nontriv += 1
                elif d == "residual-allclose":
                    n_resid += 1
                else:
                    corr_bad.append({"what": "controller trace differs from Model/StepCtl.v", "ctl": t["ctl"], "scheme": t["scheme"], "diff": d,
                                     "target": t["target"], "guess0": t["guess0"], "its": t["its"][:6]})
            samples.append({"controller": traces[0]["ctl"], "target": traces[0]["target"], "guess0": traces[0]["guess0"],
                            "iterations": [(i["dt"], i["p"], i["outcome"]) for i in traces[0]["its"][:4]]})
        ctx.notes.append("controller traces: %d replayed, %d equal, %d ended early by allclose (residual), %d longer than 30 iterations not replayed" % (n_ctl, n_ctl_ok, n_resid, n_long))
    n_dims = n_dims_ok = 0
    dim_bad = []
    if dim_cases and ok_build:
        rc, out = outs.get("dims", (1, ""))
        zl = common.parse_Z_lists(out) if rc == 0 else []
        if len(zl) != len(dim_cases):
            corr_bad.append({"what": "dbound evaluation in Coq failed", "out": out[-800:]})
        else:
            for c, bound in zip(dim_cases, zl):
                n_dims += 1
                ev += 1
                if len(bound) == len(c["out"]) and all(o <= b <= c["limit"] for o, b in zip(c["out"], bound)):
                    n_dims_ok += 1
                    if max(c["din"]) * max(c["dop"]) > c["limit"]:
                        nontriv += 1          # the limit was actually binding
                else:
                    dim_bad.append(dict(c, interpreter_bound=bound))
    for c in dim_other:                        # adaptive runs and the two-site sweep: the theorem's bound is the limit itself
        n_dims += 1
        ev += 1
        if all(o <= c["limit"] for o in c["out"]):
            n_dims_ok += 1
        else:
            dim_bad.append(c)
    if n_dims:
        ctx.notes.append("bond limit: %d scheme runs, %d with bond_dims <= interpreter bound <= limit" % (n_dims, n_dims_ok))
    n_td = n_td_ok = 0
    if td_runs and ok_build and tabs is not None:
        rc, out = outs.get("td", (1, ""))
        zl = common.parse_Z_lists(out) if rc == 0 else []
        if len(zl) != 2 * len(td_runs):
            corr_bad.append({"what": "time-dependent replay in Coq failed", "out": out[-800:]})
        else:
            for k, r in enumerate(td_runs):
                n_td += 1
                zs, zt = zl[2 * k], zl[2 * k + 1]
                d = compare_ctl(r, zs)
                model_t = [zt[2 * j] / zt[2 * j + 1] for j in range(len(zt) // 2)]
                ev += len(model_t)
                tdiff = None
                if len(model_t) != len(r["sample_times"]):
                    tdiff = "number of samples: model %d, implementation %d" % (len(model_t), len(r["sample_times"]))
                else:
                    for j, (a_, b_) in enumerate(zip(model_t, r["sample_times"])):
                        if abs(a_ - b_) > 1e-10 * max(1.0, abs(a_)):
                            tdiff = "sample %d: model t = %r (c_i*dt + accepted time), implementation sampled H at t = %r" % (j, a_, b_)
                            break
                dense_bad = not (r["err"] is not None and r["err"] <= r["bound"])
                if d in (None, "residual-allclose") and tdiff is None and not dense_bad:
                    n_td_ok += 1
                    if r["n_accepted"] >= 2:
                        nontriv += 1
                else:
                    td_classes.append({"solver": r["solver"], "target": r["target"], "guess0": r["guess0"], "rtol": r["rtol"], "controller_diff": d,
                                       "sample_time_diff": tdiff, "dense_error": r["err"], "dense_bound": r["bound"],
                                       "iterations": [(i["dt"], i["outcome"]) for i in r["its"][:6]], "first_samples": r["sample_times"][:14]})
            samples.append({"time_dependent_run": {k: td_runs[0][k] for k in ("solver", "target", "guess0", "rtol", "n_accepted", "err")},
                            "first_sample_times": td_runs[0]["sample_times"][:7]})
        ctx.notes.append("adaptive general RK with H(t) callable: %d runs, %d with sample times = c_i*dt + accepted time (model) and dense result within bound" % (n_td, n_td_ok))
    n_ps = n_ps_ok = 0
    if good and ok_build:
        rc, out = outs.get("ps", (1, ""))
        zl = common.parse_Z_lists(out) if rc == 0 else []
        if len(zl) != len(good):
            corr_bad.append({"what": "PS replay in Coq failed", "out": out[-800:]})
        else:
            for r, zs in zip(good, zl):
                n_ps += 1
                exp_ = model_obs(zs, r["solver"])
                got = impl_obs(r)
                ev += len(exp_)
                okr = len(got) >= len(exp_) and all(obs_eq(a, b) for a, b in zip(exp_, got)) and not any(x[0] == "K" for x in got[len(exp_):]) \
                    and r["end_to_right"] == r["to_right"] and r["end_q"] == r["q"]
                if okr:
                    n_ps_ok += 1
                    nontriv += 1
                else:
                    firstdiff = next((i for i, (a, b) in enumerate(zip(exp_, got)) if not obs_eq(a, b)), min(len(exp_), len(got)))
                    corr_bad.append({"what": "projector-splitting event trace differs from Model/PsSweep.v",
                                     "run": {k: v for k, v in r.items() if k != "obs"}, "first_difference_at": firstdiff,
                                     "model": exp_[max(0, firstdiff - 2):firstdiff + 3], "implementation": got[max(0, firstdiff - 2):firstdiff + 3]})
            samples.append({"ps_run": {k: v for k, v in good[0].items() if k != "obs"}, "first_events": good[0]["obs"][:6]})
        ctx.notes.append("PS event traces: %d runs, %d equal to the model" % (n_ps, n_ps_ok))
    # ---- dense oracle (always)
    classes = {}
    n_or = 0
    skipped = 0
    for rc, res, raw in by["oracle"]:
        if res is None or "failures" not in res:
            ctx.notes.append("an oracle shard did not finish (timeout / crash): " + (raw or "")[-300:].replace("\n", " | "))
            skipped += 1
            continue
        n_or += res["n"]
        skipped += res.get("skipped", 0)
        for k, v in res["failures"].items():
            for rec in v:
                classes.setdefault(classify(k, rec), []).append(dict(rec, oracle_class=k))
    ev += n_or
    ctx.notes.append("dense oracle: %d checks over all schemes; %d jobs skipped for time" % (n_or, skipped))
    # ------------------------------------------------------------------ 5. report
    if cinfo is not None and cinfo.get("tdrk_carry_rejected"):
        classes.setdefault("tdrk-adaptive-rejected-step-applied", []).append(
            {"source": "tx/stepctl.py: `new_mps, error = sub_time_step_evolve(new_mps, dt, evolved_dt)` binds the trial result to the loop-carried state before the accept test",
             "model": "C09_tdrk_state_time_refuted (compiled): exists a terminating run whose state has been propagated by more than the requested time"})
    if td_classes:
        classes.setdefault("tdrk-adaptive-callable-time-offset", []).extend(td_classes)
    if dim_bad:
        classes.setdefault("oracle/bond-limit/" + dim_bad[0]["kind"], []).extend(dim_bad)
    if ivp_bad:
        classes.setdefault("local-ode-solver-signed-step", []).extend(ivp_bad)
    for key, recs in sorted(classes.items()):
        repro = REPROS.get(key)
        found = repro is not None
        if not found and key.startswith("oracle/"):
            # a generic failure class: the failing record itself is the replay input
            repro = None
        what = {"tdrk-adaptive-rejected-step-applied": "theorem C09_tdrk_state_time (hypothesis tdrk_carry_rejected = false is refuted by the generated flag) and oracle clause `adaptive vs fixed`",
                "mu-vmf-cmf-overcomplete-reshape": "oracle clause `any gauge, sufficient bond dimension` (exception on an accepted input)",
                "vmf-overcomplete-singular-overlap": "oracle clause `any gauge, sufficient bond dimension` (exception on an accepted input)",
                "tdrk-adaptive-callable-time-offset": "theorem C09_tdrk_offset_is_accepted_time / Model.Prop.rk_stages (stage Hamiltonian sampled at c_i*dt + t0) vs the recorded sample times, and the dense fixed-step reference",
                "vmf-cmf-noncanonical-input": "oracle clause `any gauge, sufficient bond dimension` (mean-field TDVP on a non-canonical representation)",
                "local-ode-solver-signed-step": "oracle clauses `exp(-iHt) for real t` (t < 0) and `result does not depend on the local integrator`; contract of the local ODE solve (t_span of the requested sign, returns y(t_end))",
                "krylov-large-step": "oracle: projector splitting at full bond dimension with a large local dimension and dt*||H|| of 60-300 vs dense expm (Lanczos exponential beyond one block of vectors)",
                "nonuniform-bond-limits": "theorems C09_ps2_trunc_bond_is_pair_bond / C09_dims_le_limit_ps2 and the oracle with per-bond limits (exactness at exact ranks, every bond within its own limit)",
                "adaptive-error-not-relative": "theorem C09_error_measure_scale_invariant (generated error measure) and the homogeneity oracle: the accepted error must not depend on the norm of the state",
                "cmf-trapz-loses-norm": "homogeneity oracle: evolve(c psi) = c evolve(psi) with the factor in the tensors (normalize=False)",
                "input-object-reuse": "oracle clause `the result does not depend on how t is split into successive calls` (one input object re-used; its evolve_config must come back unchanged)",
                "tdvp-ps-noncanonical-input": "oracle clause `any gauge, sufficient bond dimension` (TDVP-PS inexact at full bond dimension)",
                "cmf-krylov-solver-dependence": "oracle clause `result does not depend on the local integrator`"}.get(key, "dense oracle: " + key)
        ctx.violation(key, what, {"n_records": len(recs), "records": recs[:3]}, found=found, repro=repro)
    if broken or corr_bad:
        ctx.violation("c09-proof-or-correspondence", "; ".join(broken + (["correspondence (P&C tie / controller traces / PS events)"] if corr_bad else [])),
                      {"coq_log_tail": log[-1500:] if isinstance(log, str) else "", "correspondence": corr_bad[:8]}, found=False)
    return {"evaluations": ev, "distinct_nontrivial": nontriv,
            "rule": "P&C: a (model, state, scheme, tableau/order, dt) case counts once its dense result matched the Coq-exported polynomial to 1e-10; controllers: a trace counts if it has more than one iteration or a rejection and equals the model; PS: a run counts if its whole event sequence equals the model; oracle checks are counted in evaluations only",
            "samples": samples[:3], "exhaustive": False,
            "input_distribution": {"pc_cases": n_pc, "controller_traces": n_ctl, "controller_traces_equal": n_ctl_ok,
                                   "controller_allclose_residual": n_resid, "ps_runs": n_ps, "ps_runs_equal": n_ps_ok, "bond_limit_runs": n_dims, "bond_limit_runs_ok": n_dims_ok, "time_dependent_adaptive_runs": n_td, "time_dependent_adaptive_runs_ok": n_td_ok,
                                   "oracle_checks": n_or, "oracle_jobs_skipped": skipped,
                                   "violation_classes": {k: len(v) for k, v in classes.items()}}}
