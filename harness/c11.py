"""C11: tree tensor network states behave as dense vectors for every topology.

1. build Model/Ttns.v, Proofs/TtnsProofs.v, Props/C11.v (theorems for ALL trees by nested induction);
2. exact tie on integer tree states: TTNS.random on random small trees (1..6 nodes, random parent assignment,
   children listed in random order, 1..2 basis sets per node, dummy nodes, spin / electron / SHO bases, with and
   without quantum numbers), non-zero entries replaced by small integers; sequences of 1..4 of add / scale /
   TTNO.apply; every operand and result node tensor exported; the Coq model recomputes all result node tensors
   from the operands (vm_compute over ZRing) and the lists are compared exactly;
3. dense oracle on float data (always): todense / add / scale / apply / canonicalise / lossless compress /
   norm / expectation (also partial operators) / 1- and 2-site and 1- and 2-DoF RDMs / entropies / bond
   entropies / child-order independence / from_mps.
"""
import json
import os
import shutil
import tempfile
import time

import common

MODEL_IMPORT = ("From Coq Require Import List ZArith.\nImport ListNotations.\n"
                "From RV Require Import Base.CRing Model.Ttns.\nLocal Open Scope Z_scope.\n"
                "Definition z (x : Z) : arr ZRing := @AZ ZRing x.\nDefinition a (l : list (arr ZRing)) : arr ZRing := @AL ZRing l.\n"
                "Definition N := mk ZRing.\nDefinition Oo := mko ZRing.\nDefinition frz := tfreeze ZRing.\n")


# ------------------------------------------------------------------------------------------- generators
def gen_order(rng, n):
    order = [[] for _ in range(n)]
    for i in range(1, n):
        order[rng.randrange(i)].append(i)
    for ch in order:
        rng.shuffle(ch)
    return order


def gen_basis(rng, integer_only):
    r = rng.random()
    if r < 0.5:
        return {"k": "spin"}
    if r < 0.78:
        return {"k": "elec"}
    if r < 0.84:
        return {"k": "sho", "n": 1}         # a non-dummy basis set with a single basis function (size-1 axis)
    return {"k": "sho", "n": rng.choice([2, 3])}


def nbas(d):
    return d["n"] if d["k"] == "sho" else 2


def all_parent_arrays(nmax):
    """every recursive tree (parent[i] < i) with at most nmax nodes, as children lists in increasing order"""
    res = []

    def rec(par, n):
        if len(par) == n:
            order = [[] for _ in range(n)]
            for i in range(1, n):
                order[par[i]].append(i)
            res.append(order)
            return
        for p in range(len(par)):
            rec(par + [p], n)
    for n in range(1, nmax + 1):
        rec([-1], n)
    return res


def boundary_shapes():
    """boundary-size trees: every basis set with nbas == 1 (Hilbert space of dimension one), single-node trees, trees
    mixing nbas == 1 non-dummy sets with dummy nodes and ordinary sets"""
    one = {"k": "sho", "n": 1}
    sp = {"k": "spin"}
    return [([[]], [[dict(one)]]),
            ([[]], [[dict(one), dict(one)]]),
            ([[1], []], [[dict(one)], [dict(one)]]),
            ([[1, 2], [], []], [[dict(one)], [], [dict(one), dict(one)]]),
            ([[]], [[dict(one), dict(sp)]]),
            ([[1], []], [[], [dict(one)]]),
            ([[2, 1], [], []], [[], [dict(one)], [dict(sp), dict(one)]]),
            ([[1], [2], []], [[dict(one)], [dict(sp)], []])]


def gen_tree_spec(rng, n=None, max_dense=1500, order=None, nodes=None):
    if nodes is not None:
        order = [list(ch) for ch in order]
        return {"order": order, "nodes": [[dict(d) for d in ds] for ds in nodes], "qn": False, "qntot": 0,
                "m": rng.choice([1, 2, 3]), "seed": rng.randrange(1, 2 ** 31)}
    while True:
        nn = n if n is not None else rng.choice([1, 2, 3, 3, 3, 4, 4, 4, 5, 5, 6])
        if order is not None:
            nn = len(order)
            order = [list(ch) for ch in order]
            for ch in order:
                rng.shuffle(ch)
        else:
            order = gen_order(rng, nn)
        nodes = []
        for i in range(nn):
            if nn > 1 and rng.random() < 0.2:
                nodes.append([])
            else:
                k = 1 if rng.random() < 0.6 else 2
                nodes.append([gen_basis(rng, False) for _ in range(k)])
        real = [d for ds in nodes for d in ds]
        if not real:
            nodes[rng.randrange(nn)] = [gen_basis(rng, False)]
            real = [d for ds in nodes for d in ds]
        dim = 1
        for d in real:
            dim *= nbas(d)
        if dim > max_dense:
            continue
        r = rng.random()
        qn = False if r < 0.4 else (True if r < 0.75 else 2)      # none / one quantum number / two components
        nq = sum(1 for d in real if d["k"] in ("spin", "elec"))
        ns = sum(1 for d in real if d["k"] == "spin")
        ne = nq - ns
        if qn and nq == 0:
            qn = False
        qntot = 0
        if qn is True:
            qntot = rng.choice([nq // 2, (nq + 1) // 2, rng.randint(0, nq)])
            if nq >= 2 and qntot in (0, nq) and rng.random() < 0.8:
                qntot = 1
        elif qn == 2:
            # (number of up spins, number of electrons) conserved separately
            qntot = [rng.choice([ns // 2, (ns + 1) // 2, rng.randint(0, ns)]), rng.choice([ne // 2, (ne + 1) // 2, rng.randint(0, ne)])]
        return {"order": order, "nodes": nodes, "qn": qn, "qntot": qntot, "m": rng.choice([1, 2, 2, 3, 3, 4]),
                "seed": rng.randrange(1, 2 ** 31)}


def dofs_of(spec, keep=None):
    res = []
    for i, ds in enumerate(spec["nodes"]):
        for j, d in enumerate(ds):
            if keep is None or j in keep[i]:
                res.append(("n%d_%d" % (i, j), d["k"]))
    return res


def gen_terms(rng, spec, dofs, integer_only, nterms=None):
    """terms with every local matrix real; quantum-number conserving when spec['qn']"""
    if not dofs:
        return []
    qn = spec["qn"]
    terms = []
    for _ in range(nterms or rng.randint(1, 4)):
        k = min(len(dofs), rng.choice([1, 1, 2, 2, 3]))
        chosen = rng.sample(dofs, k)
        ops = []
        raise_lower = []          # dofs that may carry a raising / lowering pair
        for dof, kind in chosen:
            if kind == "sho":
                c = rng.random()
                if integer_only or c < 0.5:
                    ops += [[r"b^\dagger", dof], ["b", dof]]
                elif c < 0.7:
                    ops += [[r"b^\dagger", dof]]
                elif c < 0.9:
                    ops += [["b", dof]]
                else:
                    ops += [["x", dof]]
            elif qn:
                raise_lower.append((dof, kind))
            elif kind == "spin":
                ops += [[rng.choice(["sigma_x", "sigma_z", "sigma_+", "sigma_-"]), dof]]
            else:
                c = rng.choice(["n", "c", "a"])
                ops += [[r"a^\dagger", dof], ["a", dof]] if c == "n" else ([[r"a^\dagger", dof]] if c == "c" else [["a", dof]])
        if qn:
            rng.shuffle(raise_lower)
            if qn == 2 and qn is not True:
                # two components: a raising operator must be paired with a lowering one of the same kind
                raise_lower.sort(key=lambda x: x[1])
            rest = []
            while len(raise_lower) >= 2:
                (d1, k1), (d2, k2) = raise_lower.pop(), raise_lower.pop()
                if rng.random() < 0.7 and (qn is True or k1 == k2):
                    ops += [["sigma_-" if k1 == "spin" else r"a^\dagger", d1]]      # qn +1
                    ops += [["sigma_+" if k2 == "spin" else "a", d2]]               # qn -1
                else:
                    rest += [(d1, k1), (d2, k2)]
            raise_lower += rest
            for dof, kind in raise_lower:
                ops += [["sigma_z", dof]] if kind == "spin" else [[r"a^\dagger", dof], ["a", dof]]
        f = rng.choice([-3, -2, -1, 1, 2, 3]) if integer_only else round(rng.uniform(-2, 2), 3) or 0.5
        # terms with identical operator strings may cancel to the zero operator, which TTNO() cannot build (C02's
        # subject, not C11's): keep one term per operator string
        if sorted(map(tuple, ops)) not in [sorted(map(tuple, t["ops"])) for t in terms]:
            terms.append({"f": f, "ops": ops})
    return terms


def gen_oracle_spec(rng, n=None, order=None, nodes=None):
    spec = gen_tree_spec(rng, n, order=order, nodes=nodes)
    spec["terms"] = gen_terms(rng, spec, dofs_of(spec), False)
    keep = [[j for j in range(len(ds)) if rng.random() < 0.6] for ds in spec["nodes"]]
    spec["keep"] = keep
    spec["pterms"] = gen_terms(rng, spec, dofs_of(spec, keep), False, nterms=rng.randint(1, 2))
    order2 = [list(ch) for ch in spec["order"]]
    for ch in order2:
        rng.shuffle(ch)
    if order2 == spec["order"]:
        for ch in order2:
            if len(ch) > 1:
                ch.reverse()
                break
    spec["order2"] = order2
    spec["cz"] = [round(rng.uniform(-1.5, 1.5), 3), round(rng.uniform(0.2, 1.5), 3)]
    return spec


def gen_mps_spec(rng):
    n = rng.randint(2, 5)
    sites = [gen_basis(rng, False) for _ in range(n)]
    qn = rng.random() < 0.5 and any(d["k"] != "sho" for d in sites)
    nq = sum(1 for d in sites if d["k"] != "sho")
    spec = {"nodes": [[d] for d in sites], "qn": qn}
    terms = gen_terms(rng, spec, dofs_of(spec), False, nterms=rng.randint(1, 4))
    return {"sites": sites, "qn": qn, "qntot": max(1, nq // 2) if qn else 0, "m": rng.choice([2, 4, 6]),
            "seed": rng.randrange(1, 2 ** 31), "terms": terms}


def gen_tie_case(rng, n=None, order=None, nodes=None):
    spec = gen_tree_spec(rng, n, max_dense=10 ** 9, order=order, nodes=nodes)
    spec["m"] = rng.choice([1, 2, 2, 3])
    spec["states"] = [{"seed": rng.randrange(1, 2 ** 31), "m": rng.choice([1, 2, 2, 3]), "coeff": rng.choice([1, 1, 1, 2, -3])}
                      for _ in range(rng.randint(2, 3))]
    if rng.random() < 0.3:              # a common prefactor != 1: TTNS.add keeps it (equal-prefactor branch)
        c = rng.choice([2, -3])
        for st in spec["states"]:
            st["coeff"] = c
    spec["ops"] = [gen_terms(rng, spec, dofs_of(spec), True, nterms=rng.randint(1, 3)) for _ in range(rng.randint(1, 2))]
    seq = []
    for _ in range(rng.randint(1, 4)):
        c = rng.random()
        if c < 0.4:
            seq.append(["add", rng.randrange(len(spec["states"]))])
        elif c < 0.6:
            seq.append(["scale", rng.choice([-3, -2, -1, 2, 3, 0])])
        else:
            seq.append(["apply", rng.randrange(len(spec["ops"]))])
    spec["seq"] = seq
    spec["cap"] = 2500
    return spec


def gen_env_case(rng, n=None, order=None, nodes=None):
    """small trees for the expectation / RDM tie over the Gaussian integers"""
    while True:
        spec = gen_tree_spec(rng, n if n is not None else rng.choice([1, 2, 3, 3, 4, 4, 5]), max_dense=300, order=order, nodes=nodes)
        if sum(len(ds) for ds in spec["nodes"]) <= 6:
            break
    spec["state"] = {"seed": rng.randrange(1, 2 ** 31), "m": rng.choice([1, 2, 2])}
    spec["terms"] = gen_terms(rng, spec, dofs_of(spec), True, nterms=rng.randint(1, 3))
    keep = [[j for j in range(len(ds)) if rng.random() < 0.6] for ds in spec["nodes"]]
    spec["keep"] = keep
    spec["pterms"] = gen_terms(rng, spec, dofs_of(spec, keep), True, nterms=rng.randint(1, 2))
    nn = len(spec["order"])
    pairs = [(i, j) for i in range(nn) for j in range(nn) if i != j]
    rng.shuffle(pairs)
    spec["pairs"] = [list(x) for x in pairs[:4]]
    return spec


ENV_IMPORT = ("From Coq Require Import List ZArith.\nImport ListNotations.\n"
              "From RV Require Import Base.CRing Model.Ttns Model.TtnsEnv.\nLocal Open Scope Z_scope.\n"
              "Definition g (re im : Z) : arr GiRing := @AZ GiRing (re, im).\n"
              "Definition a (l : list (arr GiRing)) : arr GiRing := @AL GiRing l.\n"
              "Definition N := mk GiRing.\nDefinition Pn := mkp GiRing.\n")


def coq_garr(x):
    if isinstance(x, list) and len(x) == 2 and not isinstance(x[0], list):
        return "g %s %s" % tuple(("%d" % v) if v >= 0 else ("(%d)" % v) for v in x)
    return "a [" + "; ".join(coq_garr(y) for y in x) + "]"


def coq_gstate(t):
    return "(N %d%%nat %s %d%%nat (%s) [%s])" % (t["id"], coq_nat_list(t["pd"]), t["shape"][-1], coq_garr(t["t"]),
                                                "; ".join(coq_gstate(c) for c in t["ch"]))


def coq_pop(t, pds):
    npd = len(pds[t["id"]])
    mask = [(j in t["keep"]) for j in range(npd)]
    return "(Pn [%s] %d%%nat %s (%s) [%s])" % ("; ".join("true" if b else "false" for b in mask), t["shape"][-1],
                                             "false" if any(mask) else "true", coq_garr(t["t"]),
                                             "; ".join(coq_pop(c, pds) for c in t["ch"]))


def gflat(x, out):
    if isinstance(x, list) and len(x) == 2 and not isinstance(x[0], list):
        out.extend([int(x[0]), int(x[1])])
    else:
        for y in x:
            gflat(y, out)


def coq_env_case(case, r, tag):
    """Definitions + one Eval comparing (inside Coq) expectation values, all 1-site / 1-DoF RDMs and the requested
    2-site RDMs of the exported Gaussian-integer state with the implementation's values."""
    st = r["state"]
    pds, paths = {}, {}

    def walk(t, path):
        pds[t["id"]] = t["pd"]
        paths[t["id"]] = path
        for k, c in enumerate(t["ch"]):
            walk(c, path + [k])
    walk(st, [])
    full = dict(r["op"])
    lines = ["Definition %s_t : ttree GiRing := %s." % (tag, coq_gstate(st))]
    # a full TTNO keeps every DoF of every node (also the dummy DoF of dummy nodes)
    def allkeep(t):
        t = dict(t)
        t["keep"] = list(range(len(pds[t["id"]])))
        t["ch"] = [allkeep(c) for c in t["ch"]]
        return t
    lines.append("Definition %s_o : ptree GiRing := %s." % (tag, coq_pop(allkeep(full), pds)))
    exprs = ["gflat [texpect GiRing %s_t %s_o]" % (tag, tag)]
    exp = list(r["e_full"])
    if r.get("pop") is not None:
        lines.append("Definition %s_p : ptree GiRing := %s." % (tag, coq_pop(r["pop"], pds)))
        exprs.append("gflat [texpect GiRing %s_t %s_p]" % (tag, tag))
        exp += r["e_part"]
    exprs.append("gflat [texpect GiRing %s_t (pdummy_of GiRing %s_t)]" % (tag, tag))
    exp += r["norm2"]
    nent = 3
    for i in sorted(pds):
        exprs.append("gflat (rdm1_all GiRing %s_t %s %s)" % (tag, coq_nat_list(paths[i]), coq_nat_list(pds[i])))
        gflat(r["rdm1"][str(i)], exp)
        nent += 1
        for j, dj in enumerate(pds[i]):
            key = "n%d_%d" % (i, j)
            if key in r["rdm1dof"]:
                exprs.append("gflat (rdm1dof_all GiRing %s_t %s %d%%nat %d%%nat)" % (tag, coq_nat_list(paths[i]), j, dj))
                gflat(r["rdm1dof"][key], exp)
                nent += 1
    for x in r["rdm2"]:
        exprs.append("gflat (rdm2_all GiRing %s_t %s %s %s %s)" % (tag, coq_nat_list(paths[x["i"]]), coq_nat_list(paths[x["j"]]),
                                                                   coq_nat_list(pds[x["i"]]), coq_nat_list(pds[x["j"]])))
        gflat(x["t"], exp)
        nent += 1
    lines.append("Eval vm_compute in (zdiff (%s) [%s])." % (" ++ ".join(exprs), "; ".join(str(v) for v in exp)))
    return "\n".join(lines) + "\n", len(exp) // 2, nent


# ------------------------------------------------------------------------------------------- Coq text
def coq_nat_list(xs):
    return "[" + "; ".join("%d%%nat" % x for x in xs) + "]"


def coq_arr(x):
    if isinstance(x, list):
        return "a [" + "; ".join(coq_arr(y) for y in x) + "]"
    return "z %d" % x if x >= 0 else "z (%d)" % x


def coq_state(t):
    return "(N %d%%nat %s %d%%nat (%s) [%s])" % (t["id"], coq_nat_list(t["pd"]), t["shape"][-1], coq_arr(t["t"]),
                                                "; ".join(coq_state(c) for c in t["ch"]))


def coq_op(t):
    return "(Oo %s %d%%nat (%s) [%s])" % (coq_nat_list(t["pd"]), t["shape"][-1], coq_arr(t["t"]),
                                         "; ".join(coq_op(c) for c in t["ch"]))


def flat(x, out):
    if isinstance(x, list):
        for y in x:
            flat(y, out)
    else:
        out.append(int(x))


def dump_expected(t, out):
    out.append(len(t["shape"]))
    out.extend(t["shape"])
    flat(t["t"], out)
    for c in t["ch"]:
        dump_expected(c, out)


def tracked_coeffs(case, nsteps):
    """prefactor (coeff) of the running state after every step, as the library is expected to track it"""
    c = case["states"][0].get("coeff", 1)
    out = []
    for step in case["seq"][:nsteps]:
        if step[0] == "add" and c != case["states"][step[1]].get("coeff", 1):
            c = 1                       # different prefactors are folded into the root; equal ones are kept
        out.append(c)
    return out


def coq_case(case, res, expected_steps, tag):
    """Top-level Definitions (a `let ... in` chain makes Coq's elaboration take minutes once a bound tree is used
    twice), then one Eval printing the per-step zdiff results."""
    lines = []
    for i, s in enumerate(res["states"]):
        lines.append("Definition %s_s%d : ttree ZRing := %s." % (tag, i, coq_state(s)))
    for i, o in enumerate(res["ops"]):
        lines.append("Definition %s_o%d : otree ZRing := %s." % (tag, i, coq_op(o)))
    prev = "%s_s0" % tag
    names = []
    coeff = case["states"][0].get("coeff", 1)          # prefactor of the running state, as the library tracks it
    coeffs_model = []
    for k, step in enumerate(case["seq"][:len(res["results"])]):
        if step[0] == "add":
            cb = case["states"][step[1]].get("coeff", 1)
            e = "snd (tadd_state ZRing Z.eqb (%d) (%d) %s %s_s%d)" % (coeff, cb, prev, tag, step[1])
            coeffs_model.append("fst (tadd_state ZRing Z.eqb (%d) (%d) %s %s_s%d)" % (coeff, cb, prev, tag, step[1]))
            if coeff != cb:
                coeff = 1
        elif step[0] == "scale":
            e = "tscale ZRing (%d) %s" % (step[1], prev)
        else:
            e = "tapply ZRing %s_o%d %s" % (tag, step[1], prev)
        prev = "%s_q%d" % (tag, k)
        lines.append("Definition %s : ttree ZRing := frz (%s)." % (prev, e))
        names.append(prev)
    # last group: the model's prefactor after every add against the library's
    addc = [c for st, c in zip(case["seq"], res.get("coeffs") or []) if st[0] == "add"]
    pairs = [(cm, ci) for cm, ci in zip(coeffs_model, addc) if ci is not None]
    lines.append("Eval vm_compute in (" + " ++ ".join("zdiff (tdump %s) [%s]" % (n, "; ".join(str(x) for x in e))
                                                       for n, e in zip(names, expected_steps))
                 + " ++ zdiff [%s] [%s])." % ("; ".join(cm for cm, _ in pairs), "; ".join(str(ci) for _, ci in pairs)))
    return "\n".join(lines) + "\n"


REPRO = '''import sys, json
sys.path.insert(0, "/verif/harness/impl")
import c11_oracle
sys.exit(c11_oracle.replay(json.loads(%r)))
'''


def n_nodes(spec):
    return len(spec["sites"]) if "sites" in spec else len(spec["order"])


def failure_key(f):
    """stable id of a failure class: the FIRST check that fails on a spec (execution order of c11_oracle.run_spec)
    is taken as the root cause; later failing checks of the same spec mostly consume its result"""
    spec = f["spec"]
    chk = f.get("first") or f["check"]
    if "sites" not in spec:
        if chk in ("add", "add-op", "add-complex") and len(spec["order"]) == 1:
            return "ttns-add-single-node"
        if chk in ("todense", "todense-default", "todense-order") and any(d.get("n") == 1 for ds in spec["nodes"] for d in ds):
            return "ttns-todense-nbas1"
        if chk in ("todense", "todense-default") and any(not ds for ds in spec["nodes"]):
            return "ttns-todense-dummy"
        if spec.get("qn") == 2 and spec.get("qn") is not True and chk in ("expectation", "expectation-complex", "expectation1", "norm", "norm-coeff", "normalize"):
            return "ttns-expectation-qn2"
    return "oracle-" + chk.split(":")[0]


# ------------------------------------------------------------------------------------------- the check
def run(ctx):
    rng = ctx.rng
    thorough = ctx.tier == "thorough"
    ctx.trusted += [
        "correspondence harness/c11.py + harness/impl/c11_tie.py: integer node tensors of TTNS.add/scale and TTNO.apply results vs Model/Ttns.v (tadd/tscale/tapply) evaluated by vm_compute over ZRing; JSON -> Coq literal rendering",
        "modelled, not verified: the numerical kernels inside canonicalise/compress (blocked QR/SVD of svd_qn) enter the theorems as witnesses with the contract M = Q.V^T; opt_einsum evaluates the einsum it is given; binary64 rounding",
        "oracle only (no theorem): expectation via TTNEnviron, calc_1site/2site/1dof/2dof RDMs, entropies, bond entropies, from_mps on Mps objects (from_mps_dense is proved for the chain model of Model/Chain.v)",
        "the print_tree stub /verif/pylib/print_tree.py, CPython/NumPy/SciPy/opt_einsum",
    ]
    tm = {}
    t_ = time.time()
    # 1+2. Coq
    ok_build, log = ctx.coq_make(["Proofs/TtnsProofs.vo", "Proofs/TtnsEnvProofs.vo"])
    ok_props = False
    if ok_build:
        ok_props, log = ctx.props("Props/C11.v")
    else:
        ctx.obligations.append({"name": "C11 (build of Model/Ttns.v + Proofs/TtnsProofs.v)", "file": "Proofs/TtnsProofs.v", "ok": False, "assumptions": None})

    tm["coq build+props"] = time.time() - t_
    t_ = time.time()
    # 3. exact tie
    n_tie = 1500 if thorough else 150
    cases = []
    # the corpus: one-node tree, two-node tree, a dummy root, then random
    for n in (1, 1, 2, 2):
        cases.append(gen_tie_case(rng, n))
    for o, nd in boundary_shapes():
        cases.append(gen_tie_case(rng, order=o, nodes=nd))
    topo = all_parent_arrays(6) if thorough else all_parent_arrays(4)      # 154 resp. 10 recursive trees, exhaustively
    for o in topo:
        cases.append(gen_tie_case(rng, order=o))
    while len(cases) < n_tie:
        cases.append(gen_tie_case(rng))
    # small malformed stream: second operand lives on a differently shaped tree
    n_mal = 0
    for c in cases[4:]:
        if n_mal >= (40 if thorough else 6):
            break
        n = len(c["order"])
        if n >= 3 and rng.random() < 0.3:
            bad = gen_order(rng, n)
            if sorted(map(len, bad)) != sorted(map(len, c["order"])):
                c["malformed"] = "topology"
                c["order_bad"] = bad
                n_mal += 1
    nshard = 14 if thorough else 10
    shards = [cases[i::nshard] for i in range(nshard)]
    tmpd = tempfile.mkdtemp(prefix="c11_", dir="/tmp")
    rs = ctx.impl_par("c11_tie.py", [{"cases": sh, "out": os.path.join(tmpd, "tie_%d.json" % i)} for i, sh in enumerate(shards)],
                      timeout=7200 if thorough else 1200)
    rs = [_from_file(x) for x in rs]
    tm["tie impl"] = time.time() - t_
    t_ = time.time()
    tie_bad = []
    results = {}
    for si, (rc, res, out) in enumerate(rs):
        if res is None:
            tie_bad.append({"what": "implementation script failed", "out": (out or "")[-1500:]})
            continue
        for ci, r in enumerate(res["cases"]):
            results[(si, ci)] = r
    items = []
    expected = {}
    evals = 0
    skipped = 0
    rejected_mal = 0
    accepted_mal = []
    sig_seen = set()
    dist = {"nodes": {}, "ops": {}, "max_arity": {}, "qn": {}, "dummy_nodes": 0, "multi_phys_nodes": 0, "steps": 0}
    samples = []
    for si, sh in enumerate(shards):
        texts = []
        exp = []
        for ci, case in enumerate(sh):
            r = results.get((si, ci))
            if r is None:
                continue
            if r.get("error"):
                tie_bad.append({"what": "implementation raised", "case": case, "error": r["error"]})
                continue
            if case.get("malformed") and r.get("skip"):
                skipped += 1
                continue
            if case.get("malformed"):
                if r.get("rejected"):
                    rejected_mal += 1
                else:
                    accepted_mal.append(r.get("note"))
                continue
            if r.get("skip") or not r["results"]:
                skipped += 1
                continue
            es = []
            for t in r["results"]:
                e1 = []
                dump_expected(t, e1)
                es.append(e1)
            texts.append(coq_case(case, r, es, "c%d" % ci))
            exp.append((case, r, [x for e1 in es for x in e1]))
        if texts:
            items.append(("tie_%d" % si, MODEL_IMPORT + "\n".join(texts)))
            expected["tie_%d" % si] = exp
    outs = ctx.coq_eval_many(items, timeout=7200 if thorough else 900) if (items and ok_build) else {}
    for name, exp in expected.items():
        rc, out = outs.get(name, (1, "not run"))
        lists = common.parse_Z_lists(out) if rc == 0 else None
        if lists is None or len(lists) != len(exp):
            tie_bad.append({"what": "model evaluation failed", "file": name, "rc": rc, "out": out[-1500:]})
            continue
        for (case, r, e), got in zip(exp, lists):
            evals += 1
            nsteps = len(r["results"])
            if r.get("coeffs") != tracked_coeffs(case, nsteps):
                tie_bad.append({"what": "prefactor (coeff) of a result differs from the model's bookkeeping (tadd_state)", "op": "add", "case": case,
                                "impl": r.get("coeffs"), "model": tracked_coeffs(case, nsteps)})
                continue
            if got != [0] * (nsteps + 1):
                # one zdiff per step: 0 = equal, otherwise kind, position, model value, implementation value
                k, i = 0, 0
                while i < len(got) and got[i] == 0:
                    k, i = k + 1, i + 1
                op = case["seq"][k][0] if k < nsteps else "add"      # last group = prefactors after add
                tie_bad.append({"what": "model and implementation node tensors differ", "op": op, "step": k, "case": case,
                                "zdiff [kind(1 value,2 model longer,3 impl longer); position; model; impl]": got[i:i + 4]})
                continue
            n = len(case["order"])
            ar = max(len(ch) for ch in case["order"])
            kinds = tuple(s[0] for s in case["seq"][:nsteps])
            dist["nodes"][str(n)] = dist["nodes"].get(str(n), 0) + 1
            dist["max_arity"][str(ar)] = dist["max_arity"].get(str(ar), 0) + 1
            dist["qn"][str(case["qn"])] = dist["qn"].get(str(case["qn"]), 0) + 1
            dist["dummy_nodes"] += sum(1 for ds in case["nodes"] if not ds)
            dist["multi_phys_nodes"] += sum(1 for ds in case["nodes"] if len(ds) > 1)
            dist["steps"] += nsteps
            for k in kinds:
                dist["ops"][k] = dist["ops"].get(k, 0) + 1
            shape_sig = json.dumps([case["order"], [[d["k"] for d in ds] for ds in case["nodes"]], kinds,
                                    [t["shape"] for t in _walk(r["results"][-1])]])
            nontrivial = (("add" in kinds or "apply" in kinds) and len(e) > 8)
            if nontrivial and shape_sig not in sig_seen:
                sig_seen.add(shape_sig)
            if len(samples) < 3 and n >= 3 and nsteps >= 2:
                samples.append({"order": case["order"], "nodes": case["nodes"], "qn": case["qn"], "seq": case["seq"][:nsteps],
                                "result_shapes": [t["shape"] for t in _walk(r["results"][-1])], "entries_compared": len(e)})
    ctx.notes.append("tie: %d cases compared exactly, %d skipped (TTNS.random could not build the sector / size cap), malformed: %d rejected, %d accepted by the library %s"
                     % (evals, skipped, rejected_mal, len(accepted_mal), accepted_mal[:2]))

    tm["tie coq"] = time.time() - t_
    t_ = time.time()
    # 3b. exact tie of expectation values and RDMs over the Gaussian integers
    n_env = 400 if thorough else 36
    ecases = [gen_env_case(rng, n) for n in (1, 2, 3)] + [gen_env_case(rng, order=o, nodes=nd) for o, nd in boundary_shapes()]
    while len(ecases) < n_env:
        ecases.append(gen_env_case(rng))
    eshards = [ecases[i::nshard] for i in range(nshard)]
    ers = ctx.impl_par("c11_envtie.py", [{"cases": sh, "out": os.path.join(tmpd, "env_%d.json" % i)} for i, sh in enumerate(eshards)],
                       timeout=7200 if thorough else 1200)
    ers = [_from_file(x) for x in ers]
    env_bad = []
    eitems = []
    eexp = {}
    env_skipped = 0
    for si, (rc, res, out) in enumerate(ers):
        if res is None:
            env_bad.append({"what": "implementation script failed", "out": (out or "")[-1500:]})
            continue
        texts, metas = [], []
        for ci, (case, r) in enumerate(zip(eshards[si], res["cases"])):
            if r.get("error"):
                env_bad.append({"what": "implementation raised", "case": case, "error": r["error"]})
                continue
            if r.get("skip") or not r.get("ok"):
                env_skipped += 1
                continue
            txt, nval, nent = coq_env_case(case, r, "e%d" % ci)
            texts.append(txt)
            metas.append((case, nval, nent))
        if texts:
            eitems.append(("env_%d" % si, ENV_IMPORT + "\n".join(texts)))
            eexp["env_%d" % si] = metas
    eouts = ctx.coq_eval_many(eitems, timeout=7200 if thorough else 900) if (eitems and ok_build) else {}
    env_cases = 0
    env_qn2 = 0
    env_values = 0
    env_tensors = 0
    for name, metas in eexp.items():
        rc, out = eouts.get(name, (1, "not run"))
        lists = common.parse_Z_lists(out) if rc == 0 else None
        if lists is None or len(lists) != len(metas):
            env_bad.append({"what": "model evaluation failed", "file": name, "rc": rc, "out": out[-1500:]})
            continue
        for (case, nval, nent), got in zip(metas, lists):
            if got != [0]:
                env_bad.append({"what": "model and implementation values differ (expectation / RDM)", "case": case,
                                "zdiff [kind; position in the flattened (re, im) list; model; impl]": got})
                continue
            env_cases += 1
            env_qn2 += 1 if (case.get("qn") == 2 and case.get("qn") is not True) else 0
            env_values += nval
            env_tensors += nent
    ctx.notes.append("env tie (Gaussian integers): %d cases, %d expectation values / RDM tensors, %d complex entries compared exactly; %d of the cases have two-component quantum numbers; %d skipped"
                     % (env_cases, env_tensors, env_values, env_qn2, env_skipped))
    tm["env tie"] = time.time() - t_
    t_ = time.time()
    # 4. dense oracle (always)
    n_or = 1200 if thorough else 80
    specs = [gen_oracle_spec(rng, n) for n in (1, 1, 2, 2, 3)] + [gen_oracle_spec(rng, order=o, nodes=nd) for o, nd in boundary_shapes()]
    for o in (all_parent_arrays(5) if thorough else []):
        specs.append(gen_oracle_spec(rng, order=o))
    while len(specs) < n_or:
        specs.append(gen_oracle_spec(rng))
    mps_specs = [gen_mps_spec(rng) for _ in range(200 if thorough else 14)]
    nsh = 14
    payloads = [{"specs": specs[i::nsh], "mps": mps_specs[i::nsh], "out": os.path.join(tmpd, "or_%d.json" % i)} for i in range(nsh)]
    ro = ctx.impl_par("c11_oracle.py", payloads, timeout=7200 if thorough else 1200)
    ro = [_from_file(x) for x in ro]
    shutil.rmtree(tmpd, ignore_errors=True)
    or_fail = []
    or_checked = 0
    or_specs = 0
    or_skipped = 0
    or_crash = []
    n_contract = 0
    n_qn2 = 0
    n_zero = 0
    hist = {}
    for rc, res, out in ro:
        if res is None:
            or_crash.append((out or "")[-1200:])
            continue
        n_contract += res.get("contract_checks", 0)
        n_qn2 += res.get("qn2_specs_run", 0)
        n_zero += res.get("zero_result_skips", 0)
        for k_, v_ in (res.get("history") or {}).items():
            hist[k_] = hist.get(k_, 0) + v_
        or_checked += res["checked"]
        or_specs += res["specs_run"]
        or_skipped += len(res["skipped"])
        or_fail += res["failures"]
    ctx.notes.append("oracle: %d specs with two-component quantum numbers ran (expectation, norm, normalize, RDMs, ...); %d specs where the operator annihilates the state: canonicalise/compress of the zero vector skipped" % (n_qn2, n_zero))
    ctx.notes.append("oracle: operator objects (TTNO, partial TTNO, TTNO.dummy) reused across states on different basis trees in both orders, results vs dense and vs the first call: %d specs, %d with a state on the tree with auxiliary DoFs, %d with a state on the operator's own sub-tree; RDMs re-checked after in-place normalize/scale on every spec"
                     % (hist.get("specs", 0), hist.get("with_aux", 0), hist.get("with_sub", 0)))
    ctx.notes.append("oracle: %d comparisons on %d specs (%d skipped: random state not constructible), %d failures; "
                     "%d logged svd_qn factorisations inside canonicalise/compress checked against the witness contract M = Q.V^T"
                     % (or_checked, or_specs, or_skipped, len(or_fail), n_contract))

    tm["oracle"] = time.time() - t_
    ctx.notes.append("wall seconds per phase: " + ", ".join("%s %.0f" % kv for kv in tm.items()))
    # 5. verdict
    classes = {}
    for f in or_fail:
        classes.setdefault(failure_key(f), []).append(f)
    for key, fs in sorted(classes.items()):
        fs.sort(key=lambda f: (f.get("rank", 0), n_nodes(f["spec"]), len(json.dumps(f["spec"]))))
        f = fs[0]
        also = sorted(set(x["check"] for x in fs) - {f["check"]})
        ctx.violation(key, "dense oracle: %s fails first on %d inputs%s%s" % (f["check"], len(set(json.dumps(x["spec"], sort_keys=True) for x in fs)),
                                                                            (" (then also: %s)" % ", ".join(also[:8])) if also else "",
                                                                            "; correspondence also differs" if tie_bad else ""),
                      {"check": f["check"], "error": f["err"][-800:], "spec": f["spec"], "n_failing": len(fs)},
                      found=True, repro=REPRO % (json.dumps(f["spec"]),))
    if or_crash:
        ctx.violation("oracle-crash", "oracle script crashed (machinery)", {"out": or_crash[:2]}, found=False)
    if not (ok_build and ok_props):
        ctx.violation("coq-build", "theorem(s) of Props/C11.v: " + ", ".join(o["name"] for o in ctx.obligations if not o["ok"]),
                      {"coq_log_tail": log[-2000:] if isinstance(log, str) else ""}, found=False)
    by_op = {}
    for t in tie_bad:
        by_op.setdefault(t.get("op", "machinery"), []).append(t)
    fam = {"add": ("add",), "scale": ("scale",), "apply": ("apply", "contract", "ttno-dense")}
    for op, ts in sorted(by_op.items()):
        # a differing node tensor is a failing input on the real code only if a dense vector is wrong too: use an
        # oracle failure of the same operation if there is one, else replay the differing case through the oracle
        t0 = min(ts, key=lambda t: len(json.dumps(t.get("case", ""))))
        found, repro = False, None
        same = [f for f in or_fail if any((f.get("first") or f["check"]).startswith(x) for x in fam.get(op, ()))]
        if same:
            same.sort(key=lambda f: (n_nodes(f["spec"]), len(json.dumps(f["spec"]))))
            found, repro = True, REPRO % (json.dumps(same[0]["spec"]),)
        elif "case" in t0:
            sp = dict(t0["case"])
            sp.update({"terms": (sp.get("ops") or [[]])[0], "keep": None, "pterms": [], "order2": None})
            rc, res, out = ctx.impl("c11_oracle.py", {"specs": [sp]})
            if res and res["failures"]:
                found, repro = True, REPRO % (json.dumps(sp),)
        ctx.violation("tie-" + op, "correspondence Model/Ttns.v <-> %s: %d cases whose node tensors differ"
                      % ({"add": "TTNS.add (tadd/tadd_coeff)", "scale": "TTNS.scale (tscale)", "apply": "TTNO.apply (tapply)"}.get(op, "implementation run (machinery)"), len(ts)),
                      {"first": t0, "n": len(ts)}, found=found, repro=repro)
    if env_bad:
        e0 = min(env_bad, key=lambda t: len(json.dumps(t.get("case", ""))))
        found, repro = False, None
        same = [f for f in or_fail if (f.get("first") or f["check"]) in ("expectation", "expectation-complex", "observables", "partial-operator", "norm", "norm-coeff")]
        if same:
            same.sort(key=lambda f: (n_nodes(f["spec"]), len(json.dumps(f["spec"]))))
            found, repro = True, REPRO % (json.dumps(same[0]["spec"]),)
        elif "case" in e0:
            sp = dict(e0["case"])
            sp.update({"m": sp["state"]["m"], "order2": None})
            rc, res, out = ctx.impl("c11_oracle.py", {"specs": [sp]})
            if res and res["failures"]:
                found, repro = True, REPRO % (json.dumps(sp),)
        ctx.violation("tie-env", "correspondence Model/TtnsEnv.v (cenv/texpect, rdm1_site, rdm1_dof, rdm2_site) <-> TTNS.expectation, calc_1site_rdm, calc_1dof_rdm, calc_2site_rdm: %d cases differ"
                      % len(env_bad), {"first": e0, "n": len(env_bad)}, found=found, repro=repro)
    return {"evaluations": evals + env_values + or_checked, "distinct_nontrivial": len(sig_seen),
            "rule": "tie case = all node tensors of every step of an add/scale/apply sequence equal between Model/Ttns.v and the implementation; counted as distinct non-trivial per (tree with child order, basis kinds, operation kinds, result shapes) when the sequence contains add or apply; oracle comparisons counted separately in notes",
            "samples": samples, "exhaustive": False,
            "tie_cases": evals, "env_tie_cases": env_cases, "env_tie_complex_entries": env_values, "oracle_comparisons": or_checked, "oracle_specs": or_specs,
            "input_distribution": dist}


def _from_file(x):
    """(rc, res, out) of impl_par where res = {"file": path}: load the real result (see c11_lib.emit)"""
    rc, res, out = x
    if res and "file" in res:
        try:
            with open(res["file"]) as f:
                res = json.load(f)
        except Exception as e:
            return rc, None, (out or "") + "\n[result file unreadable: %r]" % (e,)
    return rc, res, out


def _walk(t):
    yield t
    for c in t["ch"]:
        for x in _walk(c):
            yield x
