"""C17: Fermionic Hamiltonians and site reordering keep the physics unchanged."""
import itertools
import json
import os
import re
import sys

import common
sys.path.insert(0, os.path.join(common.VERIF, "tx"))
import jwrule as txjw
import simplifyop as txso
import qcmodel as txqc

TOL = 1e-9           # relative, dense comparisons
TOL_DYN = 1e-6       # relative, after time evolution / optimisation (solver tolerances)

COQ_HDR = ("From Coq Require Import ZArith List Bool String Arith.\nImport ListNotations.\n"
           "From RV Require Import Gen.SimplifyOp Gen.JwSwapRule Model.Jw Proofs.JwProofs.\nLocal Open Scope Z_scope.\n"
           "Fixpoint idx_of (s : string) (l : list string) : Z := match l with [] => -1 | x :: t => if String.eqb s x then 0 else "
           "(let r := idx_of s t in if r <? 0 then -1 else r + 1) end.\n")

COQ_TERMS = COQ_HDR + """
Definition enc_term (n : nat) (ops : list lop) : list Z :=
  let sites := filter (fun l => match site_emit ops l with Some _ => true | None => false end) (seq 0 n) in
  [sgn (term_sign_minus n ops); Z.of_nat (List.length sites)] ++
  flat_map (fun l => match site_emit ops l with
                     | Some (_, nw) => [Z.of_nat l; Z.of_nat (List.length nw)] ++ flat_map (fun s => [idx_of s qc_alphabet; fst (qn_of l s); snd (qn_of l s)]) nw
                     | None => [] end) sites.
Definition enc_all (n : nat) : list Z :=
  flat_map (fun x => [2; Z.of_nat (fst x); Z.of_nat (snd x)] ++ enc_term n (one_body_ops (fst x) (snd x))) (all_one_body n) ++
  flat_map (fun x => let '((p, q), (r, s)) := x in [4; Z.of_nat p; Z.of_nat q; Z.of_nat r; Z.of_nat s] ++ enc_term n (two_body_ops p q r s)) (all_two_body n).
"""

MAKE_INTEGRALS_SRC = None


def make_integrals_src():
    global MAKE_INTEGRALS_SRC
    if MAKE_INTEGRALS_SRC is None:
        txt = open(os.path.join(common.VERIF, "harness", "impl", "c17_lib.py")).read()
        a = txt.index("def make_integrals")
        b = txt.index("def jw_ops")
        MAKE_INTEGRALS_SRC = "import numpy as np\n" + txt[a:b]
    return MAKE_INTEGRALS_SRC


def repro_tdvp(case):
    return make_integrals_src() + """
from renormalizer.model import h_qc, Model
from renormalizer.mps import Mps, Mpo
from renormalizer.utils import CompressConfig, CompressCriteria, OFS, EvolveConfig, EvolveMethod
h, eri = make_integrals(%(nsp)d, %(seed)d, %(kind)r)
basis, terms = h_qc.qc_model(*h_qc.int_to_h(h, eri))          # symbols "+", "-", "Z"
model = Model(basis, terms); mpo = Mpo(model)
np.random.seed(%(rseed)d)
mps = Mps.random(model, %(nelec)r, 16, percent=1.0)
mps.compress_config = CompressConfig(CompressCriteria.fixed, max_bonddim=16); mps.canonicalise().compress()
mps.compress_config = CompressConfig(CompressCriteria.fixed, max_bonddim=%(M)d, ofs={o.value: o for o in OFS}[%(ofs)r], ofs_swap_jw=%(swap_jw)r)
mps.evolve_config = EvolveConfig(EvolveMethod.tdvp_ps2)
e0 = mps.expectation(mpo)
for _ in range(%(steps)d):
    mps = mps.evolve(mpo, %(dt)r)          # mpo is swapped in place together with the state
e1 = mps.expectation(mpo)
print("energy before", e0, "after", e1, "site order", [b.dof for b in mps.model.basis])
assert abs(e1 - e0) < 1e-6 * max(1.0, abs(e0)), "energy changed under on-the-fly swapping"
""" % case


def repro_dmrg(case, used_seed, used_rseed):
    src = open(os.path.join(common.VERIF, "harness", "impl", "c17_ofs.py")).read()
    fn = src[src.index("def to_original_order"):src.index("class SwapCounter")]
    d = dict(case)
    d.update(seed=used_seed, rseed=used_rseed, sweeps=case.get("sweeps", 7))
    return make_integrals_src() + "import itertools\n" + fn + """
from renormalizer.model import h_qc, Model, Op
from renormalizer.mps import Mps, Mpo
from renormalizer.mps.gs import optimize_mps
from renormalizer.utils import CompressConfig, CompressCriteria, OFS
nsp, nelec = %(nsp)d, %(nelec)r; n = 2 * nsp
h, eri = make_integrals(nsp, %(seed)d, %(kind)r)
basis, terms = h_qc.qc_model(*h_qc.int_to_h(h, eri))
if %(spelled)r == "sigma":
    ren = {"+": "sigma_+", "-": "sigma_-", "Z": "sigma_z"}
    terms = [Op(" ".join(ren[s] for s in t.split_symbol), t.dofs, t.factor, t.qn_list) for t in terms]
model = Model(basis, terms); mpo = Mpo(model); H = np.asarray(mpo.todense())        # original orbital order
occ = np.array([[(i >> (n - 1 - k)) & 1 for k in range(n)] for i in range(2 ** n)])
na, nb = occ[:, 0::2].sum(1), occ[:, 1::2].sum(1)
msk = (na == nelec[0]) & (nb == nelec[1]); exact = np.linalg.eigvalsh(H[np.ix_(msk, msk)])[0]
np.random.seed(%(rseed)d)
mps = Mps.random(model, nelec, 16, percent=1.0)
cc = lambda: CompressConfig(CompressCriteria.fixed, max_bonddim=%(M)d, ofs={o.value: o for o in OFS}[%(ofs)r], ofs_swap_jw=%(swap_jw)r)
perc = [0.4, 0.2, 0.1] + [0] * 20
mps.optimize_config.procedure = [[cc(), perc[k]] for k in range(%(sweeps)d)]     # CompressConfig entries: OFS really on
mps.optimize_config.method = "2site"
energies, res = optimize_mps(mps.copy(), mpo)
order = [b.dof for b in res.model.basis]
psi = np.asarray(res.todense()).ravel(); psi = psi / np.linalg.norm(psi)
v = to_original_order(psi, order, n, %(swap_jw)r)       # the returned state read in the site order of ITS OWN model
ray, a, b = v @ H @ v, v @ (na * v), v @ (nb * v)
print("reported", min(energies), "exact", exact, "order", order, "<H>", ray, "<Na>,<Nb>", a, b)
assert abs(a - nelec[0]) < 1e-6 and abs(b - nelec[1]) < 1e-6, "returned state has the wrong electron numbers in its own site order"
if not %(swap_jw)r:
    assert abs(res.expectation(Mpo(res.model)) - ray) < 1e-6 * max(1, abs(H).max()), "res.expectation(Mpo(res.model)) != <H> of the returned state"
if abs(min(energies) - exact) < 1e-6 * max(1, abs(H).max()):
    assert abs(ray - min(energies)) < 1e-6 * max(1, abs(H).max()), "returned state is not the optimised state"
""" % d


def repro_swapseq(case, raised):
    return make_integrals_src() + """
from renormalizer.model import h_qc, Model, Op
from renormalizer.mps import Mpo
h, eri = make_integrals(%(nsp)d, %(seed)d, %(kind)r)
basis, terms = h_qc.qc_model(*h_qc.int_to_h(h, eri), conserve_qn=%(qn)r)
if %(spelled)r == "sigma":
    ren = {"+": "sigma_+", "-": "sigma_-", "Z": "sigma_z"}
    terms = [Op(" ".join(ren[s] for s in t.split_symbol), t.dofs, t.factor, t.qn_list) for t in terms]
mpo = Mpo(Model(basis, terms)); w0 = np.linalg.eigvalsh(mpo.todense())
for i in %(seq)r:
    nb = list(mpo.model.basis); nb[i], nb[i + 1] = nb[i + 1], nb[i]
    mpo.try_swap_site(Model(nb, terms), %(swap_jw)r)
    print(i, mpo.bond_dims)
X = mpo.todense()
assert np.allclose(np.linalg.eigvalsh((X + X.T) / 2), w0, atol=1e-9 * max(1, abs(w0).max())) and np.allclose(X, X.T)
""" % case


PROBE_SRC = """
from renormalizer.mps import Mps
from renormalizer.utils import CompressConfig
np.random.seed(0)
mps = Mps.random(mpo.model, QNTOT, 16, percent=1.0)
H = np.asarray(mpo.todense()); v = np.asarray(mps.todense()).ravel(); ref = H @ v; tol = 1e-9 * max(1.0, abs(ref).max())
assert abs(np.asarray(mpo.apply(mps).todense()).ravel() - ref).max() < tol            # Mpo.apply(mps)
assert abs(np.asarray((mpo @ mps).todense()).ravel() - ref).max() < tol               # mpo @ mps
mpo2 = Mpo(mpo.model); P = H @ np.asarray(mpo2.todense())
assert abs(np.asarray(mpo.apply(mpo2).todense()) - P).max() < 1e-9 * max(1.0, abs(P).max())   # Mpo.apply(mpo)
mps.compress_config = CompressConfig(threshold=1e-13)
assert abs(ref).max() < 1e-8 or abs(np.asarray(mpo.contract(mps).todense()).ravel() - ref).max() < 1e-7 * max(1.0, abs(ref).max())   # contract
print("the exchanged operator can be applied")
"""


def repro_probe_swap(case):
    return repro_swapseq(case, None) + PROBE_SRC.replace("QNTOT", "[1, 1]" if case["qn"] else "0")


def repro_probe_fewterm(case, plan, group):
    return repro_fewterm(case, plan, group) + PROBE_SRC.replace("QNTOT", "[1, 1]" if case["family"] == "qcstack" else "0")


def probe_bad(pr):
    """-> description if the use-after-exchange probe failed"""
    if pr is None:
        return None
    if "raised" in pr:
        return "raised: " + pr["raised"][-300:]
    for k, tol in (("apply", TOL), ("matmul", TOL), ("apply_mpo", TOL), ("contract", 1e-7)):
        if not (pr.get(k, 1.0) <= tol):
            return "%s deviates from the dense product by %r" % (k, pr.get(k))
    return None


def repro_fewterm(case, plan, group):
    imp = os.path.join(common.VERIF, "harness", "impl")
    ft = open(os.path.join(imp, "c17_fewterm.py")).read()
    lib = open(os.path.join(imp, "c17_lib.py")).read()
    body = ft[ft.index("SX = "):ft.index("def one(")].replace("def L_emit", "def _unused_emit")
    sw = lib[lib.index("def swap_mats"):lib.index("RENAME = ")]
    return ("import functools, json, os, tempfile\nimport numpy as np\nfrom renormalizer.model import Model, Op, h_qc\n"
            "from renormalizer.model.basis import BasisHalfSpin, BasisSHO\nfrom renormalizer.mps import Mpo\n" + sw + body +
            "case = json.loads(%r)\nplan = %r\n" % (json.dumps(case), plan) + """
basis, ops, dims = build(case)
terms, local = ops[%d]
order = [b.dof for b in basis]; n = len(order)
mpo = Mpo(Model(basis, terms)); ref0 = reference(local, order, dims); G = np.eye(ref0.shape[0])
assert np.allclose(mpo.todense(), ref0)
for i in plan:
    basis = basis.copy(); basis[i], basis[i + 1] = basis[i + 1], basis[i]; order[i], order[i + 1] = order[i + 1], order[i]
    mpo.try_swap_site(Model(basis, terms), case["swap_jw"])
    if case["swap_jw"]:
        G = swap_mats(n, i)[1] @ G; ref = G @ ref0 @ G.T
    else:
        ref = reference(local, order, dims)
    X = mpo.todense()
    print("exchange", i, "order", order, "deviation", abs(X - ref).max(), "norm", np.linalg.norm(X), "reference norm", np.linalg.norm(ref))
    assert abs(X - ref).max() < 1e-9 * max(1.0, abs(ref).max()), "operator changed by the exchange of neighbouring sites"
""" % group)


def fewterm_cases(rng, thorough):
    coeffs = [k / 8.0 for k in list(range(-24, 0)) + list(range(1, 25)) if k != 8]
    cases = []

    def plans(n):
        walk = [rng.randrange(n - 1) for _ in range(rng.choice([6, 8]))]
        return [[i] for i in range(n - 1)] + [list(range(n - 1)), list(range(n - 2, -1, -1)), walk]

    def spin_term(n, jw, full):
        sites = list(range(n)) if full else sorted(rng.sample(range(n), rng.randrange(1, n + 1)))
        long_ = rng.random() < 0.6
        zs, ps, ms = ("sigma_z", "sigma_+", "sigma_-") if long_ else ("Z", "+", "-")
        alphabet = [[zs], [ps], [ms], [ps, ms], [zs, ps], [ms, zs]] + ([] if jw else [["sigma_x"], ["sigma_x", zs]])
        syms, dofs = [], []
        for d in sites:
            w = rng.choice(alphabet)
            syms += w
            dofs += [d] * len(w)
        return [syms, dofs, rng.choice(coeffs)]

    nsp = 10 if thorough else 4
    for k in range(nsp):
        for jw in (False, True):
            n = rng.choice([3, 4])
            nt = [1, 1, 2, 3][k % 4]
            terms = [spin_term(n, jw, full=(t == 0 and k % 2 == 0)) for t in range(nt)]
            cases.append({"family": "spin", "sites": [["spin", d] for d in range(n)], "terms": terms, "plans": plans(n), "swap_jw": jw})
    # the operator of the seeded demo: one term on all four sites, prefactor 0.7-like
    cases.append({"family": "spin", "sites": [["spin", d] for d in range(4)],
                  "terms": [[["sigma_z", "sigma_+", "sigma_-", "sigma_x"], [0, 1, 2, 3], rng.choice(coeffs)]], "plans": plans(4), "swap_jw": False})
    for k in range(6 if thorough else 3):
        om = [rng.choice([0.5, 1.0, 2.0]), rng.choice([0.5, 1.25, 2.0])]
        nb = rng.choice([3, 4])
        sites = [["spin", "s"], ["sho", "v0", om[0], nb], ["sho", "v1", om[1], nb]]
        rng.shuffle(sites)
        terms = [[["sigma_z", "x"], ["s", rng.choice(["v0", "v1"])], rng.choice(coeffs)]]
        if k % 3 == 1:
            terms.append([["b^\\dagger", "b"], ["v0", "v0"], rng.choice(coeffs)])
        if k % 3 == 2:
            terms = [[["sigma_x", "x", "b^\\dagger", "b"], ["s", "v0", "v1", "v1"], rng.choice(coeffs)]]
        cases.append({"family": "vib", "sites": sites, "terms": terms, "plans": plans(3), "swap_jw": False})
    for jw in (False, True):
        cases.append({"family": "qcstack", "eps": [rng.choice(coeffs), rng.choice(coeffs)], "plans": plans(4), "swap_jw": jw})
    return cases


# the two minimal cases found while building the check; always run first
CORPUS_TDVP = {"mode": "tdvp", "nsp": 2, "seed": 0, "kind": "dense", "spelled": "qc", "swap_jw": True, "ofs": "OFS-S", "M": 4,
               "nelec": [1, 1], "steps": 6, "dt": 0.05, "rseed": 3}
CORPUS_SINGLE = {"nsp": 2, "seed": 807339, "kind": "block", "qn": True, "spelled": "qc", "swap_jw": False, "seq": [1]}
CORPUS_SWAP = {"nsp": 3, "seed": 9, "kind": "dense", "qn": True, "spelled": "qc", "swap_jw": False, "seq": [2, 1]}


def parse_terms(flat):
    """decode enc_all -> {idx tuple: (sign, [(site, [(code, qa, qb)])])}"""
    out = {}
    pos = 0
    while pos < len(flat):
        k = flat[pos]
        idx = tuple(flat[pos + 1:pos + 1 + k])
        pos += 1 + k
        sign, ns = flat[pos], flat[pos + 1]
        pos += 2
        sites = []
        for _ in range(ns):
            l, ln = flat[pos], flat[pos + 1]
            pos += 2
            syms = []
            for _ in range(ln):
                syms.append(tuple(flat[pos:pos + 3]))
                pos += 3
            sites.append((l, syms))
        out[idx] = (sign, sites)
    return out


def unfile(r):
    """impl scripts hand large results over in a temp file (RESULT {"file": path})"""
    if isinstance(r, dict) and set(r) == {"file"}:
        try:
            with open(r["file"]) as f:
                val = json.load(f)
        except Exception:
            return None
        try:
            os.remove(r["file"])
        except OSError:
            pass
        return val
    return r


def chunks(xs, k):
    return [xs[i:i + k] for i in range(0, len(xs), k)]


def run(ctx):
    rng = ctx.rng
    thorough = ctx.tier == "thorough"
    ctx.trusted += [
        "translators tx/jwrule.py, tx/simplifyop.py (python ast -> Gallina definitions; fail-closed); self-tested each run: generated symbol matrices vs BasisHalfSpin.op_mat, generated rule vs table_row_swapped_jw on all word pairs, generated term classes vs qc_model output",
        "correspondence harness/c17.py + harness/impl/c17_*.py (term lists, rule outputs, dense matrices)",
        "modelled, not verified: the numerical decision to swap (entropies / discarded weights from SVD), the optimal-MPO reconstruction inside swap_site (covered only by the dense oracle here; C01 owns swap_sound), binary64 rounding",
        "hermiticity of the generated Hamiltonian for symmetric integrals is established by the dense oracle only (no Coq theorem)"]
    broken = []          # obligations that no longer check (strings)
    detail = {}
    samples = []
    ev = 0
    nontriv = 0
    dist = {}

    # ------------------------------------------------------------------ 1. translators
    jw_info = so_info = None
    try:
        text, jw_info = txjw.main(common.REPO)
        ctx.regen("Gen/JwSwapRule.v", text)
    except Exception as e:
        broken.append("translator tx/jwrule.py: %r" % (e,))
    try:
        text, so_info = txso.main(common.REPO)
        ctx.regen("Gen/SimplifyOp.v", text)
    except Exception as e:
        broken.append("translator tx/simplifyop.py: %r" % (e,))
    qc_info = None
    try:
        text, qc_info = txqc.main(common.REPO)
        ctx.regen("Gen/QcLoops.v", text)
    except Exception as e:
        broken.append("translator tx/qcmodel.py: %r" % (e,))
    tx_ok = jw_info is not None and so_info is not None and qc_info is not None

    # ------------------------------------------------------------------ 2. proofs
    ok_build, log = (False, "translator failed")
    ok_props = False
    if tx_ok:
        ok_build, log = ctx.coq_make(["Proofs/JwProofs.vo"])
        if ok_build:
            ok_props, log = ctx.props("Props/C17.v")
            if not ok_props:
                broken.append("theorem(s) of Props/C17.v: " + ", ".join(o["name"] for o in ctx.obligations if not o["ok"]))
        else:
            ctx.obligations.append({"name": "C17 (build of Gen/JwSwapRule.v, Gen/SimplifyOp.v, Model/Jw.v, Proofs/JwProofs.v)",
                                    "file": "Proofs/JwProofs.v", "ok": False, "assumptions": None})
            broken.append("build of Proofs/JwProofs.v (a generated definition changed so that a proof no longer goes through)")
        detail["coq_log_tail"] = log[-1500:]
    else:
        ctx.obligations.append({"name": "C17 translators", "file": "tx/", "ok": False, "assumptions": None})

    # coverage polarity on the current tree, instantiated as an unconditional theorem
    covered = None
    witness = None
    if ok_build:
        rc, out = ctx.coq_eval("cover_eval", COQ_HDR +
                               "Eval vm_compute in (match qc_counterexample with Some (w1, w2) => 1 :: map (fun s => idx_of s qc_alphabet) (w1 ++ w2) | None => [0] end).\n")
        flat = common.parse_Z_list(out) if rc == 0 else None
        if flat:
            covered = flat[0] == 0
            if not covered:
                alpha = so_info["alphabet"]
                witness = ([alpha[flat[1]]], [alpha[flat[2]]])
            cs = lambda w: "[" + "; ".join('"%s"%%string' % s for s in w) + "]"
            if covered:
                thm = ("Theorem jw_rule_covers_qc_symbols : forall s1 s2, In s1 qc_alphabet -> In s2 qc_alphabet -> pair_ok [s1] [s2] = true.\n"
                       "Proof. apply qc_no_counterexample_complete. vm_compute. reflexivity. Qed.\nPrint Assumptions jw_rule_covers_qc_symbols.\n")
                name = "jw_rule_covers_qc_symbols"
            else:
                thm = ("Theorem jw_rule_covers_qc_symbols_refuted : exists w1 w2,\n"
                       "  (exists s1 s2, In s1 qc_alphabet /\\ In s2 qc_alphabet /\\ w1 = [s1] /\\ w2 = [s2]) /\\\n"
                       "  (rule_new_op w1 w2 = None \\/ exists x, rule_new_op w1 w2 = Some x /\\ x <> conjF (rule_old_op w1 w2)).\n"
                       "Proof. exists %s, %s. apply qc_counterexample_sound. vm_compute. reflexivity. Qed.\n"
                       "Print Assumptions jw_rule_covers_qc_symbols_refuted.\n" % (cs(witness[0]), cs(witness[1])))
                name = "jw_rule_covers_qc_symbols_refuted"
            rc2, out2 = ctx.coq_eval("cover_now", COQ_HDR + thm)
            closed = rc2 == 0 and "Closed under the global context" in out2
            ctx.obligations.append({"name": name + " (instantiated on the current tree, Corr/run_C17/cover_now.v)",
                                    "file": "Corr/run_C17/cover_now.v", "ok": closed, "assumptions": [] if closed else None})
            if not closed:
                broken.append("instantiation of " + name)
                detail["cover_now_log"] = out2[-800:]
        else:
            broken.append("evaluation of qc_counterexample")
            detail["cover_eval_log"] = out[-800:]

    # ------------------------------------------------------------------ 3a. qc_model term lists + dense oracle
    nsps = [1, 2, 3, 4] if thorough else [1, 2, 3]
    kinds = ["dense", "sparse", "block", "diag", "float"]
    cases = []
    reps = 6 if thorough else 1
    for nsp in nsps:
        for kind in kinds:
            if kind == "block" and nsp == 1:
                continue
            for stacked in (False, True):
                for qn in (True, False):
                    r_ = reps if nsp < 4 else 1
                    if nsp == 4 and (stacked or not qn) and kind not in ("dense", "sparse"):
                        continue
                    for _ in range(r_):
                        cases.append({"nsp": nsp, "seed": rng.randrange(10 ** 6), "kind": kind, "stacked": stacked, "qn": qn})
    # malformed / degenerate stream: all integrals zero (qc_model must return an empty term list, nothing to compare)
    cases.append({"nsp": 1, "seed": 0, "kind": "zero", "stacked": False, "qn": True})
    small = [c for c in cases if c["nsp"] < 4]
    big = [c for c in cases if c["nsp"] == 4]
    payloads = [{"cases": ch} for ch in chunks(small, 6)] + [{"cases": [c]} for c in big]
    res = ctx.impl_par("c17_qc.py", payloads, timeout=1500)
    model_terms = {}
    if ok_build:
        text = COQ_TERMS + "".join("Eval vm_compute in (enc_all %d).\n" % (2 * nsp) for nsp in nsps)
        rc, out = ctx.coq_eval("terms", text)
        lists = common.parse_Z_lists(out) if rc == 0 else []
        if len(lists) == len(nsps):
            for nsp, fl in zip(nsps, lists):
                model_terms[2 * nsp] = parse_terms(fl)
        else:
            broken.append("evaluation of the Coq term model")
            detail["terms_log"] = out[-800:]
    corr_bad = []
    oracle_bad = []
    seen_classes = set()
    alpha = so_info["alphabet"] if so_info else ["Z", "+", "-"]
    for (rc, r, raw), pl in zip(res, payloads):
        r = unfile(r)
        if r is None:
            corr_bad.append({"what": "c17_qc.py failed", "out": raw[-800:], "cases": pl["cases"][:2]})
            continue
        for c in r["cases"]:
            case = c["case"]
            key = "n%d/%s/%s/%s" % (2 * case["nsp"], case["kind"], "stacked" if case["stacked"] else "flat", "qn" if case["qn"] else "noqn")
            dist[key] = dist.get(key, 0) + 1
            if "error" in c:
                corr_bad.append({"what": "exception in qc_model path", "case": case, "error": c["error"]})
                continue
            if c.get("empty"):
                continue
            n = c["n"]
            # dense oracle (always)
            ev += 4
            for fld in ("dense_dev", "herm_dev", "comm_na", "comm_nb"):
                if not (c[fld] <= TOL):
                    oracle_bad.append({"what": fld, "case": case, "value": c[fld]})
            if c.get("adj_bad"):
                oracle_bad.append({"what": "term list not closed under the adjoint (partner class missing, different coefficient, or operator not the transpose)",
                                   "case": case, "value": c["adj_bad"], "example": c.get("adj_example")})
            ev += c.get("adj_checked", 0)
            if c.get("charged_terms"):
                oracle_bad.append({"what": "terms with non-zero total quantum number", "case": case, "value": c["charged_terms"]})
            if case["stacked"] and not c.get("stacked_same_multiset"):
                corr_bad.append({"what": "stacked and flat term lists differ as multisets", "case": case})
            if not c["len_match"]:
                corr_bad.append({"what": "number of terms != size of the integral support", "case": case})
            mt = model_terms.get(n)
            if mt is None:
                continue
            for t in c["terms"]:
                ev += 1
                idx = tuple(t["idx"])
                m = mt.get(idx)
                if m is None:
                    corr_bad.append({"what": "term outside the model's support classes", "case": case, "idx": idx})
                    continue
                sites = []
                for s, d, q in zip(t["sym"], t["dofs"], t["qn"]):
                    code = alpha.index(s) if s in alpha else -1
                    qq = tuple(q) if case["qn"] else (None, None)
                    if sites and sites[-1][0] == d:
                        sites[-1][1].append((code,) + qq)
                    else:
                        sites.append((d, [(code,) + qq]))
                msites = [(l, [sy if case["qn"] else (sy[0], None, None) for sy in syms]) for l, syms in m[1]]
                ok = t["ratio"] == float(m[0]) and sites == msites and [d for d, _ in sites] == sorted(d for d, _ in sites)
                if not case["qn"] and any(any(x != 0 for x in q) for q in t["qn"]):
                    ok = False
                if not ok:
                    corr_bad.append({"what": "term differs from the model", "case": case, "idx": idx, "impl": t, "model": m})
                else:
                    seen_classes.add((n, idx))
            if len(samples) < 2 and c["terms"]:
                samples.append({"qc_term": c["terms"][min(3, len(c["terms"]) - 1)], "case": case, "dense_dev": c["dense_dev"]})
    total_classes = sum(len(v) for v in model_terms.values())
    nontriv += len(seen_classes)

    # ------------------------------------------------------------------ 3b. swap rule + symbol matrices
    rule_bad = []
    n_rule_pairs = 0
    if tx_ok:
        letters = []
        for s in jw_info["heads"] + jw_info["counted"] + so_info["alphabet"] + ["sigma_x"]:
            if s not in letters and s != "I":
                letters.append(s)
        words = [["I"]] + [[a] for a in letters] + [[a, b] for a in letters for b in letters]
        for _ in range(60 if thorough else 25):
            words.append([rng.choice(letters) for _ in range(rng.choice([3, 3, 4]))])
        pairs = [[a, b] for a in words for b in words]
        names = ["I"] + letters
        rcr, rr, rawr = ctx.impl("c17_rule.py", {"pairs": pairs, "names": [k for k in so_info["table"]]})
        rr = unfile(rr)
        coq_words = "[" + "; ".join("[" + "; ".join('"%s"%%string' % s for s in w) + "]" for w in words) + "]"
        coq_names = "[" + "; ".join('"%s"%%string' % s for s in names) + "]"
        cw = lambda ws: "[" + "; ".join("[" + "; ".join('"%s"%%string' % s_ for s_ in w) + "]" for w in ws) + "]"
        blocks = chunks(words, 8)
        text = (COQ_HDR + "Definition NAMES : list string := %s.\nDefinition WORDS : list (list string) := %s.\n" % (coq_names, coq_words) +
                "Definition encw (w : list string) : list Z := Z.of_nat (List.length w) :: map (fun s => idx_of s NAMES) w.\n"
                "Definition run_rule (ws : list (list string)) : list Z := flat_map (fun p => match jw_rule (fst p) (snd p) with "
                "Some (a, b, m) => [1; (if m then 1 else 0)] ++ encw a ++ encw b | None => [0] end) (list_prod ws WORDS).\n" +
                "".join("Eval vm_compute in (run_rule %s).\n" % cw(b) for b in blocks) +
                "Eval vm_compute in (flat_map (fun s => let m := sym_mat s in [m00 m; m01 m; m10 m; m11 m]) [%s]).\n" %
                "; ".join('"%s"%%string' % s_ for s_ in so_info["table"]))
        model_rule = None
        model_mats = None
        if ok_build:
            rc, out = ctx.coq_eval("rule", text)
            ls = common.parse_Z_lists(out) if rc == 0 else []
            if len(ls) == len(blocks) + 1:
                model_rule = [x for l_ in ls[:-1] for x in l_]
                model_mats = ls[-1]
            else:
                broken.append("evaluation of the Coq rule model")
                detail["rule_log"] = out[-800:]
        if rr is None:
            rule_bad.append({"what": "c17_rule.py failed", "out": rawr[-800:]})
        elif model_rule is not None:
            pos = 0
            for (w1, w2), ir in zip(pairs, rr["res"]):
                ev += 1
                n_rule_pairs += 1
                if model_rule[pos] == 0:
                    pos += 1
                    mres = ["raise"]
                else:
                    minus = model_rule[pos + 1]
                    pos += 2
                    ws = []
                    for _ in range(2):
                        ln = model_rule[pos]
                        ws.append([names[k] if 0 <= k < len(names) else "?" for k in model_rule[pos + 1:pos + 1 + ln]])
                        pos += 1 + ln
                    mres = ["ok", ws[0], ws[1], -1.0 if minus else 1.0]
                ires = ["raise"] if ir[0] == "raise" else ir[:4]
                if ir[0] == "ok" and not ir[4]:
                    rule_bad.append({"what": "rule moved an operator to the wrong dof / changed row bookkeeping", "pair": [w1, w2]})
                if ires != mres:
                    rule_bad.append({"what": "generated rule differs from table_row_swapped_jw", "pair": [w1, w2], "impl": ir, "model": mres})
                elif ir[0] == "ok" and (ir[1] != w1 or ir[2] != w2):
                    nontriv += 1
            if pos != len(model_rule):
                rule_bad.append({"what": "rule output length mismatch"})
            # symbol matrices
            for k, nm in enumerate(so_info["table"]):
                ev += 1
                im = rr.get("mats", {}).get(nm)
                gm = list(so_info["table"][nm])
                cm = model_mats[4 * k:4 * k + 4]
                if im is None or [float(x) for x in gm] != im or cm != gm:
                    rule_bad.append({"what": "symbol matrix differs", "name": nm, "impl": im, "generated": gm, "coq": cm})
            samples.append({"rule_pair": pairs[len(words) + 3], "impl": rr["res"][len(words) + 3]})

    # ------------------------------------------------------------------ 4. swap sequences through Mpo.try_swap_site
    swap_cases = [dict(CORPUS_SWAP), dict(CORPUS_SINGLE)]
    nsw = 60 if thorough else 14
    for k in range(nsw):
        nsp = rng.choice([2, 3, 3] if not thorough else [2, 3, 3, 3])
        n = 2 * nsp
        spelled = rng.choice(["qc", "sigma"])
        swap_jw = rng.choice([True, False])
        swap_cases.append({"nsp": nsp, "seed": rng.randrange(10 ** 6), "kind": rng.choice(["dense", "sparse", "float", "block"]),
                           "qn": rng.choice([True, True, False]), "spelled": spelled, "swap_jw": swap_jw,
                           "seq": [rng.randrange(n - 1) for _ in range(rng.choice([4, 6, 8]))]})
    if thorough:
        for k in range(4):
            swap_cases.append({"nsp": 4, "seed": rng.randrange(10 ** 6), "kind": "sparse", "qn": True, "spelled": rng.choice(["qc", "sigma"]),
                               "swap_jw": rng.choice([True, False]), "seq": [rng.randrange(7) for _ in range(4)]})
    sw_payloads = [{"cases": ch} for ch in chunks(swap_cases, 2)]
    sw_res = ctx.impl_par("c17_swap.py", sw_payloads, timeout=1500)
    swap_bad = []          # spectrum / permutation mismatches
    apply_bad = []         # the exchanged operator cannot be used (apply / @ / contract) or gives a wrong product
    swap_assert = []       # AssertionError inside swap_site (known failure class B)
    swap_single = []       # single-term operator: the fast path of construct_symbolic_mpo stores a differently nested out_ops list
    qc_true_plain = 0
    qc_true_fermi = 0
    for (rc, r, raw), pl in zip(sw_res, sw_payloads):
        r = unfile(r)
        if r is None:
            swap_bad.append({"what": "c17_swap.py failed", "out": raw[-800:]})
            continue
        for c in r["cases"]:
            case = c["case"]
            key = "swap/%s/jw=%s/n%d" % (case["spelled"], case["swap_jw"], 2 * case["nsp"])
            dist[key] = dist.get(key, 0) + 1
            if "error" in c:
                swap_bad.append({"what": "exception", "case": case, "error": c["error"]})
                continue
            if c.get("empty"):
                continue
            if c.get("steps"):
                nontriv += 1
            for k, st in enumerate(c.get("steps", [])):
                ev += 1
                if not (st["spec"] <= TOL and st["herm"] <= TOL):
                    swap_bad.append({"what": "spectrum / hermiticity changed by try_swap_site", "case": case, "step": k, "dev": st})
                    break
                if not case["swap_jw"]:
                    if st["plain"] > TOL:
                        swap_bad.append({"what": "swap_jw=False result is not the site permutation of the operator", "case": case, "step": k, "dev": st})
                        break
                elif case["spelled"] == "sigma":
                    if st["fermi"] > TOL:
                        swap_bad.append({"what": "swap_jw=True result is not F..F H F^T..F^T", "case": case, "step": k, "dev": st})
                        break
                else:
                    if st["plain"] <= TOL and st["fermi"] > TOL:
                        qc_true_plain += 1
                    elif st["fermi"] <= TOL:
                        qc_true_fermi += 1
            if "probe" in c:
                ev += 4
                pb = probe_bad(c["probe"])
                if pb:
                    apply_bad.append({"what": pb, "case": case, "source": "swap"})
            if "raised" in c:
                ev += 1
                if "auxiliary_dummy_primary_ops" in c["raised"].get("where", ""):
                    swap_assert.append({"case": case, "raised": c["raised"]})
                elif "has no attribute 'symbol'" in c["raised"].get("where", "") and c.get("nterms") == 1:
                    swap_single.append({"case": case, "raised": c["raised"]})
                else:
                    swap_bad.append({"what": "try_swap_site raised", "case": case, "raised": c["raised"]})

    # ------------------------------------------------------------------ 4b. one-term / few-term operators with prefactors: every pair, sweeps, walks
    ft_cases = fewterm_cases(rng, thorough)
    ft_payloads = [{"cases": ch} for ch in chunks(ft_cases, 4)]
    ft_res = ctx.impl_par("c17_fewterm.py", ft_payloads, timeout=1500)
    ft_bad = []
    ft_assert = []
    n_ft_steps = 0
    for (rc, r, raw), pl in zip(ft_res, ft_payloads):
        r = unfile(r)
        if r is None:
            ft_bad.append({"what": "c17_fewterm.py failed", "out": raw[-800:]})
            continue
        for c in r["cases"]:
            case = c["case"]
            key = "fewterm/%s/jw=%s" % (case["family"], case["swap_jw"])
            dist[key] = dist.get(key, 0) + 1
            if "error" in c:
                ft_bad.append({"what": "exception", "case": case, "error": c["error"]})
                continue
            for pr in c["plans"]:
                ev += 1
                if pr["initial"] > TOL:
                    ft_bad.append({"what": "Mpo differs from coeff * kron(local matrices) before any exchange", "case": case, "plan": pr})
                    continue
                hit = None
                for k, st in enumerate(pr["steps"]):
                    ev += 1
                    n_ft_steps += 1
                    if st["dev"] > TOL:
                        hit = {"what": "operator after the exchange is not the same operator in the new site order", "case": case,
                               "group": pr["group"], "plan": pr["plan"][:k + 1], "nterms": pr["nterms"], "observed": st}
                        break
                if "probe" in pr and not hit:
                    ev += 4
                    pb = probe_bad(pr["probe"])
                    if pb:
                        apply_bad.append({"what": pb, "case": case, "source": "fewterm", "plan": pr["plan"], "group": pr["group"]})
                if hit:
                    ft_bad.append(hit)
                elif "raised" in pr:
                    if "auxiliary_dummy_primary_ops" in pr["raised"]["where"]:
                        ft_assert.append({"case": case, "plan": pr["plan"], "raised": pr["raised"]})
                    else:
                        ft_bad.append({"what": "try_swap_site raised", "case": case, "group": pr["group"], "plan": pr["plan"][:pr["raised"]["step"] + 1],
                                       "nterms": pr["nterms"], "raised": pr["raised"]})
                elif pr["steps"]:
                    nontriv += 1
    if ft_cases:
        samples.append({"fewterm_case": {k: v for k, v in ft_cases[0].items() if k != "plans"}, "plans": len(ft_cases[0]["plans"])})

    # ------------------------------------------------------------------ 5. on-the-fly swapping through evolve / optimize_mps
    ofs_cases = [dict(CORPUS_TDVP)]
    for seed in range(3 if thorough else 1):
        s_ = rng.randrange(10 ** 6)
        for ofs in (["OFS-S", "OFS-D", "OFS-D/S"] if thorough else ["OFS-S", "OFS-D"]):
            for spelled, sj in (("qc", False), ("qc", True), ("sigma", True), ("sigma", False)):
                ofs_cases.append({"mode": "tdvp", "nsp": 2, "seed": s_, "kind": "dense", "spelled": spelled, "swap_jw": sj, "ofs": ofs,
                                  "M": 4, "nelec": [1, 1], "steps": 5, "dt": 0.05, "rseed": rng.randrange(1000)})
    for ofs in ["OFS-S", "OFS-D/S", "OFS-D", "OFS-Debug"]:
        for spelled, sj in (("qc", False), ("sigma", True)) + ((("qc", True),) if thorough else ()):
            ofs_cases.append({"mode": "dmrg", "nsp": 2, "seed": rng.randrange(10 ** 6), "kind": "dense", "spelled": spelled, "swap_jw": sj,
                              "ofs": ofs, "M": 4, "nelec": [1, 1], "rseed": rng.randrange(1000), "retries": 6})
    # three spatial orbitals, exact bond dimension, several sweeps with OFS really switched on (CompressConfig entries in
    # `procedure`): exchanges are accepted late in the last sweep, after the snapshot that optimize_mps returns
    for k in range(12 if thorough else 5):
        for spelled, sj in (("qc", False), ("qc", True)) + ((("sigma", True),) if thorough else ()):
            ofs_cases.append({"mode": "dmrg", "nsp": 3, "seed": rng.randrange(10 ** 6), "kind": rng.choice(["float", "dense"]), "spelled": spelled,
                              "swap_jw": sj, "ofs": "OFS-S" if k % 3 else "OFS-D/S", "M": 8, "nelec": rng.choice([[2, 1], [1, 2], [1, 1]]),
                              "rseed": rng.randrange(1000), "sweeps": [2, 2, 3, 2, 4][k % 5], "retries": 8})
    of_payloads = [{"cases": ch} for ch in chunks([c for c in ofs_cases if c["nsp"] < 3], 3)] + [{"cases": ch} for ch in chunks([c for c in ofs_cases if c["nsp"] >= 3], 2)]
    of_res = ctx.impl_par("c17_ofs.py", of_payloads, timeout=1500)
    ofs_bad = []           # inconsistencies not explained by the symbol-name defect
    names_bad = []         # energy / state inconsistency for qc symbols with ofs_swap_jw=True
    ofs_assert = []
    n_swapped_runs = 0
    n_swaps_total = 0
    n_late = 0
    n_ofs_skips = 0
    for (rc, r, raw), pl in zip(of_res, of_payloads):
        r = unfile(r)
        if r is None:
            ofs_bad.append({"what": "c17_ofs.py failed", "out": raw[-800:]})
            continue
        for c in r["cases"]:
            case = c["case"]
            key = "ofs/%s/%s/jw=%s/%s" % (case["mode"], case["spelled"], case["swap_jw"], case["ofs"])
            dist[key] = dist.get(key, 0) + 1
            if "error" in c:
                ofs_bad.append({"what": "exception", "case": case, "error": c["error"]})
                continue
            if c.get("empty"):
                continue
            ev += 1
            if "raised" in c:
                if "auxiliary_dummy_primary_ops" in c["raised"].get("where", ""):
                    ofs_assert.append({"case": case, "raised": c["raised"]})
                else:
                    ofs_bad.append({"what": "AssertionError on the OFS path", "case": case, "raised": c["raised"]})
                continue
            n_ofs_skips += c.get("skips", 0)
            if c.get("order") != sorted(c.get("order", [])):
                n_swapped_runs += 1
                nontriv += 1
            n_swaps_total += c.get("nswaps", 0)
            if case["mode"] == "dmrg" and c.get("order") != c.get("order_mpo"):
                n_late += 1          # exchanges were accepted after the snapshot optimize_mps returns
            sc = c["scale"]
            bad = None
            if c["spec"] > TOL:
                bad = "spectrum of the co-swapped operator changed"
            elif case["mode"] == "tdvp":
                if c["order"] != c["order_mpo"]:
                    bad = "site order recorded in the evolved state differs from the co-swapped operator's"
                elif abs(c["e1"] - c["e0"]) > TOL_DYN * sc:
                    bad = "energy not conserved by TDVP-PS2 with on-the-fly swapping (exact bond dimension)"
                elif c["overlap"] < 1 - TOL_DYN or abs(c["rayleigh"] - c["e0"]) > TOL_DYN * sc:
                    bad = "returned state, read in the site order of its own model (fermionic reordering sign for the JW exchange), is not exp(-iHt) psi0"
            else:
                nel = case["nelec"]
                conv = abs(c["reported"] - c["exact"]) <= TOL_DYN * sc
                if c["reported"] < c["exact"] - TOL_DYN * sc:
                    bad = "reported energy below the exact sector ground state (operator changed)"
                elif abs(c["n_alpha"] - nel[0]) > TOL_DYN or abs(c["n_beta"] - nel[1]) > TOL_DYN:
                    bad = "returned state, read in the site order of its own model, has <N_alpha>, <N_beta> = %.6f, %.6f instead of %s" % (c["n_alpha"], c["n_beta"], nel)
                elif not case["swap_jw"] and abs(c["rebuilt"] - c["rayleigh"]) > TOL_DYN * sc:
                    bad = "res.expectation(Mpo(res.model)) differs from the Rayleigh quotient of the returned state mapped back by res.model.basis"
                elif conv and abs(c["rayleigh"] - c["reported"]) > TOL_DYN * sc:
                    bad = "returned state, read in the site order of its own model, has <H> = %.8f but the reported (= exact sector) energy is %.8f" % (c["rayleigh"], c["reported"])
                elif conv and not case["swap_jw"] and abs(c["rebuilt"] - c["reported"]) > TOL_DYN * sc:
                    bad = "res.expectation(Mpo(res.model)) differs from the reported energy"
                elif not conv:
                    ctx.notes.append("DMRG with %s not converged to the exact sector energy (%.6f vs %.6f); not a violation" % (case["ofs"], c["reported"], c["exact"]))
            if bad:
                rec = {"what": bad, "case": case, "observed": {k: v for k, v in c.items() if k != "case"},
                       "used": [c.get("used_seed", case["seed"]), c.get("used_rseed", case["rseed"])]}
                if case["spelled"] == "qc" and case["swap_jw"] and covered is False:
                    names_bad.append(rec)
                else:
                    ofs_bad.append(rec)
            elif len(samples) < 5 and case["mode"] == "tdvp" and c.get("order") != sorted(c.get("order", [])):
                samples.append({"ofs_run": case, "observed": {k: v for k, v in c.items() if k != "case"}})

    # ------------------------------------------------------------------ 6. verdicts
    if broken:
        ctx.violation("c17-proof-obligations", "; ".join(broken), detail, found=False)
    if corr_bad or oracle_bad:
        found = bool(oracle_bad)
        ctx.violation("qc-model-terms", "; ".join((["correspondence qc_model term lists vs Coq term model"] if corr_bad else []) +
                                                  (["dense oracle: qc_model vs independent fermionic Hamiltonian / hermiticity / number conservation"] if oracle_bad else [])),
                      {"correspondence": corr_bad[:8], "oracle": oracle_bad[:8]}, found=found,
                      repro=(make_integrals_src() + """
import itertools, sys
sys.path.insert(0, "/verif/harness/impl")
import c17_lib as L
from renormalizer.model import h_qc
h, eri = make_integrals(%(nsp)d, %(seed)d, %(kind)r)
basis, terms = h_qc.qc_model(*h_qc.int_to_h(h, eri), stacked=%(stacked)r, conserve_qn=%(qn)r)
H = L.dense_of_terms(basis, terms); R = L.fermionic_h(h, eri); na, nb = L.number_ops(2 * %(nsp)d)
print(abs(H - R).max(), abs(H - H.T).max(), abs(H @ na - na @ H).max(), abs(H @ nb - nb @ H).max())
assert abs(H - R).max() < 1e-9 * max(1, abs(R).max()) and abs(H - H.T).max() < 1e-9 and abs(H @ na - na @ H).max() < 1e-9 and abs(H @ nb - nb @ H).max() < 1e-9
assert all(not np.any(np.asarray(t.qn) != 0) for t in L.flat_terms(terms)), "a generated term carries a net quantum number"
Hs = sum(L.term_dense(t, 2 * %(nsp)d) for t in L.flat_terms(terms)); assert abs(Hs - Hs.T).max() < 1e-9, "term list not closed under the adjoint"
""" % oracle_bad[0]["case"]) if found else None)
    if rule_bad:
        ctx.violation("jw-rule-correspondence", "correspondence generated swap rule / symbol matrices vs implementation",
                      {"mismatches": rule_bad[:8]}, found=False)
    if swap_bad:
        first = swap_bad[0]
        ctx.violation("swap-site-operator", "dense oracle: try_swap_site changes the operator beyond the site permutation / F conjugation",
                      {"failures": swap_bad[:6]}, found="case" in first and "error" not in first,
                      repro=repro_swapseq(first["case"], None) if "case" in first and "error" not in first else None)
    if ft_bad:
        first = min((x for x in ft_bad if "plan" in x and "group" in x), key=lambda x: (x.get("nterms", 9), len(x["plan"])), default=None)
        ctx.violation("swap-site-few-term-operator",
                      "dense oracle (one-term / few-term operators with prefactors, every adjacent pair incl. the last one, sweeps, walks): "
                      "the operator after Mpo.try_swap_site is not the same operator in the new site order (independent kron reference)",
                      {"failures": ft_bad[:6], "n_failures": len(ft_bad)}, found=first is not None,
                      repro=repro_fewterm(first["case"], first["plan"], first["group"]) if first is not None else None)
    if apply_bad:
        sw = [x for x in apply_bad if x["source"] == "swap"]
        first = min(sw, key=lambda x: len(x["case"]["seq"])) if sw else min(apply_bad, key=lambda x: len(x["plan"]))
        ctx.violation("swap-site-apply-after-swap",
                      "dense oracle (use after exchange): an operator that went through Mpo.try_swap_site cannot be applied "
                      "(Mpo.apply(mps) / mpo @ mps / Mpo.apply(mpo) / contract raise or differ from the dense product)",
                      {"failures": [{k: (v if k != "case" else {kk: vv for kk, vv in v.items() if kk != "plans"}) for k, v in x.items()} for x in apply_bad[:5]],
                       "n_failures": len(apply_bad)}, found=True,
                      repro=repro_probe_swap(first["case"]) if first["source"] == "swap" else repro_probe_fewterm(first["case"], first["plan"], first["group"]))
    if swap_single:
        first = swap_single[0]
        ctx.violation("swap-site-single-term",
                      "dense oracle (swap sequences): Mpo.try_swap_site raises AttributeError for an operator with a single term (the fast path of "
                      "construct_symbolic_mpo returns symbolic_out_ops_list nested one level less than swap_site expects); reached by qc_model "
                      "when only one integral class survives (vanishing blocks)",
                      {"cases": swap_single[:4]}, found=True, repro=repro_swapseq(first["case"], first["raised"]))
    if swap_assert or ofs_assert or ft_assert:
        first = swap_assert[0] if swap_assert else None
        ctx.violation("swap-site-assert-after-swaps",
                      "dense oracle (swap sequences / OFS paths): Mpo.try_swap_site raises AssertionError in swap_site after earlier exchanges "
                      "(a bond operator that is zero up to rounding disappears from the table, `len(new_out_ops3) == ... == len(auxiliary_dummy_primary_ops)` fails); "
                      "C17 'all sequences of adjacent swaps' (raising counts)",
                      {"sequences": swap_assert[:5], "ofs_paths": ofs_assert[:5], "few_term_operators": ft_assert[:3], "failing_sequences": len(swap_assert), "of_sequences": len(swap_cases)},
                      found=first is not None, repro=repro_swapseq(first["case"], first["raised"]) if first else None)
    if (covered is False) or names_bad:
        first = names_bad[0] if names_bad else None
        tdvp = [x for x in names_bad if x["case"]["mode"] == "tdvp"]
        if tdvp:
            first = tdvp[0]
        ctx.violation("jw-swap-symbol-names",
                      "theorem jw_rule_covers_qc_symbols is refuted on the current tree (qc_counterexample = %s: table_row_swapped_jw does not recognise the "
                      "symbols qc_model emits, so try_swap_site(swap_jw=True) permutes the operator plainly while _update_mps applies the fermionic sign to the state)"
                      % (witness,) if covered is False else "dense oracle: OFS with ofs_swap_jw=True on a qc_model Hamiltonian is inconsistent",
                      {"qc_counterexample": witness, "qc_alphabet": so_info["alphabet"] if so_info else None,
                       "rule_names": (jw_info["counted"], jw_info["heads"]) if jw_info else None,
                       "operator_side_steps_plain_vs_fermi": [qc_true_plain, qc_true_fermi], "public_path_failures": names_bad[:4]},
                      found=first is not None and first["case"]["mode"] == "tdvp",
                      repro=repro_tdvp(first["case"]) if first is not None and first["case"]["mode"] == "tdvp" else None)
    if ofs_bad:
        withcase = [x for x in ofs_bad if "case" in x and "error" not in x and "used" in x]
        first = withcase[0] if withcase else None
        rp = None
        if first is not None:
            rp = repro_tdvp(dict(first["case"], seed=first["used"][0], rseed=first["used"][1])) if first["case"]["mode"] == "tdvp" \
                else repro_dmrg(first["case"], first["used"][0], first["used"][1])
        ctx.violation("ofs-consistency", "dense oracle: energy / state / electron numbers / spectrum changed by on-the-fly swapping "
                      "(returned state read in the site order of its own model vs reported energy, exact sector ground state and Mpo(result.model))",
                      {"failures": ofs_bad[:6], "n_failures": len(ofs_bad)}, found=first is not None, repro=rp)
    if n_swapped_runs == 0 or n_swaps_total == 0 or (n_late == 0 and not ofs_bad):
        ctx.violation("ofs-oracle-vacuous", "dense oracle: OFS not exercised enough in this run (%d runs ended in a permuted order, %d exchanges, %d optimize_mps runs with "
                      "exchanges after the returned snapshot) -- the OFS clauses of C17 are unchecked" % (n_swapped_runs, n_swaps_total, n_late),
                      {"runs": len(ofs_cases)}, found=False)
    ctx.notes.append("term classes matched: %d of %d model classes (n=%s); rule pairs compared: %d; swap sequences: %d (%d hit the swap_site assertion); "
                     "few-term operator cases: %d (%d exchange steps compared with the kron reference); OFS runs: %d (%d ended in a permuted order, %d exchanges in total, %d optimize_mps runs with exchanges after the returned snapshot, %d retries after the registered swap_site assertion); qc symbols + swap_jw=True operator steps: %d plain / %d fermionic"
                     % (len(seen_classes), total_classes, sorted(model_terms), n_rule_pairs, len(swap_cases), len(swap_assert), len(ft_cases), n_ft_steps, len(ofs_cases),
                        n_swapped_runs, n_swaps_total, n_late, n_ofs_skips, qc_true_plain, qc_true_fermi))
    return {"evaluations": ev, "distinct_nontrivial": nontriv,
            "rule": "distinct (n, index tuple) term classes on which qc_model's term (per-site words, sign, quantum numbers) equals the Coq model's "
                    "+ word pairs on which the swap rule changes an operator and agrees with the model + swap sequences with >= 1 executed step + few-term operator plans whose every step matched the kron reference "
                    "+ OFS runs that ended in a permuted site order",
            "samples": samples[:4], "exhaustive": False,
            "input_distribution": dist,
            "term_classes_total": total_classes, "term_classes_matched": len(seen_classes),
            "rule_pairs": n_rule_pairs, "fewterm_cases": len(ft_cases), "fewterm_steps": n_ft_steps, "swap_sequences": len(swap_cases), "swap_assertions": len(swap_assert),
            "ofs_runs": len(ofs_cases), "ofs_runs_permuted": n_swapped_runs, "ofs_exchanges": n_swaps_total, "ofs_retries": n_ofs_skips, "ofs_late_swap_runs": n_late, "qc_covered_by_rule": covered, "qc_counterexample": witness}
