"""C04: canonicalisation and lossless compression preserve the represented object."""
import json
import os
import re
import shutil
import sys
import tempfile

import common
sys.path.insert(0, os.path.join(common.VERIF, "tx"))
import canosched as tx

KINDS = {"mps": ["random", "product", "add", "dup", "apply", "apply_add", "scaled", "recentred",
                 "canon_sum_r", "canon_sum_l", "canon_diff_r", "canon_diff_l",
                 "near_l_9", "near_l_7", "near_l_6", "near_r_9", "near_r_7", "near_r_6"],
         "mpdm": ["random", "add", "apply", "dup", "canon_sum_r", "canon_sum_l"],
         "mpo": ["plain", "add", "product", "identity", "conj_trans"]}

COQ_HDR = ("From Coq Require Import ZArith List Bool.\nImport ListNotations.\nFrom RV Require Import Gen.CanoSched.\n"
           "Local Open Scope Z_scope.\n"
           "Definition st (n q : Z) (d : bool) : sst := {| site_num := n; qnidx := q; to_right := d |}.\n"
           "Definition enc (r : res) : list Z := match r with None => [-1] | Some (tr, s) => "
           "[1; qnidx s; (if to_right s then 1 else 0)] ++ tr end.\n"
           "Definition pack (l : list (list Z)) : list Z := concat (map (fun x => Z.of_nat (length x) :: x) l).\n")


def load_file(res):
    """impl scripts hand large results over in a file (RESULT {"file": path})"""
    if isinstance(res, dict) and set(res) == {"file"}:
        try:
            with open(res["file"]) as f:
                return json.load(f)
        except Exception:
            return None
    return res


def failing_lemma(log):
    """name of the lemma enclosing the first coqc error location (best effort)"""
    m = re.search(r'File "\./([^"]+\.v)", line (\d+)', log or "")
    if not m:
        return None
    try:
        lines = open(os.path.join(common.COQ, m.group(1))).read().split("\n")[:int(m.group(2))]
    except Exception:
        return None
    for ln in reversed(lines):
        mm = re.match(r"\s*(?:Lemma|Theorem|Definition|Example)\s+([A-Za-z0-9_']+)", ln)
        if mm:
            return "%s (%s)" % (mm.group(1), m.group(1))
    return None


def cb(b):
    return "true" if b else "false"


def cz(z):
    return "(%d)" % z if z < 0 else "%d" % z


def unpack(flat):
    out, i = [], 0
    while i < len(flat):
        k = flat[i]
        out.append(flat[i + 1:i + 1 + k])
        i += 1 + k
    return out


def sched_term(key):
    op, n, q, d, arg = key
    s = "(st %s %s %s)" % (cz(n), cz(q), cb(d))
    if op == "cano":
        return "enc (canonicalise %s %s)" % (s, "None" if arg is None else "(Some %s)" % cz(arg))
    if op == "compress":
        return "enc (compress %s)" % s
    if op == "ensure_left":
        return "enc (ensure_left_canonical %s %s)" % (s, cb(arg))
    if op == "ensure_right":
        return "enc (ensure_right_canonical %s %s)" % (s, cb(arg))
    raise ValueError(op)


def gen_specs(rng, count):
    specs = []
    # a fixed backbone: every kind/recipe on every length (1..6) once, then random fill
    for n in range(1, 7):
        for kind, rl in KINDS.items():
            for r in rl:
                specs.append({"seed": rng.randrange(1, 2 ** 31), "nsite": n, "qn": rng.choice([1, 2]), "kind": kind,
                              "recipe": r, "complex": rng.random() < 0.5, "m": rng.choice([2, 4, 4, 6])})
    while len(specs) < count:
        kind = rng.choice(["mps", "mps", "mpo", "mpdm"])
        specs.append({"seed": rng.randrange(1, 2 ** 31), "nsite": rng.randint(1, 6), "qn": rng.choice([1, 2]), "kind": kind,
                      "recipe": rng.choice(KINDS[kind]), "complex": rng.random() < 0.5, "m": rng.choice([1, 2, 4, 4, 6])})
    return specs[:max(count, 102)]


REPRO = ("import sys\nsys.path.insert(0, %r)\nimport c04_run\nsys.exit(c04_run.replay(%s))\n")
REPRO_VAR = ("import sys\nsys.path.insert(0, %r)\nimport c04_var\nsys.exit(c04_var.replay(%s, 1e-8))\n")


def run(ctx):
    impl_dir = os.path.join(common.VERIF, "harness", "impl")
    ctx.trusted += ["translator tx/canosched.py (python ast of mp.py -> Gallina schedule code; fail-closed; round trip on an exhaustive grid)",
                    "correspondence harness/c04.py + harness/impl/c04_run.py: executed schedules (idx sequence, final qnidx/to_right, raise/no raise) of canonicalise / compress / ensure_* vs the generated code evaluated by vm_compute; contract dec_ok checked numerically on every logged svd_qn call (oracle replay)",
                    "modelled, not verified: binary64 rounding; the blockwise QR/RQ/SVD kernels themselves (contract checked per call, not proved); label (qn) bookkeeping of _update_ms and move_qnidx (C03/C06)",
                    "the NumPy dense oracle is not part of any theorem's trusted base"]
    ctx.assumptions += ["dec_iso (orthonormal factor of every matrix) is the QR/SVD existence theorem over R or C; it is assumed as a contract and checked numerically on each logged call; it has no inhabitant over the executable rings Z, Z[i]",
                        "Mpo: 'isometry' is read as isometry up to a positive per-site weight (the norm shuffling of _update_ms); after compress an Mpo is not in canonical form by construction (u*sigma is kept) -- measured, not demanded",
                        "the exactly zero object is excluded (canonicalise's own assert rejects it); variational compression: only the sweep header is proved"]
    # ------------------------------------------------------------------ 1. translator
    gen_ok = False
    tx_err = None
    try:
        text = tx.main(common.REPO)
        ctx.regen(tx.TARGET, text)
        # the kept-count rule of CompressConfig (Gen/Trunc.v, C05's translator, used read-only by the scale theorems)
        import trunc as txtrunc
        ttext = txtrunc.main(common.REPO)
        ctx.regen(txtrunc.TARGET, ttext[0] if isinstance(ttext, tuple) else ttext)
        gen_ok = True
    except Exception as e:
        tx_err = repr(e)
        ctx.notes.append("translator failed: %r" % (e,))
    # ------------------------------------------------------------------ 2. proofs
    ok_build, log = (False, "translator failed: %s" % tx_err)
    ok_props = False
    gen_compiles = False
    if gen_ok:
        gen_compiles, glog = ctx.coq_make(["Gen/CanoSched.vo", "Model/Cano.vo"])
        ok_build, log = ctx.coq_make(["Proofs/CanoProofs.vo", "Proofs/CanoGSProofs.vo", "Proofs/CanoScaleProofs.vo"]) if gen_compiles else (False, glog)
    if ok_build:
        ok_props, log = ctx.props("Props/C04.v")
    else:
        ctx.obligations.append({"name": "C04 (build of Gen/CanoSched.v + Model/Cano.v + Model/CanoGS.v + Proofs/CanoProofs.v + Proofs/CanoGSProofs.v)",
                                "file": "Proofs/CanoProofs.v", "ok": False, "assumptions": None})
    # ------------------------------------------------------------------ 3. implementation runs (always)
    quick = ctx.tier == "quick"
    specs = gen_specs(ctx.rng, 800 if quick else 8000)
    nshard = 12 if quick else 14
    shards = [[] for _ in range(nshard)]
    for i, sp in enumerate(specs):
        shards[i % nshard].append([i, sp])
    tmpd = tempfile.mkdtemp(prefix="c04_")
    results = ctx.impl_par("c04_run.py", [{"specs": s, "out": os.path.join(tmpd, "run_%d.json" % i), "label_budget": 25 if quick else 60, "scale_every": 1, "fault_every": 3 if quick else 2}
                                          for i, s in enumerate(shards)],
                           timeout=160 if quick else 1300, par=nshard)
    results = [(rc, load_file(res), out) for rc, res, out in results]
    ops, fails, feats, contract_bad = [], [], [], []
    stats = {}
    harness_bad = []
    for rc, res, out in results:
        if res is None:
            harness_bad.append(out[-1200:])
            continue
        ops += res["ops"]
        fails += res["fails"]
        feats += res["features"]
        contract_bad += res.get("contract_bad", [])
        for k, v in res["stats"].items():
            if isinstance(v, dict):
                d = stats.setdefault(k, {})
                for kk, vv in v.items():
                    d[kk] = d.get(kk, 0) + vv
            elif k.startswith("max_") or k.startswith("contract_max") or k.startswith("mpo_compress_max"):
                stats[k] = max(stats.get(k, 0.0), v)
            else:
                stats[k] = stats.get(k, 0) + v
    rc_i, res_i, out_i = ctx.impl("c04_iter.py", {"out": os.path.join(tmpd, "iter.json")})
    res_i = load_file(res_i)
    # variational clause (observed)
    vspecs = []
    for _ in range(24 if quick else 400):
        vspecs.append({"seed": ctx.rng.randrange(1, 2 ** 31), "nsite": ctx.rng.randint(2, 4 if quick else 5), "qn": ctx.rng.choice([1, 2]),
                       "kind": "mps", "recipe": ctx.rng.choice(["random", "add", "product"]), "complex": ctx.rng.random() < 0.5, "m": 3})
        if len(vspecs) % 4 == 1:       # every fourth case with spilling to disk and a failing numpy.save
            vspecs[-1]["fault"] = ctx.rng.choice([0, 2, 5, 9, 10 ** 9])
        if len(vspecs) % 2 == 0:       # every second case with the norms of state and operator at extreme scales
            vspecs[-1]["scale"] = [ctx.rng.choice([1e-30, 1e-12, 1e-9, 1e-6, 1e6, 1e12, 1e30]), ctx.rng.choice([1e-6, 1.0, 1e6])]
    # hard cases: zero-percent sweeps from the start, start guess of bond dimension 1 or 2, 8..10 sites.
    # demanded: spin chain (no symmetry) with M = largest exact Schmidt rank, 1site and 2site (HEAD: 120/120 converge).
    # measured only: particle-conserving hopping chain, 2site, M = 2^(n/2) or M = largest Schmidt rank -- on HEAD about 2%
    # of such runs from an explicit bond-1/2 guess declare convergence at a wrong state or reach the zero state
    # (0/0 in the convergence test); reported, not demanded.  Not generated: 1site on the hopping chain.
    for k in range(18 if quick else 180):
        chain, method, mrule = [("spin", "2site", "rank"), ("spin", "1site", "rank"), ("spin", "2site", "rank"), ("hop", "2site", "full"), ("spin", "1site", "rank"), ("hop", "2site", "rank")][k % 6]
        vspecs.append({"hard": 1, "seed": ctx.rng.randrange(1, 2 ** 31), "chain": chain, "method": method, "mrule": mrule,
                       "nsite": 8 if quick else ctx.rng.choice([8, 9, 10]), "guess_m": 1 + (k // 6) % 2, "nsweep": 30})
        if chain == "spin" and k % 3 != 0:
            # scaled hard cases: state multiplied by 1e-6 .. 1e6, default and tight vrtol; result and homogeneity relative
            vspecs[-1]["scale"] = ctx.rng.choice([1e-6, 1e-3, 1e3, 1e6, 1e6])
            vspecs[-1]["vrtol"] = ctx.rng.choice([1e-5, 1e-10])
    vsh = [[] for _ in range(4 if quick else 12)]
    for i, sp in enumerate(vspecs):
        vsh[i % len(vsh)].append([i, sp])
    vres = ctx.impl_par("c04_var.py", [{"specs": s, "out": os.path.join(tmpd, "var_%d.json" % i)} for i, s in enumerate(vsh)],
                        timeout=160 if quick else 1300, par=len(vsh))
    vres = [(rc, load_file(res), out) for rc, res, out in vres]
    shutil.rmtree(tmpd, ignore_errors=True)
    vcases, verrs, vhard = [], [], []
    for rc, res, out in vres:
        if res is None:
            harness_bad.append(out[-1200:])
        else:
            vcases += res["cases"]
            verrs += res["errors"]
            vhard += res.get("hard", [])
    vhard_dem = [c for c in vhard if c["spec"]["chain"] == "spin"]
    vhard_meas = [c for c in vhard if c["spec"]["chain"] == "hop"]
    vhard_bad = [c for c in vhard_dem if not c["res"]["err"] <= 1e-6]
    # ------------------------------------------------------------------ 4. correspondence (exact, vm_compute)
    corr_bad = []
    n_sched = 0
    n_keys = 0
    n_iter = 0
    n_lab = 0
    samples = []
    if gen_compiles:
        groups = {}
        for r in ops:
            a = r["args"]
            arg = a.get("stop") if r["op"] == "cano" else (a.get("chk") if r["op"].startswith("ensure") else None)
            key = (r["op"], r["n"], r["q0"], r["d0"], arg)
            groups.setdefault(key, []).append(r)
        keys = sorted(groups, key=lambda k: (k[0], k[1], k[2], k[3], -2 if k[4] is None else int(k[4])))
        n_keys = len(keys)
        items = []
        for ci in range(0, len(keys), 400):
            chunk = keys[ci:ci + 400]
            items.append(("sched_%d" % (ci // 400), COQ_HDR + "Eval vm_compute in (pack [" + ";\n ".join(sched_term(k) for k in chunk) + "]).\n"))
        # translator round trip on the exhaustive grid
        it_rows = res_i["iter"] if res_i else []
        sw_rows = res_i["switch"] if res_i else []
        for ci in range(0, len(it_rows), 450):
            chunk = it_rows[ci:ci + 450]
            items.append(("iter_%d" % (ci // 450), COQ_HDR + "Eval vm_compute in (pack [" + ";\n ".join(
                "iter_idx_list (st %d %d %s) %s %s" % (n, q, cb(d), cb(f), "None" if s is None else "(Some %s)" % cz(s))
                for n, q, d, f, s, _ in chunk) + "]).\n"))
        if sw_rows:
            items.append(("switch", COQ_HDR + "Eval vm_compute in (pack [" + ";\n ".join(
                "match _switch_direction (st %d %d %s) with Some s => [qnidx s; if to_right s then 1 else 0] | None => [-1] end" % (n, q, cb(d))
                for n, q, d, _, _ in sw_rows) + "]).\n"))
        # label bookkeeping of _update_ms: model labels_sweep (logged qnlset/qnrset as witnesses) vs the final mp.qn
        lab_ops = [r for r in ops if r.get("lab")]
        LHDR = ("From Coq Require Import ZArith List Bool.\nImport ListNotations.\nFrom RV Require Import Model.CanoGS.\n"
                "Local Open Scope Z_scope.\n"
                "Definition flat (qn : list (list (list Z))) : list Z := concat (map (fun b => Z.of_nat (length b) :: concat b) qn).\n"
                "Definition pack (l : list (list Z)) : list Z := concat (map (fun x => Z.of_nat (length x) :: x) l).\n")

        def cqn(qn):
            return "[" + "; ".join("[" + "; ".join("[" + "; ".join(cz(x) for x in lab) + "]" for lab in b) + "]" for b in qn) + "]"
        for ci in range(0, len(lab_ops), 100):
            chunk = lab_ops[ci:ci + 100]
            items.append(("labels_%d" % (ci // 100), LHDR + "Eval vm_compute in (pack [" + ";\n ".join(
                "flat (labels_sweep %s [%s] %s %s)" % (cb(r["d0"]), "; ".join(cz(x) for x in r["upd"]), cqn(r["lab"]["news"]), cqn(r["lab"]["qn0"]))
                for r in chunk) + "]).\n"))
        outs = ctx.coq_eval_many(items)
        for ci in range(0, len(lab_ops), 100):
            rc, out = outs["labels_%d" % (ci // 100)]
            flat = common.parse_Z_list(out) if rc == 0 else None
            vals = unpack(flat) if flat is not None else None
            chunk = lab_ops[ci:ci + 100]
            if vals is None or len(vals) != len(chunk):
                corr_bad.append({"what": "labels model evaluation failed", "out": out[-600:]})
                continue
            for r, v in zip(chunk, vals):
                n_lab += 1
                want = []
                for b in r["lab"]["qn1"]:
                    want.append(len(b))
                    for lab in b:
                        want += lab
                if want != v:
                    corr_bad.append({"what": "labels", "op": r["op"], "args": r["args"], "case": r["case"], "impl_qn": r["lab"]["qn1"], "model_flat": v})
        model = {}
        for ci in range(0, len(keys), 400):
            rc, out = outs["sched_%d" % (ci // 400)]
            flat = common.parse_Z_list(out) if rc == 0 else None
            vals = unpack(flat) if flat is not None else None
            chunk = keys[ci:ci + 400]
            if vals is None or len(vals) != len(chunk):
                corr_bad.append({"what": "model evaluation failed", "out": out[-600:]})
                continue
            for k, v in zip(chunk, vals):
                model[k] = v
        for k in keys:
            if k not in model:
                continue
            mv = model[k]
            for r in groups[k]:
                n_sched += 1
                if mv == [-1]:
                    okc = r["exc"] is not None
                    obs = {"exc": r["exc"]}
                else:
                    tr = mv[3:]
                    okc = (r["exc"] is None and r["q1"] == mv[1] and int(r["d1"]) == mv[2] and r["upd"] == tr
                           and (r["op"] == "compress" or r["push"] == tr))
                    obs = {"exc": r["exc"], "q1": r["q1"], "d1": r["d1"], "push": r["push"], "upd": r["upd"]}
                if not okc and len(corr_bad) < 12:
                    corr_bad.append({"what": "schedule", "key": list(k), "model": mv, "impl": obs, "case": r["case"]})
                elif not okc:
                    corr_bad.append({"what": "schedule", "key": list(k)})
            if len(samples) < 3 and mv != [-1] and len(mv) > 4:
                samples.append({"call": {"op": k[0], "site_num": k[1], "qnidx": k[2], "to_right": k[3], "arg": k[4]},
                                "model": {"qnidx": mv[1], "to_right": bool(mv[2]), "trace": mv[3:]},
                                "impl": {"qnidx": groups[k][0]["q1"], "to_right": groups[k][0]["d1"], "trace": groups[k][0]["upd"]}})
        for ci in range(0, len(it_rows), 450):
            rc, out = outs["iter_%d" % (ci // 450)]
            flat = common.parse_Z_list(out) if rc == 0 else None
            vals = unpack(flat) if flat is not None else None
            chunk = it_rows[ci:ci + 450]
            if vals is None or len(vals) != len(chunk):
                corr_bad.append({"what": "iter_idx_list model evaluation failed", "out": out[-600:]})
                continue
            for row, v in zip(chunk, vals):
                n_iter += 1
                if row[5] != v:
                    corr_bad.append({"what": "iter_idx_list", "args": row[:5], "impl": row[5], "model": v})
        if sw_rows:
            rc, out = outs["switch"]
            flat = common.parse_Z_list(out) if rc == 0 else None
            vals = unpack(flat) if flat is not None else None
            if vals is None or len(vals) != len(sw_rows):
                corr_bad.append({"what": "_switch_direction model evaluation failed", "out": out[-600:]})
            else:
                for row, v in zip(sw_rows, vals):
                    n_iter += 1
                    if [row[3], row[4]] != v:
                        corr_bad.append({"what": "_switch_direction", "args": row[:3], "impl": row[3:], "model": v})
        if res_i is None:
            corr_bad.append({"what": "c04_iter.py failed", "out": out_i[-600:]})
    # ------------------------------------------------------------------ 5. verdicts
    vtol = 1e-8
    vbad = [c for c in vcases if max(c["res"]["2site"], c["res"]["1site"]) > vtol or not (c["res"]["2site_dims_ok"] and c["res"]["1site_dims_ok"])]
    proofs_ok = gen_ok and ok_build and ok_props
    broken_parts = []
    if not gen_ok:
        broken_parts.append("translator tx/canosched.py (%s)" % tx_err)
    elif not proofs_ok:
        bad_names = [o["name"] for o in ctx.obligations if not o["ok"]]
        fl = failing_lemma(log)
        broken_parts.append("theorem(s): " + ", ".join(bad_names) + ("; first failing proof: " + fl if fl else ""))
    if corr_bad:
        broken_parts.append("correspondence schedule/iter_idx_list (%d mismatches)" % len(corr_bad))
    if stats.get("contract_bad"):
        broken_parts.append("contract dec_ok on logged svd_qn calls (%d)" % stats["contract_bad"])
    if stats.get("label_contract_bad"):
        broken_parts.append("block (label) contract ldec_ok on logged svd_qn calls (%d)" % stats["label_contract_bad"])
    # group oracle failures by class
    by_cls = {}
    for f in fails:
        by_cls.setdefault(f["class"], []).append(f)
    reported = False
    for cls, fl in sorted(by_cls.items()):
        f0 = fl[0]
        if cls == "harness":
            continue
        key = "oracle:" + cls
        if cls == "raise":
            exc = f0["detail"].get("exc")
            key = "canonicalise-empty-sweep" if exc == "UnboundLocalError" else "raise:%s:%s" % (f0["op"], exc)
        ctx.violation(key, "; ".join(broken_parts + ["dense oracle: " + cls]) if broken_parts else "dense oracle only: " + cls,
                      {"class": cls, "count": stats.get("fail_" + cls), "first": fl[:2], "coq_log_tail": (log or "")[-800:] if not proofs_ok else "",
                       "correspondence": corr_bad[:4]},
                      found=True, repro=REPRO % (impl_dir, repr(f0["spec"])))
        reported = True
    if vhard_bad:
        sp = vhard_bad[0]["spec"]
        ctx.violation("variational-compress-not-converged",
                      "; ".join(broken_parts + ["dense oracle: variational_compress(mpo, guess) with sufficient bond limit and 30 zero-percent sweeps differs from dense mpo@mps"]),
                      {"count": len(vhard_bad), "of": len(vhard_dem), "first": vhard_bad[:3], "coq_log_tail": (log or "")[-800:] if not proofs_ok else ""},
                      found=True, repro=REPRO_VAR.replace("1e-8", "1e-6") % (impl_dir, repr(sp)))
        reported = True
    if vbad or verrs:
        sp = (vbad[0] if vbad else verrs[0])["spec"]
        ctx.violation("variational-compress", "dense oracle only: variational_compress(mpo) vs mpo@mps (clause is variational_partial)",
                      {"bad": vbad[:3], "errors": verrs[:2]}, found=bool(vbad), repro=(REPRO_VAR % (impl_dir, repr(sp))) if vbad else None)
        reported = True
    if (stats.get("contract_bad") or stats.get("label_contract_bad")) and not reported:
        ctx.violation("contract:svd_qn", "; ".join(broken_parts), {"bad_calls": contract_bad[:5]}, found=False)
        reported = True
    if (broken_parts and not reported):
        # proof / translator / correspondence broken but the oracle found no failing input
        first_sched = next((c for c in corr_bad if c.get("what") == "schedule" and "impl" in c), None)
        found = False
        repro = None
        if first_sched and first_sched["impl"].get("exc") and first_sched["model"] != [-1]:
            pass
        ctx.violation("c04-model", "; ".join(broken_parts),
                      {"coq_log_tail": (log or "")[-1500:], "correspondence": corr_bad[:8]}, found=found, repro=repro)
    if harness_bad or by_cls.get("harness"):
        ctx.violation("c04-harness", "implementation runner failed", {"out": harness_bad[:2], "fails": by_cls.get("harness", [])[:2]}, found=False)
    # ------------------------------------------------------------------ 6. coverage
    hist = {}
    nontriv = set()
    feat_count = {"overcomplete": 0, "dim1": 0}
    for f in feats:
        hist[f["key"].split("/n")[0] + "/n" + f["key"].split("/n")[1].split("/")[0]] = hist.get(f["key"].split("/n")[0] + "/n" + f["key"].split("/n")[1].split("/")[0], 0) + 1
        nontriv.add(f["key"])
        for x in f["feat"]:
            feat_count[x] += 1
    dist = {"objects": stats.get("objects", 0), "generation_rejected": stats.get("genfail", 0), "rejection_reasons": stats.get("genfail_reasons", {}),
            "objects_with_overcomplete_bond": feat_count["overcomplete"], "objects_with_dim1_inner_bond": feat_count["dim1"],
            "svd_qn_calls_checked": stats.get("svd_qn_calls", 0), "qr_calls": stats.get("qr_calls", 0), "svd_calls": stats.get("svd_calls", 0),
            "calls_with_inner_dim_below_min_rows_cols": stats.get("calls_rank_deficient", 0),
            "contract_failures": stats.get("contract_bad", 0), "contract_max_residual": stats.get("contract_max_residual"),
            "contract_max_orth_dev": stats.get("contract_max_orth_dev"),
            "label_contract_calls_checked": stats.get("label_contract_calls", 0), "label_contract_failures": stats.get("label_contract_bad", 0),
            "qn_valid_checks (valid before => valid after)": stats.get("qn_valid_before", 0), "label_sweeps_compared_with_model": n_lab,
            "schedule_records_compared": n_sched, "distinct_schedule_calls": n_keys, "iter_switch_grid_points": n_iter,
            "ensure_calls_returning_untouched (isometry still checked independently)": stats.get("ensure_untouched", 0),
            "near_canonical_inputs (Gram defect 1e-9/1e-7/1e-6; ensure_* sweep vs untouched)": stats.get("near_canonical", {}),
            "untouched_sites_within_documented_tolerance": stats.get("untouched_within_documented_tolerance", 0),
            "compressed_sum_checks": stats.get("compressed_sum_checks", 0), "max_compressed_sum_relerr": stats.get("max_compressed_sum_err"),
            "scale_stream (norm 1e-30..1e30 in tensors or prefactor; relative dense, Schmidt ranks, homogeneity)": {
                "scaled_objects": stats.get("scale_objects", 0), "checks": stats.get("scale_checks", 0), "max_relerr": stats.get("max_scale_relerr")},
            "fault_stream (dump_matrix_size=1, numpy.save failing from the k-th call; canonicalise, lossless compress, canonicalise)": {
                "runs": stats.get("fault_runs", 0), "save_calls": stats.get("fault_saves_attempted", 0), "max_relerr": stats.get("max_fault_relerr")},
            "malformed_entry_calls": stats.get("malformed", 0), "oracle_ops": stats.get("ops", 0), "isometry_site_checks": stats.get("iso_sites", 0),
            "max_dense_relerr": stats.get("max_dense_err"), "max_isometry_dev": stats.get("max_iso_dev"),
            "max_scaled_isometry_dev_mpo": stats.get("max_iso_dev_scaled"),
            "mpo_after_compress_max_scaled_isometry_dev (not demanded)": stats.get("mpo_compress_max_scaled_iso_dev"),
            "variational_hard_cases_demanded": len(vhard_dem), "variational_hard_cases_scaled (1e-6..1e6, result and homogeneity)": sum(1 for c in vhard_dem if c["spec"].get("scale")), "variational_hard_max_relerr": max([c["res"]["err"] for c in vhard_dem] or [0.0]),
            "variational_hard_hopping_chain_explicit_guess (measured only)": {"cases": len(vhard_meas), "not_converged_or_raised": sum(1 for c in vhard_meas if c["res"]["err"] > 1e-6)},
            "variational_cases": len(vcases), "variational_cases_with_failing_spill": sum(1 for c in vcases if c["spec"].get("fault") is not None), "variational_max_relerr": max([max(c["res"]["2site"], c["res"]["1site"]) for c in vcases] or [0.0]),
            "by_kind_recipe_length": hist}
    ctx.notes.append("interpretation: Mpo sites are isometries up to a per-site weight after canonicalise; Mpo compress keeps u*sigma (not canonical) -- measured deviation %s" % stats.get("mpo_compress_max_scaled_iso_dev"))
    return {"evaluations": n_sched + n_iter + n_lab + stats.get("svd_qn_calls", 0) + len(vcases) + len(vhard),
            "distinct_nontrivial": len(nontriv),
            "rule": "evaluations = schedule records compared with the Coq-evaluated generated code + label sweeps compared with the Coq model + exhaustive iter_idx_list/_switch_direction grid points (site_num 1..7) + svd_qn calls whose contract was checked + variational cases; distinct_nontrivial = number of distinct (kind, recipe, chain length, label components, real/complex) classes of generated objects that ran through all operations",
            "samples": samples[:3], "exhaustive": False, "input_distribution": dist}
