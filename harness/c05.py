"""C05: truncation respects the bond limit and the discarded-weight error bound."""
import json
import os
import sys
from fractions import Fraction

import common
sys.path.insert(0, os.path.join(common.VERIF, "tx"))
import trunc as txtrunc

CRITS = ["threshold", "fixed", "both"]
COQ_CRIT = {"threshold": "Threshold", "fixed": "Fixed", "both": "Both"}
CORPUS = os.path.join(common.VERIF, "corpus", "C05", "cases.json")


# ------------------------------------------------------------------------------- kept-count cases
def dy(rng, hi=64, den=(1, 2, 4, 8, 16)):
    return Fraction(rng.randint(0, hi), rng.choice(den))


def gen_sigma(rng):
    """returns (kind, list of Fractions, exact rational norm or None)"""
    kind = rng.choice(["descending", "descending", "degenerate", "rankdef", "tie", "tie", "unsorted", "zeros", "single"])
    L = rng.randint(1, 12)
    if kind == "descending":
        s = sorted((dy(rng) + Fraction(1, 16) for _ in range(L)), reverse=True)
    elif kind == "degenerate":
        vals = [dy(rng) + Fraction(1, 8) for _ in range(rng.randint(1, 3))]
        s = sorted((rng.choice(vals) for _ in range(L)), reverse=True)
    elif kind == "rankdef":
        r = rng.randint(1, L)
        s = sorted((dy(rng) + Fraction(1, 16) for _ in range(r)), reverse=True) + [Fraction(0)] * (L - r)
    elif kind == "tie":
        base = rng.choice([[4, 3], [12, 5], [2, 2, 2, 2], [1, 1, 1, 1], [8, 4, 4, 2, 1, 1], [15, 8], [1], [6, 6, 3], [2, 1, 1, 1, 1]])
        sc = Fraction(rng.choice([1, 2, 4, 1]), rng.choice([1, 2, 4]))
        s = [Fraction(x) * sc for x in base]
    elif kind == "unsorted":
        s = [dy(rng) for _ in range(L)]
    elif kind == "zeros":
        s = [Fraction(0)] * L
    else:
        s = [dy(rng) + Fraction(1, 4)]
    n2 = sum(x * x for x in s)
    norm = None
    if kind == "tie":
        from math import isqrt
        p, q = n2.numerator, n2.denominator
        if isqrt(p) ** 2 == p and isqrt(q) ** 2 == q:
            norm = Fraction(isqrt(p), isqrt(q))
    return kind, s, norm


def near_tie(s, thr):
    """a comparison that floats could decide either way (relative gap < 1e-9) without being an exact tie"""
    n2 = sum(x * x for x in s)
    if n2 == 0:
        return False
    t = thr * thr * n2
    for x in s:
        v = x * x
        if v != t and abs(v - t) <= Fraction(1, 10 ** 9) * t:
            return True
    return False


def gen_count_cases(rng, n):
    cases = []
    while len(cases) < n:
        kind, s, norm = gen_sigma(rng)
        crit = rng.choice(CRITS)
        if kind == "tie" and norm is not None and rng.random() < 0.7:
            thr = rng.choice(s) / norm            # exact tie  sigma_i/||sigma|| == thr
            if not (0 < thr < 1):
                thr = Fraction(rng.randint(1, 63), 64)
        else:
            thr = rng.choice([Fraction(rng.randint(1, 63), 64), Fraction(rng.randint(1, 999), 1000),
                              Fraction(9, 10), Fraction(1, 1000), Fraction(1, 2), Fraction(3, 5)])
        if near_tie(s, thr):
            continue
        nsite = rng.randint(1, 8)
        left = rng.random() < 0.5
        idx = rng.randint(0, max(nsite - 2, 0)) if left else rng.randint(1 if nsite > 1 else 0, nsite - 1)
        if rng.random() < 0.6:
            md = [rng.randint(1, 10) for _ in range(nsite + 1)]
            if rng.random() < 0.1:
                md[rng.randrange(len(md))] = 0
        else:
            md = None
        M = rng.randint(1, 12)
        cases.append({"crit": crit, "thr": [thr.numerator, thr.denominator], "M": M, "max_dims": md,
                      "length": nsite + 1, "sigma": [[x.numerator, x.denominator] for x in s],
                      "idx": idx, "left": left, "kind": kind,
                      "norm": [norm.numerator, norm.denominator] if norm is not None else None})
    return cases


def gen_malformed(rng, n):
    out = []
    for _ in range(n):
        kind, s, norm = gen_sigma(rng)
        nsite = rng.randint(1, 6)
        md = [rng.randint(1, 6) for _ in range(nsite + 1)]
        left = rng.random() < 0.5
        idx = nsite + rng.randint(1, 3)            # bond index beyond the list: IndexError expected
        out.append({"crit": rng.choice(["fixed", "both"]), "thr": [1, 2], "M": 3, "max_dims": md, "length": nsite + 1,
                    "sigma": [[x.numerator, x.denominator] for x in s], "idx": idx, "left": left, "kind": "malformed",
                    "norm": None})
    return out


def eff_max_dims(c):
    return c["max_dims"] if c["max_dims"] is not None else [c["M"]] * c["length"]


def coq_case(c):
    md = eff_max_dims(c)
    cfg = "(mk_config %s (%d # %d) [%s]%%Z)" % (COQ_CRIT[c["crit"]], c["thr"][0], c["thr"][1], "; ".join(str(x) for x in md))
    sig = "[%s]%%Q" % "; ".join("(%d # %d)" % (p, q) for p, q in c["sigma"])
    lft = "true" if c["left"] else "false"
    return ("compute_m_trunc %s %s %d%%Z %s; (if idx_ok [%s]%%Z (cut_bond %d%%Z %s) then 1 else 0)%%Z"
            % (cfg, sig, c["idx"], lft, "; ".join(str(x) for x in md), c["idx"], lft))


def coq_file(cases):
    return ("From Coq Require Import QArith ZArith List Bool.\nImport ListNotations.\n"
            "From RV Require Import Model.Trunc Gen.Trunc.\n"
            "Eval vm_compute in ([\n  " + ";\n  ".join(coq_case(c) for c in cases) + "\n] : list Z).\n")


def invariant_violations(c, m):
    """property-level invariants of a kept count (independent of the generated model); list of strings"""
    sig = [Fraction(p, q) for p, q in c["sigma"]]
    thr = Fraction(*c["thr"])
    n2 = sum(x * x for x in sig)
    bond = c["idx"] + 1 if c["left"] else c["idx"]
    lim = eff_max_dims(c)[bond]
    bad = []
    if not (0 <= m <= len(sig)) and lim >= 0:
        bad.append("m outside [0, len]")
    if lim >= 1 and m < 1:
        bad.append("no state kept")
    if c["crit"] != "threshold" and m > lim:
        bad.append("m exceeds the limit of the cut bond")
    if c["crit"] in ("threshold", "both") and sorted(sig, reverse=True) == sig:
        if any(x * x < thr * thr * n2 for x in sig[1:max(m, 0)]):
            bad.append("kept a value below the threshold")
        binding = c["crit"] == "both" and m >= lim
        if not binding and any(x * x > thr * thr * n2 for x in sig[max(m, 0):]):
            bad.append("discarded a value above the threshold")
    return bad


# ------------------------------------------------------------------------------- oracle cases
def gen_cfg(rng, nb, allow_lists=True):
    crit = rng.choice(CRITS)
    thr = rng.choice([rng.randint(1, 99) / 100.0, 0.9, 0.5, 1e-3, 0.3, 0.05, rng.randint(1, 30) / 100.0])
    cfg = {"crit": crit, "thr": thr, "M": rng.randint(1, 8)}
    if crit != "threshold" and allow_lists and rng.random() < 0.35:
        cfg["max_dims"] = [rng.randint(1, 6) for _ in range(nb)]
    r = rng.random()
    if r < 0.06:
        cfg["temp"] = rng.randint(1, 5)
    elif r < 0.12:
        cfg["temp"] = [rng.randint(1, 5) for _ in range(nb)]
    return cfg


def gen_oracle_cases(rng, n_mps, n_ttns):
    cases = []
    # corpus-like deterministic cases first: degenerate spectra with a high threshold (regression of c811baf)
    for model in ("dense_bell", "dense_ghz"):
        for d in ("left", "right"):
            for crit in ("threshold", "both"):
                cases.append({"kind": "mps", "model": model, "n": 4, "m_max": 4, "complex": False, "dir": d, "seed": 1,
                              "cfg": {"crit": crit, "thr": 0.9, "M": 4}})
    models = ["spin", "spin_qn", "spin_qn2", "holstein", "dense_random", "dense_rankdef", "dense_bell", "dense_ghz"]
    weights = [4, 5, 3, 3, 2, 1, 1, 1]
    for _ in range(n_mps):
        model = rng.choices(models, weights)[0]
        n = rng.randint(2, 7) if not model == "spin_qn2" else rng.randint(4, 7)
        cplx = rng.random() < 0.3
        m_max = rng.randint(2, 4) if cplx else rng.randint(2, 8)
        if model == "spin_qn2":
            m_max = max(m_max, 4)
        c = {"kind": "mps", "model": model, "n": n, "m_max": m_max, "complex": cplx,
             "dir": rng.choice(["left", "right"]), "seed": rng.randrange(2 ** 31), "cfg": gen_cfg(rng, n + 1)}
        if rng.random() < 0.2 and not model.startswith("dense_"):
            c["scale"] = rng.choice([0.25, 3.0, 17.5])
        cases.append(c)
    for _ in range(n_ttns):
        n = rng.randint(2, 7)
        parents = [-1] + [rng.randrange(i) for i in range(1, n)]
        qn = rng.random() < 0.5
        cplx = rng.random() < 0.25
        c = {"kind": "ttns", "parents": parents, "qn": qn, "nb": rng.choice([2, 3]) if n > 5 else rng.choice([2, 3, 4]),
             "m_max": rng.randint(2, 4) if cplx else rng.randint(2, 8), "complex": cplx,
             "seed": rng.randrange(2 ** 31), "cfg": gen_cfg(rng, n + 1)}
        if rng.random() < 0.2:
            c["scale"] = rng.choice([0.25, 3.0])
        cases.append(c)
    return cases



# ------------------------------------------------------------------------------- trace correspondence
def gen_trace_cases(rng, n_mps, n_ttns):
    cases = [c for c in gen_oracle_cases(rng, n_mps, n_ttns) if not c.get("model", "").startswith("dense_b")][8:]
    for c in cases:
        nb = (c["n"] if c["kind"] == "mps" else len(c["parents"])) + 1
        r = rng.random()
        cfg = c["cfg"]
        if r < 0.3:
            cfg.pop("max_dims", None)
            cfg["temp"] = [rng.randint(1, 6) for _ in range(nb)]
        elif r < 0.6 and cfg["crit"] != "threshold":
            cfg.pop("temp", None)
            cfg["max_dims"] = [rng.randint(1, 6) for _ in range(nb)]
    return cases


def qlit(pq):
    return "(Qmake (%d) %d)" % (pq[0], pq[1])


def zlist(xs):
    return "[" + "; ".join("(%d)" % x for x in xs) + "]"


def coq_temp(t):
    if t is None:
        return "TNone"
    if isinstance(t, list):
        return "(TList %s)" % zlist(t)
    return "(TInt (%d))" % t


def coq_tree(t):
    return "(Node %d [%s])" % (t[0], "; ".join(coq_tree(c) for c in t[1]))


TRACE_HDR = ("From Coq Require Import QArith ZArith List Bool.\nImport ListNotations.\n"
             "From RV Require Import Model.Trunc Gen.Trunc.\nClose Scope Q_scope.\nLocal Open Scope Z_scope.\n"
             "Definition lk (l : list (nat * Z)) (c : nat) (d : Z) : Z :=\n"
             "  match find (fun p => Nat.eqb (fst p) c) l with Some p => snd p | None => d end.\n")


def trace_steps(t):
    """implementation side, canonical form.  chain: [(idx, m, reads)], tree: [(parent, child, m, reads) | (-1, child, -1, [])]"""
    steps = []
    sig = {}
    ev = t["events"]
    prev_read = 0
    pending = None
    for e in ev:
        if e["ev"] == "update":
            steps.append((e["idx"], e["m"], t["reads"][prev_read:e["nread"]]))
            sig[e["idx"]] = e["sigma"]
            prev_read = e["nread"]
        elif e["ev"] == "node":
            pending = e
            prev_read = e["nread"]
        elif e["ev"] == "trunc":
            steps.append((pending["parent"], pending["child"], e["m"], t["reads"][prev_read:e["nread"]]))
            sig[pending["child"]] = e["sigma"]
            prev_read = e["nread"]
        elif e["ev"] == "push":
            steps.append((-1, e["child"], -1, []))
    return steps, sig


def trace_term(t, sig):
    old = "None" if t["old_max_dims"] is None else "(Some %s)" % zlist(t["old_max_dims"])
    crit = COQ_CRIT[t["crit"]]
    sp_items = "; ".join("((%d), [%s])" % (k, "; ".join(qlit(x) for x in v)) for k, v in sorted(sig.items()))
    if t["kind"] == "mps":
        n = t["n"]
        return ("Eval vm_compute in (let cc := mk_config %s %s (compress_max_dims %s %s (%d) %d) in\n"
                "  let sp := fun idx => lookupQ idx [%s] in\n"
                "  compress_trace cc %d %s %s sp ++ [(-7)] ++ compress_dims cc %d %s %s sp %s).\n"
                % (crit, qlit(t["thr"]), crit, old, t["M"], n, sp_items, n, "true" if t["to_right"] else "false", coq_temp(t["temp"]),
                   n, "true" if t["to_right"] else "false", coq_temp(t["temp"]), zlist(t["dims_before"])))
    nn = len(t["dims_before"])
    pushes = "; ".join("(%d%%nat, (%d))" % (e["child"], e["after"]) for e in t["events"] if e["ev"] == "push")
    return ("Eval vm_compute in (let cc := mk_config %s %s (tree_max_dims %s %s (%d) %d) in\n"
            "  let sp := fun c : nat => lookupQ (Z.of_nat c) [%s] in\n"
            "  let tr := %s in\n"
            "  tree_compress_trace cc %s sp tr ++ [(-7)] ++\n"
            "  map (fun c => tree_compress_dims cc %s sp (lk [%s]) tr (fun c => nth c %s 0) c) (seq 0 %d)).\n"
            % (crit, qlit(t["thr"]), crit, old, t["M"], nn, sp_items, coq_tree(t["tree"]), coq_temp(t["temp"]), coq_temp(t["temp"]),
               pushes, zlist(t["dims_before"]), nn))


def trace_phase(ctx, cases):
    """returns (compared, bad, stats)"""
    per = 25
    chunks = [cases[i:i + per] for i in range(0, len(cases), per)]
    res = ctx.impl_par("c05_trace.py", [{"cases": ch} for ch in chunks], timeout=600)
    traces = []
    bad = []
    stats = {"mps": 0, "ttns": 0, "skipped": 0, "near_tie_or_tiny": 0, "with_temp_list": 0, "with_per_bond_list": 0, "steps": 0}
    for rc, r, out in res:
        if r is None:
            bad.append({"what": "trace script failed", "out": out[-800:]})
            continue
        traces += r["traces"]
    usable = []
    for t in traces:
        if t.get("skipped"):
            stats["skipped"] += 1
            continue
        if t.get("error"):
            bad.append({"what": "compress raised under the loggers", "case": t["case"], "error": t["error"]})
            continue
        steps, sig = trace_steps(t)
        thr = Fraction(*t["thr"])
        skip = False
        for k, v in sig.items():
            fr = [Fraction(p, q) for p, q in v]
            if any(q > 2 ** 160 for p, q in v) or (t["temp"] is None and t["crit"] != "fixed" and near_tie(fr, thr)):
                skip = True
        if skip:
            stats["near_tie_or_tiny"] += 1
            continue
        usable.append((t, steps, sig))
    files = []
    for i in range(0, len(usable), 20):
        files.append(("trace_%d" % (i // 20), TRACE_HDR + "".join(trace_term(t, sig) for t, _, sig in usable[i:i + 20])))
    evs = ctx.coq_eval_many(files) if files else {}
    compared = 0
    for fi, (name, _) in enumerate(files):
        rc, out = evs[name]
        lists = common.parse_Z_lists(out) if rc == 0 else None
        group = usable[fi * 20:(fi + 1) * 20]
        if lists is None or len(lists) != len(group):
            bad.append({"what": "generated schedule could not be evaluated", "file": name, "out": out[-800:]})
            continue
        for (t, steps, sig), vals in zip(group, lists):
            k = vals.index(-7) if -7 in vals else None
            if k is None or k % 3 != 0:
                bad.append({"what": "unparsable model trace", "case": t["case"]})
                continue
            model_steps = [tuple(vals[j:j + 3]) for j in range(0, k, 3)]
            model_dims = vals[k + 1:]
            compared += 1
            stats[t["kind"]] += 1
            stats["steps"] += len(steps)
            if isinstance(t["temp"], list):
                stats["with_temp_list"] += 1
            elif t["temp"] is None and t["old_max_dims"] is not None:
                stats["with_per_bond_list"] += 1
            if t["kind"] == "mps":
                impl_seq = [(s[0], s[1]) for s in steps]
                mod_seq = [(a, c) for a, b, c in model_steps]
                reads_ok = all((not s[2]) or s[2] == [ms[1]] for s, ms in zip(steps, model_steps))
            else:
                impl_seq = [(s[0], s[1], s[2]) for s in steps]
                mod_seq = list(model_steps)
                reads_ok = all((not s[3]) or s[3] == [s[1]] for s in steps)
                for e in t["events"]:
                    if e["ev"] == "push" and e["after"] > e["before"]:
                        bad.append({"what": "witness invalid: push_cano_to_parent grew a bond", "case": t["case"], "event": e})
            if impl_seq != mod_seq:
                bad.append({"what": "executed schedule / kept counts differ from the generated schedule", "case": t["case"],
                            "impl": impl_seq, "model": mod_seq})
            elif not reads_ok:
                bad.append({"what": "limit entry read differs from the bond being cut", "case": t["case"],
                            "impl_reads": [s[-1] for s in steps], "model": model_steps})
            elif model_dims != t["dims_after"]:
                bad.append({"what": "bond dimensions after compress differ from the generated bookkeeping", "case": t["case"],
                            "impl": t["dims_after"], "model": model_dims})
    return compared, bad, stats


def failing_lemma(log):
    import re
    m = re.search(r'File "\./(Proofs/TruncProofs\.v)", line (\d+)', log or "")
    if not m:
        return "a lemma"
    try:
        lines = open(os.path.join(common.COQ, m.group(1))).read().splitlines()[:int(m.group(2))]
    except Exception:
        return "a lemma"
    for ln in reversed(lines):
        mm = re.match(r"\s*(?:Lemma|Theorem|Corollary)\s+([A-Za-z0-9_']+)", ln)
        if mm:
            return "lemma `%s`" % mm.group(1)
    return "a lemma"


def gen_history_cases(rng, n):
    out = []
    for _ in range(n):
        if rng.random() < 0.6:
            model = rng.choice(["spin", "spin_qn", "spin_qn", "holstein"])
            base = {"kind": "mps", "model": model, "n": rng.randint(4, 6), "m_max": rng.randint(5, 8), "complex": rng.random() < 0.2,
                    "dir": rng.choice(["left", "right"]), "seed": rng.randrange(2 ** 31)}
        else:
            nn = rng.randint(3, 6)
            base = {"kind": "ttns", "parents": [-1] + [rng.randrange(i) for i in range(1, nn)], "qn": rng.random() < 0.5,
                    "nb": rng.choice([2, 3]), "m_max": rng.randint(5, 8), "complex": False, "seed": rng.randrange(2 ** 31)}
        k = rng.randint(3, 5)
        ms = [rng.randint(1, 8) for _ in range(k)]
        ms[0] = max(ms[0], 5)                      # a generous limit first ...
        ms[1] = rng.randint(1, 3)                  # ... then a much smaller one (decreasing), later ones arbitrary
        ops = []
        for i in range(k):
            ops.append({"derive": rng.choices(["copy", "add", "apply"], [5, 2, 2])[0], "how": "attr" if rng.random() < 0.7 else "fresh",
                        "crit": rng.choices(["fixed", "both", "threshold"], [5, 3, 1])[0], "thr": rng.choice([1e-3, 0.05, 0.2]), "M": ms[i]})
        out.append({"kind": "history", "base": base, "ops": ops})
    return out


def gen_fault_cases(rng, n_mps, n_ttns):
    """FAULT PATH: regular compress cases in which the k-th gesdd call of the sweep is made to raise LinAlgError"""
    cases = [c for c in gen_oracle_cases(rng, n_mps, n_ttns)[8:] if not c.get("model", "").startswith("dense_")]
    # small deterministic ones first (2-site chain with quantum numbers at M = 1: the seeded m12 scenario)
    first = [{"kind": "mps", "model": "spin_qn", "n": n, "m_max": 8, "complex": False, "dir": d, "seed": 12 + n,
              "cfg": {"crit": "fixed", "thr": 1e-3, "M": 1}, "gesdd_fail_at": 1} for n in (2, 4) for d in ("right", "left")]
    first.append({"kind": "ttns", "parents": [-1, 0, 0], "qn": True, "nb": 2, "m_max": 8, "complex": False, "seed": 12,
                  "cfg": {"crit": "fixed", "thr": 1e-3, "M": 1}, "gesdd_fail_at": 1})
    for c in cases:
        steps = (c["n"] - 1) if c["kind"] == "mps" else (len(c["parents"]) - 1)
        # with quantum numbers every step issues several gesdd calls (one per block): aim inside the sweep
        c["gesdd_fail_at"] = 1 if rng.random() < 0.4 else rng.randint(1, max(1, 2 * steps))
    return first + cases


def embed(script, call):
    """self-contained python snippet: the impl script's source + a call of its replay()"""
    src = open(os.path.join(common.VERIF, "harness", "impl", script)).read()
    return ("import sys, json\nsrc = %r\nns = {'__name__': 'c05_embedded'}\nexec(compile(src, %r, 'exec'), ns)\n"
            "sys.exit(ns['replay'](json.loads(%r)))\n" % (src, script, json.dumps(call)))


# ------------------------------------------------------------------------------------------- run
def run(ctx):
    import time
    quick = ctx.tier == "quick"
    t0 = time.time()
    phases = {}
    ctx.trusted += [
        "translator tx/trunc.py (python ast -> Gallina over Q; fail-closed; sigma_i/||sigma|| > thr rendered root-free as sigma_i^2 > thr^2*sum sigma^2, valid for sigma>=0, thr>0; nan (zero norm) modelled as 'compares False')",
        "correspondence harness/c05.py + harness/impl/c05_count.py: CompressConfig.compute_m_trunc of the real code vs the generated Gallina evaluated by vm_compute on the same rational cases (exact; near-ties within 1e-9 are not generated, exact ties only where the float norm is exact)",
        "sweep schedules (iter_idx_list, compress loop + temp_m_trunc branch, _update_ms cut bond, compress_node, compress_recursion, set_bonddim) are translated by tx/trunc.py; the reshape position of m_trunc in _update_ms, the bond_dims convention and node_idx[child] are read by verbatim pattern match (translator aborts on any change)",
        "copies: CompressConfig.copy / MatrixProduct.metacopy / TTNS.metacopy translated into binding facts (fresh dict copy vs alias; copy() vs shared attribute); python object semantics modelled as a heap of attribute namespaces, arrays by value (no in-place writes into max_dims in configs.py: its assignment sites are checked by the translator)",
        "trace correspondence harness/impl/c05_trace.py: loggers wrapped around svd_qn / compute_m_trunc / set_bonddim / _update_ms / compress_node / truncate_tensors / push_cano_to_parent and logging limit containers; compared exactly with compress_trace / compress_dims / tree_compress_trace / tree_compress_dims under vm_compute (QR result dimensions passed as witness, validity after<=before checked)",
        "fault path: the gesdd->gesvd fallback of svd_qn.optimized_svd is exercised by injection only (the k-th scipy.linalg.svd(lapack_driver='gesdd') call of a compress() is made to raise LinAlgError); a genuine LAPACK non-convergence is not produced",
        "modelled, not verified: binary64 rounding in the comparison and in LAPACK's SVD; that svd_qn returns a descending, non-negative spectrum and a valid SVD (checked per run by the oracle: descending, first cut = dense spectrum)",
        "NOT proved: Ky Fan's maximum principle (explicit hypothesis ky_fan_principle of C05_bounds_partial, from which both spectral inequalities are derived for chains) and the tensor-product instantiation of the projector classes; both inequalities of the property are checked numerically against dense SVDs on every run (chains and trees)",
    ]
    ctx.assumptions += [
        "C05_error_identity / C05_nested_projection_pythagoras: nesting hypothesis  P_j psi_k = psi_k (j<k) -- satisfied by a one-directional sweep over a canonical chain (notes/C05.md), NOT by the tree sweep (error identity is not claimed for trees; measured gap reported)",
        "C05_bounds_partial / C05_left_projection_discard_partial / C05_eckart_young_partial: Ky Fan's maximum principle (K. Fan, PNAS 35 (1949) 652; Bhatia, Matrix Analysis, Problem I.6.15; Horn & Johnson 2nd ed. Cor. 4.3.39) is a hypothesis; further non-spectral hypotheses: projector_class, step projector is a member and keeps the top-m weight, left-block projectors commute with right-acting ones",
        "C05_fresh_copy_uses_new_limit: the copied state's max_dims is None (never compressed); a filled max_dims is a cache that is NOT refreshed from bond_dim_max_value (C05_max_dims_cache) -- on HEAD, setting bond_dim_max_value on a copy of an already compressed state is ignored (notes/C05.md, suspected defect, not generated by the history stream)",
        "C05_tree_dims_after_compress: economic QR in push_cano_to_parent never increases the bond dimension (qr_dim c d <= d)",
    ]
    # 1. translator
    info = None
    try:
        text, info = txtrunc.main(common.REPO)
        ctx.regen("Gen/Trunc.v", text)
    except Exception as e:
        ctx.notes.append("translator tx/trunc.py failed: %r" % (e,))
    broken = []
    log = ""
    ok_build = False
    ok_gen = False
    if info is None:
        broken.append("translator tx/trunc.py")
        ctx.obligations.append({"name": "C05 (translation of configs.py into Gen/Trunc.v)", "file": "Gen/Trunc.v", "ok": False, "assumptions": None})
    else:
        ok_gen, log = ctx.coq_make(["Gen/Trunc.vo"])
        if ok_gen:
            ok_build, log = ctx.coq_make(["Proofs/TruncProofs.vo"])
        if ok_build:
            ok_props, log = ctx.props("Props/C05.v")
            if not ok_props:
                broken.append("theorem(s) of Props/C05.v: " + ", ".join(o["name"] for o in ctx.obligations if not o["ok"]))
        else:
            ctx.obligations.append({"name": "C05 (build of Gen/Trunc.v + Proofs/TruncProofs.v)", "file": "Proofs/TruncProofs.v", "ok": False, "assumptions": None})
            broken.append(("proofs about the generated definitions: %s of Proofs/TruncProofs.v no longer holds for Gen/Trunc.v" % failing_lemma(log)) if ok_gen
                          else "generated Gen/Trunc.v does not compile")
    phases["translate+coq build+props"] = round(time.time() - t0, 1)
    # 2. correspondence on kept counts
    n_count = 2000 if quick else 20000
    corpus = json.load(open(CORPUS))["kept_count"] if os.path.exists(CORPUS) else []
    cases = corpus + gen_count_cases(ctx.rng, n_count)
    malformed = gen_malformed(ctx.rng, 40)
    allc = cases + malformed
    chunks = [allc[i:i + 400] for i in range(0, len(allc), 400)]
    impl_res = ctx.impl_par("c05_count.py", [{"cases": ch} for ch in chunks], timeout=600)
    impl_m = []
    impl_fail = None
    for (rc, res, out) in impl_res:
        if res is None:
            impl_fail = out[-1500:]
            break
        impl_m += res["m"]
    corr_bad = []
    model_m = None
    if ok_gen:
        evs = ctx.coq_eval_many([("count_%d" % k, coq_file(ch)) for k, ch in enumerate(chunks)])
        model_m = []
        for k in range(len(chunks)):
            rc, out = evs["count_%d" % k]
            vals = common.parse_Z_list(out) if rc == 0 else None
            if vals is None or len(vals) != 2 * len(chunks[k]):
                model_m = None
                corr_bad.append({"what": "model evaluation failed", "chunk": k, "out": out[-600:]})
                break
            model_m += [(vals[2 * i], vals[2 * i + 1]) for i in range(len(chunks[k]))]
    inv_fail = {}
    ev = 0
    nontriv = set()
    hist = {}
    samples = []
    if impl_fail is not None:
        corr_bad.append({"what": "implementation script failed", "out": impl_fail})
    else:
        for i, c in enumerate(allc):
            mi = impl_m[i]
            hist[c["kind"] + "/" + c["crit"]] = hist.get(c["kind"] + "/" + c["crit"], 0) + 1
            if c["kind"] == "malformed":
                rejected = isinstance(mi, dict) and mi.get("error") == "IndexError"
                if model_m is not None:
                    ev += 1
                    if rejected != (model_m[i][1] == 0):
                        corr_bad.append({"what": "malformed input: rejection differs", "case": c, "impl": mi, "model_idx_ok": model_m[i][1]})
                continue
            if isinstance(mi, dict) and mi.get("skip"):
                hist["skipped (float norm inexact)"] = hist.get("skipped (float norm inexact)", 0) + 1
                continue
            if not isinstance(mi, int):
                corr_bad.append({"what": "implementation raised on a valid case", "case": c, "impl": mi})
                inv_fail.setdefault("exception", (c, mi))
                continue
            for v in invariant_violations(c, mi):
                inv_fail.setdefault(v, (c, mi))
            if model_m is not None:
                ev += 1
                if model_m[i][0] != mi or model_m[i][1] != 1:
                    corr_bad.append({"what": "kept count differs", "case": c, "impl": mi, "model": model_m[i][0], "model_idx_ok": model_m[i][1]})
                elif mi < len(c["sigma"]) or c["kind"] in ("tie", "zeros"):
                    nontriv.add(json.dumps([c["crit"], c["thr"], eff_max_dims(c), c["sigma"], c["idx"], c["left"]]))
                if len(samples) < 2 and c["kind"] in ("tie", "degenerate") and mi < len(c["sigma"]):
                    samples.append({"case": {k: c[k] for k in ("crit", "thr", "max_dims", "M", "sigma", "idx", "left")}, "impl_m": mi, "model_m": model_m[i][0]})
    if model_m is None and info is not None and not corr_bad:
        corr_bad.append({"what": "generated model could not be evaluated (Gen/Trunc.v does not compile)"})
    if corr_bad:
        broken.append("correspondence compute_m_trunc (impl) vs generated Gallina")
    phases["kept-count correspondence"] = round(time.time() - t0 - sum(phases.values()), 1)
    # 2b. trace correspondence: executed schedule of compress() vs the generated schedule
    tr_compared, tr_bad, tr_stats = (0, [], {})
    if ok_gen:
        tr_compared, tr_bad, tr_stats = trace_phase(ctx, gen_trace_cases(ctx.rng, *((150, 70) if quick else (1500, 700))))
        if tr_bad:
            broken.append("trace correspondence compress()/compress_recursion vs generated schedule")
    ev += tr_compared
    phases["trace correspondence"] = round(time.time() - t0 - sum(phases.values()), 1)
    # 3. dense oracle on the real code: always
    n_mps, n_ttns = (600, 220) if quick else (6000, 2000)
    ocases = (json.load(open(CORPUS)).get("oracle", []) if os.path.exists(CORPUS) else []) + gen_oracle_cases(ctx.rng, n_mps, n_ttns) \
        + gen_history_cases(ctx.rng, 60 if quick else 600) \
        + gen_fault_cases(ctx.rng, *((160, 70) if quick else (1600, 700)))
    per = 40
    ochunks = [ocases[i:i + per] for i in range(0, len(ocases), per)]
    ores = ctx.impl_par("c05_oracle.py", [{"cases": ch} for ch in ochunks], timeout=1500 if not quick else 400)
    o_fail = {}
    o_stat = {"mps": 0, "ttns": 0, "fault_path_cases": 0, "fault_path_fired": 0, "history": 0, "history_compress_calls": 0, "truncating": 0, "skipped": 0, "tree_identity_gap_max": 0.0, "by_model": {}}
    o_crash = None
    for (rc, res, out), ch in zip(ores, ochunks):
        if res is None:
            o_crash = out[-1500:]
            continue
        for r in res["results"]:
            c = r["case"]
            if r.get("skipped"):
                o_stat["skipped"] += 1
                continue
            o_stat[c["kind"]] += 1
            if c.get("gesdd_fail_at"):
                o_stat["fault_path_cases"] += 1
                o_stat["fault_path_fired"] += 1 if r["stats"].get("fault_fired") else 0
            if c["kind"] == "history":
                key = "history/" + c["base"]["kind"]
                o_stat["history_compress_calls"] += len(r["stats"].get("ops", []))
            else:
                key = c.get("model", "tree") + "/" + c["cfg"]["crit"]
            o_stat["by_model"][key] = o_stat["by_model"].get(key, 0) + 1
            if r["stats"].get("truncating"):
                o_stat["truncating"] += 1
            if c["kind"] == "ttns":
                o_stat["tree_identity_gap_max"] = max(o_stat["tree_identity_gap_max"], r["stats"].get("identity_gap", 0.0))
            if not r["ok"]:
                for f in r["fails"]:
                    k = ("fault-" if c.get("gesdd_fail_at") else "") + c["kind"] + "-compress:" + f["what"].replace("history: ", "")
                    # prefer the smallest failing case per class
                    size = c.get("n", len(c.get("parents", []))) if c["kind"] != "history" else \
                        10 * len(c["ops"]) + c["base"].get("n", len(c["base"].get("parents", [])))
                    if k not in o_fail or size < o_fail[k][2]:
                        o_fail[k] = (c, r["fails"], size)
    if o_crash is not None and not o_fail:
        broken.append("dense oracle script crashed (machinery)")
    if len(samples) < 3 and ores and ores[0][1]:
        r0 = [r for r in ores[0][1]["results"] if r["stats"].get("truncating")]
        if r0:
            samples.append({"oracle_case": r0[0]["case"], "stats": {k: r0[0]["stats"][k] for k in ("dist2", "sum_D", "max_D", "before", "after")}})
    phases["dense oracle"] = round(time.time() - t0 - sum(phases.values()), 1)
    ctx.notes.append("wall time by phase (s): %s" % json.dumps(phases))
    # 4. reporting
    ctx.notes.append("trace correspondence: %s" % json.dumps(tr_stats, sort_keys=True))
    detail_common = {"coq_log_tail": log[-1500:] if isinstance(log, str) and broken else "", "correspondence": corr_bad[:5],
                     "trace_correspondence": tr_bad[:4],
                     "oracle_crash": o_crash}
    found_any = False
    prio = ["exception", "no state kept", "m outside [0, len]", "m exceeds the limit of the cut bond", "bond dimension exceeds limit",
            "bond dimension < 1", "configuration of the source state changed", "descendant shares the configuration object of the base",
            "source state changed", "norm increased", "distance exceeds root of summed discarded weights of the original",
            "distance below the largest single-bond discarded weight", "error identity: dist^2 != sum of step discards",
            "norm identity: |psi|^2 - |psi'|^2 != dist^2", "kept a value below the threshold", "discarded a value above the threshold",
            "kept a singular value below the threshold", "discarded a singular value above the threshold"]
    rank = lambda w: prio.index(w) if w in prio else len(prio)
    # one violation per call site (compute_m_trunc / Mps.compress / TTNS.compress), keyed by its most severe
    # failure class; the other classes observed are listed in the detail
    if inv_fail:
        found_any = True
        what = sorted(inv_fail, key=rank)[0]
        c, mi = inv_fail[what]
        ctx.violation("kept-count:" + what, "; ".join(broken) if broken else "kept-count invariant (oracle only)",
                      dict(detail_common, failing_case=c, impl_m=mi, violated=what, all_classes=sorted(inv_fail, key=rank)),
                      found=True, repro=embed("c05_count.py", c))
    for kind in ("mps", "ttns", "history", "fault-mps", "fault-ttns"):
        ks = sorted([k for k in o_fail if k.startswith(kind + "-compress:")], key=lambda k: rank(k.split(":", 1)[1]))
        if not ks:
            continue
        found_any = True
        c, fails, _ = o_fail[ks[0]]
        ctx.violation(ks[0], "; ".join(broken) if broken else "dense oracle only (property clause: %s)" % ks[0].split(":", 1)[1],
                      dict(detail_common, failing_case=c, fails=fails[:3], all_classes=ks), found=True,
                      repro=embed("c05_oracle.py", c))
    if broken and not found_any:
        ctx.violation("c05-model", "; ".join(broken), detail_common, found=False)
    ctx.notes.append("oracle: %s" % json.dumps(o_stat, sort_keys=True))
    ctx.notes.append("tree sweep is not a nested projection sequence: max |dist^2 - sum of step discards| over the tree cases = %.3g (informational; the chain identity is checked to 1e-8)" % o_stat["tree_identity_gap_max"])
    return {"evaluations": ev + o_stat["mps"] + o_stat["ttns"] + o_stat["history_compress_calls"],
            "distinct_nontrivial": len(nontriv) + o_stat["truncating"] + tr_compared,
            "rule": "kept-count correspondence: a case counts when impl and generated model agree AND it truncates (m < len sigma) or is an exact tie / zero-norm case, distinct by (criterion, threshold, limits, sigma, idx, left) [%d of %d]; oracle: a compress call counts when it discards weight (sum_b D_b > 1e-14 |psi|^2) [%d of %d]; trace: every compress() call whose logged schedule (site/node order, limit entry read, kept count per step, final dimensions) was compared exactly with the generated schedule [%d]"
                    % (len(nontriv), ev - tr_compared, o_stat["truncating"], o_stat["mps"] + o_stat["ttns"] + o_stat["history"], tr_compared),
            "samples": samples[:3], "exhaustive": False,
            "input_distribution": {"kept_count_cases_by_kind_and_criterion": hist, "oracle": o_stat, "trace": tr_stats,
                                   "translator_preconditions": info["preconditions"] if info else None}}
