"""C06 masks: the boolean arrays get_qn_mask(qnmat, qntot) built from MatrixProduct._get_big_qn for one-site and two-site
updates, exported for the exact correspondence with Model/QnMask.v (mask1_tab / mask2_tab).
Label patterns: those of Mps.random states re-centred at the active site, and the same with random integer noise on
the label arrays (the mask is a function of arbitrary labels).   stdin {"seed", "ncases", "out"}"""
import json
import random
import sys
import traceback

import numpy as np

import c03_gen as G
from renormalizer import Mps
from renormalizer.mps.svd_qn import get_qn_mask


def main():
    payload = json.loads(sys.stdin.read() or "{}")
    seed = int(payload.get("seed", 0))
    ncases = int(payload.get("ncases", 20))
    cases, errors = [], []
    for k in range(ncases):
        cs = seed * 100057 + k
        rng = random.Random(cs)
        np.random.seed(cs % (2 ** 31))
        try:
            nsite = rng.choice([2, 3, 3, 4])
            ncomp = rng.choice([1, 1, 2])
            model, sites = G.build_model(random.Random(rng.randrange(10 ** 9)), nsite, ncomp, False)
            q, _ = G.random_sector(rng, sites, "any")
            try:
                mps = Mps.random(model, np.array(q), rng.randint(3, 6) if ncomp == 1 else rng.randint(6, 8))
            except (FloatingPointError, ValueError):
                continue
            two = nsite >= 2 and rng.random() < 0.5
            i = rng.randrange(nsite - 1) if two else rng.randrange(nsite)
            centre = i + (rng.randrange(2) if two else 0)
            mps.move_qnidx(centre)
            mps.to_right = rng.random() < 0.5
            if rng.random() < 0.5:
                mps.qn = [np.asarray(x) + np.array([[rng.randint(-1, 1) for _ in range(ncomp)] for _ in range(len(x))]) for x in mps.qn]
            cidx = [i, i + 1] if two else [i]
            qnbigl, qnbigr, qnmat = mps._get_big_qn(cidx)
            mask = get_qn_mask(qnmat, mps.qntot)
            cases.append({"two": two, "i": i, "ncomp": ncomp,
                          "sigma": [sites[j]["sigmaqn"] for j in cidx],
                          "qn": [np.asarray(x).astype(int).reshape(len(x), -1).tolist() for x in mps.qn], "qnidx": int(mps.qnidx),
                          "qntot": [int(v) for v in np.asarray(mps.qntot).reshape(-1)], "to_right": bool(mps.to_right),
                          "mask": np.asarray(mask).tolist(), "true_entries": int(np.sum(mask)), "entries": int(mask.size)})
        except Exception as ex:
            errors.append({"case": cs, "exception": repr(ex), "tb": traceback.format_exc()[-600:]})
    res = {"cases": cases, "errors": errors}
    if payload.get("out"):
        with open(payload["out"], "w") as f:
            json.dump(res, f)
        print("RESULT " + json.dumps({"file": payload["out"]}))
    else:
        print("RESULT " + json.dumps(res))


main()
