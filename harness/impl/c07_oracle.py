"""C07 dense oracle: observables of Mps / MpDm vs the dense state vector (float/complex, 1e-9 relative).

stdin: {"seed": int, "start": int, "count": int}   -> cases  start .. start+count-1  of the stream `seed`
stdout: RESULT {"n":…, "checks":…, "failures":[…], "hist":{…}}
Every case is a pure function of (seed, index): `replay(seed, idx)` re-runs one case (used by repro snippets).
"""
import json
import random
import sys

from renormalizer import Mps, Mpo, Model, Op
from renormalizer.mps import MpDm
from renormalizer.model.basis import BasisHalfSpin, BasisSHO, BasisSimpleElectron, BasisMultiElectron
from renormalizer.model.op import OpSum  # noqa: F401
import numpy as np

TOL = 1e-9


# ----------------------------------------------------------------------------------------- generators
def make_model(rng):
    """returns (model, kind).  kind 'free': every sigmaqn is zero (dense states); 'elec': one conserved number."""
    kind = rng.choice(["free", "free", "elec", "multi"])
    n = rng.randint(1, 5) if kind == "free" else rng.randint(2, 5)
    basis = []
    if kind == "free":
        for i in range(n):
            if rng.random() < 0.6:
                basis.append(BasisHalfSpin(("s", i)))
            else:
                basis.append(BasisSHO(("v", i), 1.0 + 0.1 * i, rng.randint(2, 3)))
    elif kind == "elec":
        ne = 0
        for i in range(n):
            if rng.random() < 0.65 or (i == n - 1 and ne == 0):
                basis.append(BasisSimpleElectron(("e", ne)))
                ne += 1
            else:
                basis.append(BasisSHO(("v", i), 1.0 + 0.1 * i, rng.randint(2, 3)))
    else:
        k = rng.randint(2, 3)
        pos = rng.randrange(n)
        for i in range(n):
            if i == pos:
                basis.append(BasisMultiElectron([("e", j) for j in range(k)], [1] * k))
            else:
                basis.append(BasisSHO(("v", i), 1.0 + 0.1 * i, rng.randint(2, 3)))
    return Model(basis, []), kind


def site_symbols(b, cplx):
    """list of (symbol, dofs) one-site operator symbols for basis set b."""
    if isinstance(b, BasisHalfSpin):
        s = [("sigma_x", [b.dof]), ("sigma_z", [b.dof]), ("sigma_+", [b.dof]), ("sigma_-", [b.dof])]
        if cplx:
            s.append(("sigma_y", [b.dof]))
        return s
    if isinstance(b, BasisSHO):
        return [(r"b^\dagger b", [b.dof, b.dof]), (r"b^\dagger+b", [b.dof]), ("x", [b.dof]), (r"b^\dagger", [b.dof]), ("b", [b.dof])]
    if isinstance(b, BasisSimpleElectron):
        return [(r"a^\dagger a", [b.dof, b.dof]), (r"a^\dagger", [b.dof]), ("a", [b.dof])]
    if isinstance(b, BasisMultiElectron):
        d = b.dofs
        out = [(r"a^\dagger a", [x, x]) for x in d]
        out += [(r"a^\dagger a", [d[0], d[1]]), (r"a^\dagger a", [d[1], d[0]])]
        return out
    raise ValueError


def rand_term(rng, model, cplx, maxbody=3):
    nb = rng.randint(1, min(maxbody, model.nsite))
    sites = sorted(rng.sample(range(model.nsite), nb))
    sym, dofs = [], []
    for i in sites:
        s, d = rng.choice(site_symbols(model.basis[i], cplx))
        # MultiElectron symbols are already two-dof symbols of one site
        sym.append(s)
        dofs += d
    f = rng.choice([1.0, -0.5, 2.0, 0.25])
    if cplx:
        f = complex(f, rng.choice([0.0, 0.5, -1.0]))
    return Op(" ".join(sym), dofs, f)


def rand_operator(rng, model, cplx):
    k = rng.choice([1, 1, 1, 2, 3])
    t = rand_term(rng, model, cplx)
    for _ in range(k - 1):
        t = t + rand_term(rng, model, cplx)
    return t


def op_list(rng, model, cplx):
    """operator lists with shared prefixes / suffixes, repeats, one-site differences, sums, long lists"""
    style = rng.choice(["onsite", "mixed", "pairs", "repeat", "random", "long", "single", "onediff"])
    ops = []
    n = model.nsite
    if style == "onsite":
        for i in range(n):
            s, d = rng.choice(site_symbols(model.basis[i], cplx))
            ops.append(Op(s, d, (1.0 + 0j) if cplx else 1.0))
    elif style == "pairs":
        for i in range(n - 1):
            s1, d1 = rng.choice(site_symbols(model.basis[i], cplx))
            s2, d2 = rng.choice(site_symbols(model.basis[i + 1], cplx))
            ops.append(Op(s1 + " " + s2, d1 + d2, (1.0 + 0j) if cplx else 1.0))
        ops = ops or [rand_operator(rng, model, cplx)]
    elif style == "repeat":
        a = rand_operator(rng, model, cplx)
        b = rand_operator(rng, model, cplx)
        ops = [a, b, a, a, b][: rng.randint(2, 5)]
    elif style == "single":
        ops = [rand_operator(rng, model, cplx)]
    elif style == "onediff":
        # same operator except at one site: every symbol of that site in turn
        i = rng.randrange(n)
        others = [j for j in range(n) if j != i]
        rest_s, rest_d = [], []
        for j in others:
            if rng.random() < 0.5:
                s, d = rng.choice(site_symbols(model.basis[j], cplx))
                rest_s.append((j, s, d))
        for s, d in site_symbols(model.basis[i], cplx):
            parts = sorted(rest_s + [(i, s, d)])
            ops.append(Op(" ".join(p[1] for p in parts), sum((p[2] for p in parts), []), (1.0 + 0j) if cplx else 1.0))
    elif style == "long":
        for _ in range(rng.randint(2 * n + 3, 4 * n + 6)):
            ops.append(rand_term(rng, model, cplx, maxbody=2))
    else:
        for _ in range(rng.randint(2, 7)):
            ops.append(rand_operator(rng, model, cplx))
        if style == "mixed":
            for i in range(n):
                s, d = rng.choice(site_symbols(model.basis[i], cplx))
                ops.append(Op(s, d, (1.0 + 0j) if cplx else 1.0))
    rng.shuffle(ops)
    return style, ops


def legal_qn(model, kind, rng):
    if kind == "free":
        return 0
    ne = sum(1 for b in model.basis if isinstance(b, BasisSimpleElectron))
    if kind == "multi":
        return 1
    return rng.randint(0, ne)


def rand_mps(rng, nprng, model, kind, qn, cplx, m_max=None):
    m_max = m_max or rng.randint(1, 6)
    state = np.random.get_state()
    np.random.seed(nprng.integers(0, 2 ** 31 - 1))
    try:
        for attempt in range(6):
            try:
                mps = Mps.random(model, qn, m_max + 2 * attempt, percent=1.0)
                break
            except FloatingPointError:      # small m_max can leave the last site empty (C06's business)
                if attempt == 5:
                    raise
    finally:
        np.random.set_state(state)
    if cplx:
        mps = mps.to_complex()
    # replace every structurally non-zero entry by a fresh random number: unnormalised, no gauge
    for i in range(len(mps)):
        a = np.array(mps[i].array)
        mask = a != 0
        new = nprng.normal(size=a.shape)
        if cplx:
            new = new + 1j * nprng.normal(size=a.shape)
        mps[i] = np.where(mask, new, 0) * rng.choice([1.0, 0.5, 2.0])
    # random gauge
    g = rng.choice(["none", "none", "cano", "left", "move", "cano2"])
    if g == "cano":
        mps.canonicalise()
    elif g == "cano2":
        mps.canonicalise().canonicalise()
    elif g == "left":
        mps.ensure_left_canonical()
    elif g == "move" and len(mps) > 1:
        mps.move_qnidx(rng.randrange(len(mps)))
    if rng.random() < 0.3:
        mps.coeff = mps.coeff * 0.7      # neither todense() nor expectation() looks at coeff
    return mps, g


def rand_mpdm(rng, nprng, model, kind, qn, cplx):
    mps, g = rand_mps(rng, nprng, model, kind, qn, False)     # from_mps builds real sites
    mpdm = MpDm.from_mps(mps)
    if cplx:
        mpdm = mpdm.to_complex()
    if kind == "free":
        # every entry is allowed by the (all-zero) labels: fully random rank-4 sites
        for i in range(len(mpdm)):
            sh = mpdm[i].shape
            new = nprng.normal(size=sh)
            if cplx:
                new = new + 1j * nprng.normal(size=sh)
            mpdm[i] = new
    else:
        # make the ancilla non-trivial by applying number-conserving operators
        for _ in range(rng.randint(1, 2)):
            terms = []
            for b in model.basis:
                s, d = site_symbols(b, False)[0]
                terms.append(Op(s, d, float(nprng.normal())))
            for i in range(model.nsite - 1):
                bi, bj = model.basis[i], model.basis[i + 1]
                if isinstance(bi, BasisSimpleElectron) and isinstance(bj, BasisSimpleElectron):
                    terms.append(Op(r"a^\dagger a", [bi.dof, bj.dof], float(nprng.normal())))
                    terms.append(Op(r"a^\dagger a", [bj.dof, bi.dof], float(nprng.normal())))
            terms.append(Op("I", model.basis[0].dof if not isinstance(model.basis[0], BasisMultiElectron) else model.basis[0].dofs[0], 0.7))
            mpdm = mpdm.apply(Mpo(model, sum(terms[1:], terms[0])))
    return mpdm, g


# ------------------------------------------------------------------------------------------- dense side
def dense_state(mp):
    if mp.is_mpdm:
        d = int(np.prod(mp.pbond_list))
        return np.asarray(Mpo.todense(mp)).reshape(d, d)
    return np.asarray(mp.todense())


def dense_bilinear(x, o, psi):
    """x^T O psi for vectors;  sum_{s',s,t} x[s',t] O[s',s] psi[s,t] for density-operator form"""
    if psi.ndim == 1:
        return x @ (o @ psi)
    return np.sum(x * (o @ psi))


def close(a, b, scale):
    a, b = complex(a), complex(b)
    if abs(a - b) <= TOL * max(scale, 1e-300):
        return True
    # documented return rule of expectation / expectations: an imaginary part with |Im| <= 1e-8 ABSOLUTE may be dropped
    # (matters for states of tiny norm, where 1e-8 is not small against the scale)
    return abs(a.real - b.real) <= TOL * max(scale, 1e-300) and abs(b.imag) <= 1.001e-8 and a.imag == 0


def ptrace(psi, dims, keep):
    """rho[x, y] = sum_rest psi[x, rest] conj(psi[y, rest]); for matrices the ancilla is traced too."""
    n = len(dims)
    if psi.ndim == 1:
        t = psi.reshape(dims)
        rest = [k for k in range(n) if k not in keep]
        r = np.tensordot(t, t.conj(), axes=(rest, rest))
    else:
        t = psi.reshape(list(dims) + [psi.shape[1]])
        rest = [k for k in range(n) if k not in keep] + [n]
        r = np.tensordot(t, t.conj(), axes=(rest, rest))
    d = int(np.prod([dims[k] for k in keep]))
    return r.reshape(d, d)


def vn(p):
    p = np.asarray(p, dtype=float)
    p = p[p > 1e-14]
    return float(-(p * np.log(p)).sum())


# ------------------------------------------------------------------------------------------- one case
def run_case(seed, idx):
    rng = random.Random("c07-%d-%d" % (seed, idx))
    nprng = np.random.default_rng([seed, idx, 7])
    fails = []
    info = {}
    nchecks = 0
    model, kind = make_model(rng)
    cplx_state = rng.random() < 0.5
    cplx_op = rng.random() < 0.4
    form = rng.choice(["mps", "mps", "mpdm"])
    qn = legal_qn(model, kind, rng)
    if form == "mps":
        ket, gauge = rand_mps(rng, nprng, model, kind, qn, cplx_state)
    else:
        ket, gauge = rand_mpdm(rng, nprng, model, kind, qn, cplx_state)
    bra_mode = rng.choice(["default", "default", "other", "other_qn"])
    bra = None
    if bra_mode != "default":
        qn_b = qn
        if bra_mode == "other_qn" and kind == "elec":
            qn_b = legal_qn(model, kind, rng)
        if form == "mps":
            bra, _ = rand_mps(rng, nprng, model, kind, qn_b, cplx_state or rng.random() < 0.3)
        else:
            bra, _ = rand_mpdm(rng, nprng, model, kind, qn_b, cplx_state or rng.random() < 0.3)
    style, ops = op_list(rng, model, cplx_op)
    info.update(kind=kind, n=model.nsite, form=form, cplx_state=cplx_state, cplx_op=cplx_op, bra=bra_mode, style=style,
                nops=len(ops), gauge=gauge, bond=[int(x) for x in ket.bond_dims])
    try:
        mpos = [Mpo(model, o) for o in ops]
    except Exception as e:      # operator construction is C01's business; do not count it here
        info["skipped"] = "Mpo construction raised %r" % (e,)
        return info, fails, 0
    dense_ops = [np.asarray(m.todense()) for m in mpos]
    psi = dense_state(ket)
    x = psi.conj() if bra is None else dense_state(bra)
    scale_state = np.linalg.norm(x) * np.linalg.norm(psi)

    def note(kind_, **kw):
        kw["check"] = kind_
        fails.append(kw)

    # ---- expectation / expectations(fast) / expectations(slow) / dense
    try:
        fast = np.asarray(ket.expectations(mpos, self_conj=bra))
        slow = np.asarray(ket.expectations(mpos, self_conj=bra, opt=False))
        one = [ket.expectation(m, self_conj=bra) for m in mpos]
    except Exception as e:
        note("expectations-raised", error=repr(e))
        return info, fails, 1
    perm = list(range(len(mpos)))
    rng.shuffle(perm)
    fast_p = np.asarray(ket.expectations([mpos[i] for i in perm], self_conj=bra))
    # the list given as symbolic operators (converted inside)
    if rng.random() < 0.3:
        fast_sym = np.asarray(ket.expectations(list(ops), self_conj=bra))
    else:
        fast_sym = fast
    nontrivial = 0
    for k, (m, o) in enumerate(zip(mpos, dense_ops)):
        ref = dense_bilinear(x, o, psi)
        sc = scale_state * max(np.linalg.norm(o, 2), 1e-300)
        if abs(ref) > 1e-6 * sc:
            nontrivial += 1
        for name, val in (("expectation", one[k]), ("expectations-fast", fast[k]), ("expectations-slow", slow[k]),
                          ("expectations-fast-permuted", fast_p[perm.index(k)]), ("expectations-symbolic", fast_sym[k])):
            nchecks += 1
            if not close(val, ref, sc):
                note(name, op_index=k, impl=complex(val).__repr__(), dense=complex(ref).__repr__(), scale=float(sc))
        nchecks += 1
        if not close(fast[k], one[k], sc):
            note("fast-vs-slow", op_index=k, fast=complex(fast[k]).__repr__(), slow=complex(one[k]).__repr__())
    info["nontrivial_ops"] = nontrivial
    # return type rule: real array iff all imaginary parts negligible
    # ---- transition amplitude through BraKetPair (bra conj inside)
    if bra is not None and form == "mps":
        from renormalizer.mps.mps import BraKetPair
        k = rng.randrange(len(mpos))
        ft = BraKetPair(bra, ket, mpos[k]).ft
        ref = np.conj(bra.coeff) * ket.coeff * (dense_state(bra).conj() @ (dense_ops[k] @ psi))
        nchecks += 1
        if not close(ft, ref, scale_state * max(np.linalg.norm(dense_ops[k], 2), 1e-300) * abs(bra.coeff * ket.coeff)):
            note("braketpair", op_index=k, impl=repr(ft), dense=repr(complex(ref)))
    # ---- occupations
    dims = [int(d) for d in ket.pbond_list]
    nrm2 = float(np.linalg.norm(psi) ** 2)
    try:
        if model.n_edofs > 0:
            occ = np.asarray(ket.e_occupations)
            for j, dof in enumerate(model.e_dofs):
                o = np.asarray(Mpo(model, Op(r"a^\dagger a", dof)).todense())
                ref = dense_bilinear(psi.conj(), o, psi)
                nchecks += 1
                if not close(occ[j], ref, nrm2):
                    note("e_occupations", dof=repr(dof), impl=repr(complex(occ[j])), dense=repr(complex(ref)))
            er = np.asarray(ket.calc_edof_rdm())
            for i, d1 in enumerate(model.e_dofs):
                for j, d2 in enumerate(model.e_dofs):
                    o = np.asarray(Mpo(model, Op(r"a^\dagger a", [d1, d2])).todense())
                    ref = dense_bilinear(psi.conj(), o, psi)
                    nchecks += 1
                    if not close(er[i, j], ref, nrm2):
                        note("calc_edof_rdm", i=i, j=j, impl=repr(complex(er[i, j])), dense=repr(complex(ref)))
        if model.n_vdofs if hasattr(model, "n_vdofs") else len(model.v_dofs):
            occ = np.asarray(ket.ph_occupations)
            for j, dof in enumerate(model.v_dofs):
                o = np.asarray(Mpo(model, Op(r"b^\dagger b", dof)).todense())
                ref = dense_bilinear(psi.conj(), o, psi)
                nchecks += 1
                if not close(occ[j], ref, nrm2 * max(dims)):
                    note("ph_occupations", dof=repr(dof), impl=repr(complex(occ[j])), dense=repr(complex(ref)))
    except Exception as e:
        note("occupations-raised", error=repr(e))
    # ---- reduced density matrices (spec: rho = Tr_rest |Psi><Psi|, rho[x,y] = sum psi[x,.] conj psi[y,.])
    try:
        r1 = ket.calc_1site_rdm()
        for i in range(len(dims)):
            ref = ptrace(psi, dims, [i])
            nchecks += 1
            if r1[i].shape != ref.shape or np.abs(r1[i] - ref).max() > TOL * nrm2:
                note("calc_1site_rdm", site=i, err=float(np.abs(r1[i] - ref).max()) if r1[i].shape == ref.shape else "shape",
                     err_vs_transpose=float(np.abs(r1[i] - ref.T).max()) if r1[i].shape == ref.shape else None)
        if len(dims) > 1:
            sub = sorted(rng.sample(range(len(dims)), rng.randint(1, len(dims))))
            rs = ket.calc_1site_rdm(sub if rng.random() < 0.5 else tuple(sub))
            nchecks += 1
            if sorted(rs) != sub or any(np.abs(rs[i] - r1[i]).max() > TOL * nrm2 for i in sub):
                note("calc_1site_rdm(idx)", idx=sub)
        r2 = ket.calc_2site_rdm()
        want = [(i, j) for i in range(len(dims)) for j in range(i + 1, len(dims))]
        nchecks += 1
        if sorted(r2) != want:
            note("calc_2site_rdm-keys", keys=repr(sorted(r2)))
        for (i, j) in want:
            ref = ptrace(psi, dims, [i, j])
            nchecks += 1
            v = r2.get((i, j))
            if v is None or v.shape != ref.shape or np.abs(v - ref).max() > TOL * nrm2:
                note("calc_2site_rdm", pair=[i, j], err=float(np.abs(v - ref).max()) if v is not None and v.shape == ref.shape else "shape",
                     err_vs_transpose=float(np.abs(v - ref.T).max()) if v is not None and v.shape == ref.shape else None)
    except Exception as e:
        note("rdm-raised", error=repr(e))
    # ---- entropies: calc_vn_entropy normalises the spectrum, so unnormalised states in any gauge are legal inputs
    try:
        nket = ket
        p = psi
        e1 = nket.calc_entropy("1site")
        e2 = nket.calc_entropy("2site") if len(dims) > 1 else {}
        tolS = lambda ref: 1e-9 * max(1.0, abs(ref))

        def spec_entropy(w):
            w = np.asarray(w, dtype=float)
            return vn(w / w.sum())
        s1 = {}
        for i in range(len(dims)):
            s1[i] = spec_entropy(np.linalg.eigvalsh(ptrace(p, dims, [i])))
            nchecks += 1
            if abs(e1[i] - s1[i]) > tolS(s1[i]):
                note("entropy-1site", site=i, impl=float(e1[i]), dense=s1[i])
        s2 = {}
        for i in range(len(dims)):
            for j in range(i + 1, len(dims)):
                s2[(i, j)] = spec_entropy(np.linalg.eigvalsh(ptrace(p, dims, [i, j])))
                nchecks += 1
                if abs(e2[(i, j)] - s2[(i, j)]) > tolS(s2[(i, j)]):
                    note("entropy-2site", pair=[i, j], impl=float(e2[(i, j)]), dense=s2[(i, j)])
        if len(dims) > 1:
            mu = nket.calc_entropy("mutual")
            for i in range(len(dims)):
                for j in range(len(dims)):
                    ref = 0.0 if i == j else (s1[i] + s1[j] - s2[(min(i, j), max(i, j))]) / 2
                    nchecks += 1
                    if abs(mu[i, j] - ref) > 2e-9:
                        note("entropy-mutual", pair=[i, j], impl=float(mu[i, j]), dense=ref)
            be = np.asarray(nket.calc_entropy("bond"))
            nchecks += 1
            if len(be) != len(dims) - 1:
                note("entropy-bond-length", impl=len(be))
            n_ = len(dims)
            if p.ndim == 1:
                t = p.reshape(dims)
                site_dims = dims
            else:   # purified form: a site carries its physical and its ancilla index
                t = p.reshape(list(dims) + list(dims)).transpose([k for i in range(n_) for k in (i, n_ + i)])
                site_dims = [d * d for d in dims]
            for b in range(min(len(be), n_ - 1)):
                dl = int(np.prod(site_dims[: b + 1]))
                sv = np.linalg.svd(t.reshape(dl, -1), compute_uv=False)
                ref = spec_entropy(sv ** 2)
                nchecks += 1
                if abs(be[b] - ref) > 1e-8 * max(1.0, abs(ref)):
                    note("entropy-bond", bond=b, impl=float(be[b]), dense=ref)
            # the input of the entropy calls is left untouched
            nchecks += 1
            if np.abs(dense_state(nket) - p).max() > 1e-12 * max(1.0, np.abs(p).max()):
                note("entropy-mutates-state")
        # entropies do not depend on the norm: a copy scaled to |psi|^2 ~ 1e8..1e10 (or ~1e-8) must give the same values
        # (calc_vn_entropy once tested the sign of the spectrum with an absolute tolerance before normalising it)
        if rng.random() < 0.5:
            nrm_ = float(np.linalg.norm(p))
            fac = rng.choice([3e4, 1e5, 1e-4]) / max(nrm_, 1e-300)
            sk = ket.copy().scale(fac)
            label = "large" if fac * nrm_ > 1 else "small"
            try:
                f1 = sk.calc_entropy("1site")
                f2 = sk.calc_entropy("2site") if len(dims) > 1 else {}
                for i in range(len(dims)):
                    nchecks += 1
                    if abs(f1[i] - s1[i]) > 1e-8 * max(1.0, abs(s1[i])):
                        note("entropy-1site-scaled", scale=label, site=i, impl=float(f1[i]), dense=s1[i])
                for key_, ref_ in s2.items():
                    nchecks += 1
                    if abs(f2[key_] - ref_) > 1e-8 * max(1.0, abs(ref_)):
                        note("entropy-2site-scaled", scale=label, pair=list(key_), impl=float(f2[key_]), dense=ref_)
            except Exception as e:
                import traceback
                note("entropy-raised-on-scaled-state", scale=label, norm2=(fac * nrm_) ** 2, error=repr(e), tb=traceback.format_exc()[-500:])
    except Exception as e:
        import traceback
        note("entropy-raised", error=repr(e), tb=traceback.format_exc()[-800:])
    return info, fails, nchecks


# ------------------------------------------------------------------- small imaginary part next to a large real part
# Contract tested (what HEAD does, `np.isclose(float(val.imag), 0)` / `np.allclose(results.imag, 0)`): an imaginary
# part with |Im| <= 1e-8 ABSOLUTE may be dropped (a float / real array comes back); anything larger must be kept,
# however small it is relative to the real part.  Real and imaginary parts are compared separately, each with a
# tolerance relative to its own magnitude (plus a rounding floor 1e-12 * |x||psi||O|).
DROP = 1.001e-8


def part_errors(val, ref, sc):
    """list of (which, err, allowed) violated for one returned value against the dense reference"""
    val, ref = complex(val), complex(ref)
    bad = []
    floor = 1e-12 * sc
    tol_re = 1e-9 * abs(ref.real) + floor
    if abs(val.real - ref.real) > tol_re:
        bad.append(("re", abs(val.real - ref.real), tol_re))
    err_im = abs(val.imag - ref.imag)
    tol_im = 1e-6 * abs(ref.imag) + floor
    if abs(ref.imag) <= DROP:
        tol_im = max(tol_im, DROP)              # dropping is allowed
    if err_im > tol_im:
        bad.append(("im", err_im, tol_im))
    return bad


def run_smallimag_case(seed, idx):
    rng = random.Random("c07-si-%d-%d" % (seed, idx))
    nprng = np.random.default_rng([seed, idx, 11])
    fails = []
    n = rng.randint(1, 5)
    variant = rng.choice(["nonherm-sum", "nonherm-factor", "bra-perturbed", "nonherm-mpdm"])
    if variant == "bra-perturbed":
        n = max(n, 2)        # MatrixProduct.add of one-site chains returns a (2,p,1) site (C03's business)
    basis = []
    for i in range(n):
        basis.append(BasisHalfSpin(("s", i)) if rng.random() < 0.7 else BasisSHO(("v", i), 1.0, rng.randint(2, 3)))
    model = Model(basis, [])
    ratio = 10.0 ** (-rng.uniform(4.0, 9.0)) * rng.choice([1, -1])
    e0 = rng.choice([1.0, 7.0, 7.0, 30.0, -12.0])
    cplx_ket = variant in ("nonherm-sum", "nonherm-factor") and rng.random() < 0.4
    ket, _ = rand_mps(rng, nprng, model, "free", 0, cplx_ket)
    ket.normalize("mps_only")
    ket.coeff = 1

    def real_term():
        i = rng.randrange(n)
        s, d = site_symbols(model.basis[i], False)[1 if isinstance(model.basis[i], BasisHalfSpin) else 0]   # sigma_z / b^dagger b
        return i, s, d
    dof0 = model.basis[0].dof
    i1, s1, d1 = real_term()
    i2, s2, d2 = real_term()
    bra = None
    if variant == "nonherm-factor":
        op = Op(s1, d1, complex(e0, e0 * ratio))
    elif variant in ("nonherm-sum", "nonherm-mpdm"):
        # H - i Gamma/2 n : large real part from the constant and a real term, tiny anti-Hermitian part
        op = Op("I", dof0, complex(e0, 0.0)) + Op(s1, d1, complex(0.5, 0.0)) + Op(s2, d2, complex(0.0, e0 * ratio))
    else:
        op = Op("I", dof0, e0) + Op(s1, d1, 0.5)
        chi, _ = rand_mps(rng, nprng, model, "free", 0, False)
        chi.normalize("mps_only")
        bra = ket.to_complex().add(chi.to_complex().scale(1j * ratio * 10))
    if variant == "nonherm-mpdm":
        ket = MpDm.from_mps(ket)
        for i in range(len(ket)):
            ket[i] = ket[i].array + 0.3 * nprng.normal(size=ket[i].shape)
    other = Op(s2, d2, 1.0) if variant != "bra-perturbed" else Op(s2, d2, 2.0)
    mpo, mpo2 = Mpo(model, op), Mpo(model, other)
    lst = [mpo, mpo2, mpo]
    k_pos = [0, 2]
    if rng.random() < 0.5:
        lst = [mpo2, mpo]
        k_pos = [1]
    psi = dense_state(ket)
    self_conj = None if bra is None else bra.conj()
    x = psi.conj() if bra is None else dense_state(bra).conj()
    o = np.asarray(mpo.todense())
    ref = complex(dense_bilinear(x, o, psi))
    sc = np.linalg.norm(x) * np.linalg.norm(psi) * max(np.linalg.norm(o, 2), 1e-300)
    info = {"kind": "small-imag", "variant": variant, "n": n, "ratio": ratio, "e0": e0, "dense": repr(ref),
            "im_over_re": (abs(ref.imag) / abs(ref.real)) if ref.real != 0 else None}
    nchecks = 0
    try:
        one = ket.expectation(mpo, self_conj=self_conj)
        fast = ket.expectations(lst, self_conj=self_conj)
        slow = ket.expectations(lst, self_conj=self_conj, opt=False)
    except Exception as e:
        fails.append({"check": "small-imag-raised", "error": repr(e)})
        return info, fails, 1
    got = [("expectation", one)] + [("expectations-fast", fast[k]) for k in k_pos] + [("expectations-slow", slow[k]) for k in k_pos]
    if variant == "bra-perturbed":
        from renormalizer.mps.mps import BraKetPair
        got.append(("braketpair", BraKetPair(bra, ket, mpo).ft / (np.conj(bra.coeff) * ket.coeff)))
    for name, v in got:
        nchecks += 1
        for which, err, tol in part_errors(v, ref, sc):
            fails.append({"check": "small-imag-" + name, "part": which, "impl": repr(complex(v)), "dense": repr(ref),
                          "err": float(err), "allowed": float(tol), "returned_type": type(v).__name__})
    # single vs batched, part by part
    for k in k_pos:
        nchecks += 1
        a, b = complex(one), complex(fast[k])
        if abs(a.imag - b.imag) > max(DROP if abs(ref.imag) <= DROP else 0.0, 1e-6 * abs(ref.imag) + 1e-12 * sc) or \
           abs(a.real - b.real) > 1e-9 * abs(ref.real) + 1e-12 * sc:
            fails.append({"check": "small-imag-single-vs-batched", "single": repr(a), "batched": repr(b), "dense": repr(ref)})
    return info, fails, nchecks


# ------------------------------------------------------------------- one list of SYMBOLIC observables, several models
# The same python list object (Op / OpSum entries, sometimes a ready Mpo of the first model is NOT included: an Mpo is
# bound to its model) is passed to expectations() / expectation() of states living on DIFFERENT models with the same
# dof names: other oscillator frequency, other site order, other number of levels.  Each result is compared with a
# dense reference built with numpy.kron from first-principles local matrices (not Mpo.todense), and the caller's list
# must be left untouched (same objects, same types, same length): the result may depend on (state, model, op) only.
def _local(symbol, spec):
    kind = spec[0]
    if kind == "spin":
        # the 2x2 matrices of the spin symbols are a convention of the basis class (which level is "up");
        # they are read from it, the composition over sites (kron, site order, factors, sums) is independent
        return np.asarray(BasisHalfSpin("probe").op_mat(symbol))
    if kind == "elec":
        return {r"a^\dagger a": np.diag([0., 1.])}[symbol]
    omega, nb = spec[1], spec[2]
    b = np.diag(np.sqrt(np.arange(1, nb)), k=1)
    if symbol == "x":
        return np.sqrt(0.5 / omega) * (b.T + b)
    if symbol == "p":
        return 1j * np.sqrt(omega / 2) * (b.T - b)
    if symbol in ("n", r"b^\dagger b"):
        return np.diag(np.arange(nb)).astype(float)
    if symbol == r"b^\dagger+b":
        return b.T + b
    raise ValueError(symbol)


def _spin_convention_ok():
    """the spin symbols' matrices are a convention of the basis class; read it once and use kron on top of it"""
    return True


def _hand_dense(mp):
    res = np.ones((1, 1), dtype=complex)
    for ms in mp:
        arr = np.asarray(ms.array)
        res = np.tensordot(res, arr, axes=([-1], [0])).reshape(-1, arr.shape[-1])
    return res[:, 0]


def run_shared_list_case(seed, idx):
    rng = random.Random("c07-sl-%d-%d" % (seed, idx))
    nprng = np.random.default_rng([seed, idx, 13])
    fails = []
    n = rng.randint(2, 5)
    # dof table: name -> spec
    specs = {}
    order = []
    ne = 0
    for i in range(n):
        r = rng.random()
        if r < 0.45:
            name = "v%d" % i
            specs[name] = ("sho", rng.choice([0.5, 1.0, 1.7]), rng.randint(2, 4))
        elif r < 0.75:
            name = "e%d" % i
            specs[name] = ("elec",)
            ne += 1
        else:
            name = "s%d" % i
            specs[name] = ("spin",)
        order.append(name)
    if not any(v[0] == "sho" for v in specs.values()):
        specs[order[0]] = ("sho", 1.0, 3) if not order[0].startswith("e") else specs[order[0]]
        if order[0].startswith("e"):
            order.append("v%d" % n)
            specs[order[-1]] = ("sho", 1.0, 3)

    def variant(kind):
        sp = dict(specs)
        od = list(order)
        if kind == "freq":
            for k, v in specs.items():
                if v[0] == "sho":
                    sp[k] = ("sho", v[1] * rng.choice([0.4, 2.5, 3.0]), v[2])
        elif kind == "order":
            od = list(order)
            while od == order and len(od) > 1:
                rng.shuffle(od)
        elif kind == "nbas":
            for k, v in specs.items():
                if v[0] == "sho":
                    sp[k] = ("sho", v[1], v[2] + 1)
        return od, sp
    seq = [("A", (list(order), dict(specs)))]
    for kind in rng.sample(["freq", "order", "nbas", "freq"], rng.randint(2, 3)):
        seq.append((kind, variant(kind)))
    if rng.random() < 0.5:
        seq.append(("A-again", (list(order), dict(specs))))

    def build_model(od, sp):
        basis = []
        for name in od:
            v = sp[name]
            if v[0] == "sho":
                basis.append(BasisSHO(name, v[1], v[2]))
            elif v[0] == "elec":
                basis.append(BasisSimpleElectron(name))
            else:
                basis.append(BasisHalfSpin(name))
        return Model(basis, [])

    # the symbolic observables and their reference description  [(factor, {dof: symbol}), ...] per list entry
    def one_term():
        k = rng.randint(1, min(2, len(order)))
        dofs = rng.sample(order, k)
        loc = {}
        for d in dofs:
            kind = specs[d][0]
            loc[d] = rng.choice({"sho": ["x", "p", "n", "x", r"b^\dagger+b"], "elec": [r"a^\dagger a"],
                                 "spin": ["sigma_x", "sigma_z", "sigma_+", "sigma_y"]}[kind])
        cplx = any(v in ("p", "sigma_y") for v in loc.values())
        f = rng.choice([1.0, -0.5, 2.0])
        fac = complex(f, 0.0) if cplx else f
        syms, ds = [], []
        for d in dofs:
            syms.append(loc[d])
            ds += [d] * len(loc[d].split(" "))
        return Op(" ".join(syms), ds, fac), (f, loc)
    ops, refs = [], []
    for _ in range(rng.randint(2, 7)):
        if rng.random() < 0.3:
            (o1, r1), (o2, r2) = one_term(), one_term()
            ops.append(o1 + o2)
            refs.append([r1, r2])
        else:
            o1, r1 = one_term()
            ops.append(o1)
            refs.append([r1])
    if rng.random() < 0.5:
        ops.append(ops[0])
        refs.append(refs[0])
    snapshot = list(ops)
    types = [type(o) for o in ops]
    info = {"kind": "shared-list", "n": len(order), "nops": len(ops), "sequence": [k for k, _ in seq], "order": order}
    nchecks = 0
    for label, (od, sp) in seq:
        model = build_model(od, sp)
        qn = rng.randint(0, ne) if ne else 0
        try:
            st, _ = rand_mps(rng, nprng, model, "elec" if ne else "free", qn, rng.random() < 0.4)
        except Exception as e:
            info["skipped"] = "state generation raised %r" % (e,)
            return info, fails, nchecks
        form = "mps"
        if rng.random() < 0.25 and not st.is_complex:
            st = MpDm.from_mps(st)
            form = "mpdm"
        if form == "mps":
            psi = _hand_dense(st)
        else:
            psi = dense_state(st)
        dims = [int(d) for d in st.pbond_list]
        dense_ops = []
        for terms in refs:
            tot = 0
            for f, loc in terms:
                m = np.ones((1, 1))
                for name, d in zip(od, dims):
                    m = np.kron(m, _local(loc[name], sp[name]) if name in loc else np.eye(d))
                tot = tot + f * m
            dense_ops.append(tot)
        try:
            how = rng.choice(["fast", "fast", "slow", "single-then-fast"])
            if how == "single-then-fast":
                pre = [st.expectation(o) for o in ops]
            vals_fast = np.asarray(st.expectations(ops, opt=(how != "slow")))
            vals_one = [st.expectation(o) for o in ops]
        except Exception as e:
            fails.append({"check": "shared-list-raised", "state": label, "error": repr(e)[:300]})
            break
        nchecks += 1
        if (len(ops) != len(snapshot) or any(a is not b for a, b in zip(ops, snapshot)) or [type(o) for o in ops] != types) \
                and not info.get("list_modified"):
            info["list_modified"] = label
            fails.append({"check": "shared-list-caller-list-modified", "state": label,
                          "types_now": [type(o).__name__ for o in ops], "types_before": [t.__name__ for t in types]})
            # keep going with the list as the call left it: the following states show what the caller then gets
        nrm = float(np.linalg.norm(psi) ** 2)
        for k, o in enumerate(dense_ops):
            ref = dense_bilinear(psi.conj(), o, psi)
            sc = nrm * max(np.linalg.norm(o, 2), 1e-300)
            for name, v in (("expectations", vals_fast[k]), ("expectation", vals_one[k])):
                nchecks += 1
                if not close(v, ref, sc):
                    fails.append({"check": "shared-list-" + name, "state": label, "how": how, "form": form, "op_index": k,
                                  "impl": repr(complex(v)), "dense": repr(complex(ref)), "scale": float(sc)})
    return info, fails, nchecks


# ------------------------------------------------------------------- MpDm.from_mps of genuinely complex states
# d = MpDm.from_mps(psi) copies every physical index onto the ancilla: its dense matrix is rho_d = diag(psi) (a
# purification whose physical state is the dephased diag(|psi(s)|^2)).  Every observable of d is compared with the
# general density-operator formula evaluated on that dense rho_d (built from the hand-contracted psi, not from d), and,
# for DIAGONAL observables (occupations, diagonal of the RDMs), with the same observable of the Mps itself.
def run_frommps_case(seed, idx):
    rng = random.Random("c07-fm-%d-%d" % (seed, idx))
    nprng = np.random.default_rng([seed, idx, 17])
    fails = []
    model, kind = make_model(rng)
    qn = legal_qn(model, kind, rng)
    flavour = rng.choice(["phases", "random-complex", "evolved"])
    psi_mps, gauge = rand_mps(rng, nprng, model, kind, qn, flavour == "random-complex")
    if flavour == "phases":
        psi_mps = psi_mps.to_complex()
        for i in range(len(psi_mps)):
            a = np.asarray(psi_mps[i].array)
            psi_mps[i] = a * np.exp(1j * nprng.uniform(0, 2 * np.pi, size=a.shape))
    elif flavour == "evolved":
        # exp(-i t sum_k c_k n_k): a diagonal propagator applied site by site (exact, keeps the bond structure)
        psi_mps = psi_mps.to_complex()
        t = rng.uniform(0.3, 2.0)
        for i in range(len(psi_mps)):
            a = np.asarray(psi_mps[i].array)
            ph = np.exp(-1j * t * (0.7 + i) * np.arange(a.shape[1]))
            psi_mps[i] = a * ph[None, :, None]
    if rng.random() < 0.3:
        psi_mps.coeff = psi_mps.coeff * (0.6 + 0.3j)
    info = {"kind": "from_mps", "model": kind, "n": model.nsite, "flavour": flavour, "gauge": gauge}
    nchecks = 0
    try:
        d = MpDm.from_mps(psi_mps)
    except Exception as e:
        fails.append({"check": "from_mps-raised", "error": repr(e)})
        return info, fails, 1
    psi = _hand_dense(psi_mps)
    dims = [int(x) for x in psi_mps.pbond_list]
    nrm2 = float(np.linalg.norm(psi) ** 2)
    info["imag_weight"] = float(np.linalg.norm(psi.imag) / max(np.linalg.norm(psi), 1e-300))

    def bad(name, **kw):
        kw["check"] = "from_mps-" + name
        fails.append(kw)
    # the dense matrix is the diagonal embedding of psi
    rho = dense_state(d)
    rho_ref = np.diag(psi)
    nchecks += 1
    if np.abs(rho - np.diag(psi)).max() > TOL * max(np.abs(psi).max(), 1e-300):
        bad("todense", err=float(np.abs(rho - np.diag(psi)).max()), dtype=str(np.asarray(d[0].array).dtype))
    nchecks += 1
    if abs(d.norm - psi_mps.norm) > TOL * max(psi_mps.norm, 1e-300):
        bad("norm", mpdm=float(d.norm), mps=float(psi_mps.norm))
    style, ops = op_list(rng, model, rng.random() < 0.4)
    try:
        mpos = [Mpo(model, o) for o in ops][:6]
    except Exception:
        mpos = []
    try:
        if mpos:
            vd = np.asarray(d.expectations(mpos))
            vm = np.asarray(psi_mps.expectations(mpos))
            for k, m in enumerate(mpos):
                o = np.asarray(m.todense())
                ref_d = dense_bilinear(rho_ref.conj(), o, rho_ref)
                ref_m = psi.conj() @ (o @ psi)
                sc = nrm2 * max(np.linalg.norm(o, 2), 1e-300)
                for name, v, ref in (("expectations", vd[k], ref_d), ("expectation", d.expectation(m), ref_d), ("mps-expectations", vm[k], ref_m)):
                    nchecks += 1
                    if not close(v, ref, sc):
                        bad(name, op_index=k, impl=repr(complex(v)), dense=repr(complex(ref)), scale=float(sc))
        if model.n_edofs > 0:
            oc, om = np.asarray(d.e_occupations), np.asarray(psi_mps.e_occupations)
            for j, dof in enumerate(model.e_dofs):
                o = np.asarray(Mpo(model, Op(r"a^\dagger a", dof)).todense())
                ref = psi.conj() @ (o @ psi)
                nchecks += 1
                if not close(oc[j], ref, nrm2) or not close(om[j], ref, nrm2):
                    bad("e_occupations", dof=repr(dof), mpdm=repr(complex(oc[j])), mps=repr(complex(om[j])), dense=repr(complex(ref)))
        if len(model.v_dofs) > 0:
            oc, om = np.asarray(d.ph_occupations), np.asarray(psi_mps.ph_occupations)
            for j, dof in enumerate(model.v_dofs):
                o = np.asarray(Mpo(model, Op(r"b^\dagger b", dof)).todense())
                ref = psi.conj() @ (o @ psi)
                nchecks += 1
                if not close(oc[j], ref, nrm2 * max(dims)) or not close(om[j], ref, nrm2 * max(dims)):
                    bad("ph_occupations", dof=repr(dof), mpdm=repr(complex(oc[j])), mps=repr(complex(om[j])), dense=repr(complex(ref)))
        r1d, r1m = d.calc_1site_rdm(), psi_mps.calc_1site_rdm()
        for i in range(len(dims)):
            ref = ptrace(rho_ref, dims, [i])
            ref_m = ptrace(psi, dims, [i])
            nchecks += 1
            if np.abs(r1d[i] - ref).max() > TOL * nrm2 or np.abs(r1m[i] - ref_m).max() > TOL * nrm2 \
                    or np.abs(np.diag(r1d[i]) - np.diag(r1m[i])).max() > TOL * nrm2:
                bad("calc_1site_rdm", site=i, err_mpdm=float(np.abs(r1d[i] - ref).max()), err_mps=float(np.abs(r1m[i] - ref_m).max()),
                    diag_mpdm_vs_mps=float(np.abs(np.diag(r1d[i]) - np.diag(r1m[i])).max()))
        if len(dims) > 1:
            r2d = d.calc_2site_rdm()
            for i in range(len(dims)):
                for j in range(i + 1, len(dims)):
                    ref = ptrace(rho_ref, dims, [i, j])
                    nchecks += 1
                    if np.abs(r2d[(i, j)] - ref).max() > TOL * nrm2:
                        bad("calc_2site_rdm", pair=[i, j], err=float(np.abs(r2d[(i, j)] - ref).max()))
    except Exception as e:
        import traceback
        bad("raised", error=repr(e), tb=traceback.format_exc()[-600:])
    return info, fails, nchecks


def replay(seed, idx):
    info, fails, n = run_case(seed, idx)
    info2, fails2, n2 = run_smallimag_case(seed, idx)
    info3, fails3, n3 = run_shared_list_case(seed, idx)
    info4, fails4, n4 = run_frommps_case(seed, idx)
    print(json.dumps(info))
    print(json.dumps(info2))
    print(json.dumps(info3))
    print(json.dumps(info4))
    fails = fails + fails2 + fails3 + fails4
    for f in fails[:5]:
        print("FAIL", json.dumps(f, default=str))
    return 1 if fails else 0


def main():
    pl = json.loads(sys.stdin.read() or "{}")
    seed, start, count = int(pl.get("seed", 0)), int(pl.get("start", 0)), int(pl.get("count", 10))
    out = {"n": 0, "checks": 0, "failures": [], "hist": {}, "nontrivial": 0, "skipped": 0, "samples": []}
    for idx in range(start, start + count):
        try:
            info, fails, n = run_case(seed, idx)
            info2, fails2, n2 = run_smallimag_case(seed, idx)
            for f in fails2:
                f["info"] = info2
            info3, fails3, n3 = run_shared_list_case(seed, idx)
            for f in fails3:
                f["info"] = info3
            n += n3
            for k_ in info3.get("sequence", [])[1:]:
                out["hist"]["sl=%s" % k_] = out["hist"].get("sl=%s" % k_, 0) + 1
            info4, fails4, n4 = run_frommps_case(seed, idx)
            for f in fails4:
                f["info"] = info4
            n += n4
            out["hist"]["fm=%s" % info4["flavour"]] = out["hist"].get("fm=%s" % info4["flavour"], 0) + 1
            fails = fails + fails2 + fails3 + fails4
            n += n2
            out["hist"]["si=%s" % info2["variant"]] = out["hist"].get("si=%s" % info2["variant"], 0) + 1
            r_ = info2.get("im_over_re")
            if r_ is not None and r_ > 0:
                dec = "si_ratio=1e%d" % int(np.floor(np.log10(r_)))
                out["hist"][dec] = out["hist"].get(dec, 0) + 1
        except Exception as e:      # generator trouble (not the code under test)
            import traceback
            out["failures"].append({"check": "oracle-crash", "idx": idx, "error": repr(e), "tb": traceback.format_exc()[-1500:]})
            continue
        out["n"] += 1
        out["checks"] += n
        if "skipped" in info:
            out["skipped"] += 1
        if info.get("nontrivial_ops", 0) > 0:
            out["nontrivial"] += 1
        for k in ("kind", "form", "style", "bra", "gauge", "n", "cplx_state", "cplx_op"):
            key = "%s=%s" % (k, info.get(k))
            out["hist"][key] = out["hist"].get(key, 0) + 1
        if len(out["samples"]) < 2:
            out["samples"].append(info)
        for f in fails:
            f["idx"] = idx
            f.setdefault("info", info)
            out["failures"].append(f)
    # keep the line well below a pipe buffer (the caller reads the pipe only after exit)
    out["n_failures"] = len(out["failures"])
    keep = []
    seen = {}
    for f in out["failures"]:
        k = f.get("check")
        seen[k] = seen.get(k, 0) + 1
        if seen[k] <= 3 and len(keep) < 24:
            f = dict(f)
            if "tb" in f:
                f["tb"] = f["tb"][-500:]
            keep.append(f)
    out["failures"] = keep
    out["failure_classes"] = seen
    print("RESULT " + json.dumps(out, default=str))


if __name__ == "__main__":
    main()
