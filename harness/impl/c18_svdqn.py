"""C18 implementation runner for svd_qn / eigh_qn (runs under /venv/bin/python against the repo on PYTHONPATH).

stdin : {"seed": int, "cases": [case, ...]}
  svd  case: {"id","kind":"svd","qnl":[[..]..],"qnr":[[..]..],"qntot":[..],"shape_l":[..],"shape_r":[..],
              "QR":bool,"system":"L"|"R"|None,"full":bool,"opt":bool,"complex":bool,"data":"rand"|"lowrank"|"ties"|"zero"}
  eigh case: {"id","kind":"eigh","qnl","qnr","qntot","system","complex","junk":bool}
stdout: RESULT {"results":[{id, ok, error, struct:[ints], order:[[..]], perm:[..], oracle:[failures], lapack:int}, ...]}

What is logged (witnesses): svd_qn.blockappend calls (block key, dim, gather indices, factor shape), np.argsort results
inside svd_qn (the economic-mode sort), every scipy.linalg.{svd,qr,rq,eigh} call (its contract is checked on the spot).
The numerical contract of the *result* is checked here by an independent NumPy oracle.
"""
import json
import sys
import types

import renormalizer  # noqa: F401  (must be imported before numpy)
import numpy
import scipy.linalg
from renormalizer.mps import svd_qn as M

TOL = 1e-10
LOG = {"append": [], "argsort": [], "lapack": 0, "lapack_bad": []}
REAL = {k: getattr(scipy.linalg, k) for k in ("svd", "qr", "rq", "eigh")}


def _chk(name, cond, info):
    LOG["lapack"] += 1
    if not cond:
        LOG["lapack_bad"].append({"kernel": name, "info": info})


FAULT = {"on": False, "hits": 0}


def w_svd(a, *args, **kw):
    if FAULT["on"] and kw.get("lapack_driver") == "gesdd":
        # injected fault: gesdd did not converge -> optimized_svd retries with gesvd
        FAULT["hits"] += 1
        raise scipy.linalg.LinAlgError("injected: SVD did not converge")
    r = REAL["svd"](a, *args, **kw)
    U, S, Vt = r
    k = len(S)
    sc = float(numpy.abs(a).max()) if a.size else 0.0          # purely relative: no absolute floor
    _chk("svd", numpy.allclose((U[:, :k] * S) @ Vt[:k], a, atol=TOL * sc, rtol=0)
         and numpy.allclose(U.conj().T @ U, numpy.eye(U.shape[1]), atol=TOL)
         and numpy.allclose(Vt @ Vt.conj().T, numpy.eye(Vt.shape[0]), atol=TOL)
         and numpy.all(S[:-1] >= S[1:]) and numpy.all(S >= 0), {"shape": list(a.shape)})
    return r


def w_qr(a, *args, **kw):
    r = REAL["qr"](a, *args, **kw)
    Q, Rm = r[0], r[1]
    sc = float(numpy.abs(a).max()) if a.size else 0.0          # purely relative: no absolute floor
    _chk("qr", numpy.allclose(Q @ Rm, a, atol=TOL * sc, rtol=0) and numpy.allclose(Q.conj().T @ Q, numpy.eye(Q.shape[1]), atol=TOL),
         {"shape": list(a.shape)})
    return r


def w_rq(a, *args, **kw):
    r = REAL["rq"](a, *args, **kw)
    Rm, Q = r[0], r[1]
    sc = float(numpy.abs(a).max()) if a.size else 0.0          # purely relative: no absolute floor
    _chk("rq", numpy.allclose(Rm @ Q, a, atol=TOL * sc, rtol=0) and numpy.allclose(Q @ Q.conj().T, numpy.eye(Q.shape[0]), atol=TOL),
         {"shape": list(a.shape)})
    return r


def w_eigh(a, *args, **kw):
    r = REAL["eigh"](a, *args, **kw)
    w, U = r
    sc = float(numpy.abs(a).max()) if a.size else 0.0          # purely relative: no absolute floor
    _chk("eigh", numpy.allclose((U * w) @ U.conj().T, a, atol=TOL * sc, rtol=0) and numpy.allclose(U.conj().T @ U, numpy.eye(U.shape[1]), atol=TOL),
         {"shape": list(a.shape)})
    return r


class SciProxy(types.ModuleType):
    """stands in for `scipy.linalg` inside svd_qn only"""
    def __getattr__(self, name):
        return getattr(scipy.linalg, name)


class NpProxy(types.ModuleType):
    """stands in for `np` inside svd_qn only; logs argsort"""
    def __getattr__(self, name):
        return getattr(numpy, name)

    def argsort(self, a, *args, **kw):
        r = numpy.argsort(a, *args, **kw)
        LOG["argsort"].append([int(x) for x in r])
        return r


def install():
    lin = SciProxy("scipy.linalg.proxy")
    lin.svd, lin.qr, lin.rq, lin.eigh = w_svd, w_qr, w_rq, w_eigh
    lin.LinAlgError = scipy.linalg.LinAlgError
    sci = types.SimpleNamespace(linalg=lin)
    M.scipy = sci
    M.np = NpProxy("numpy.proxy")
    real_append = M.blockappend

    def blockappend(block_v_list, block_v_list0, qn_list, qn_list0, sv_list0, v, n, dim, indice, shape, full_matrices=True):
        LOG["append"].append({"key": [int(x) for x in numpy.asarray(n).ravel()], "dim": int(dim),
                              "idx": [int(x) for x in numpy.asarray(indice).ravel()], "ncols": int(v.shape[1]),
                              "nrows": int(v.shape[0]), "shape": int(shape), "full": bool(full_matrices)})
        return real_append(block_v_list, block_v_list0, qn_list, qn_list0, sv_list0, v, n, dim, indice, shape, full_matrices=full_matrices)
    M.blockappend = blockappend


def zl(l):
    return [len(l)] + [int(x) for x in l]


def make_matrix(rng, case, m, n, mask):
    cplx = case.get("complex")
    def rnd(*shape):
        x = rng.standard_normal(shape)
        if cplx:
            x = x + 1j * rng.standard_normal(shape)
        return x
    kind = case.get("data", "rand")
    if kind == "zero":
        a = numpy.zeros((m, n), dtype=complex if cplx else float)
    elif kind == "lowrank":
        a = rnd(m, 1) @ rnd(1, n)
    elif kind == "ties":
        a = numpy.sign(rng.standard_normal((m, n)))          # many equal singular values across blocks
        if cplx:
            a = a.astype(complex)
    elif kind == "masked":
        a = rnd(m, n) * mask                                 # forbidden entries exactly zero, as in real use
    else:
        a = rnd(m, n)                                        # forbidden entries non-zero: masking is observable
    return a


def run_svd(case, seed):
    rng = numpy.random.default_rng([seed, case["id"]])
    numpy.random.seed((seed * 7919 + case["id"]) % (2 ** 31))       # add_orthonormal_basis uses np.random.rand
    qnl = numpy.array(case["qnl"], dtype=int).reshape(len(case["qnl"]), -1)
    qnr = numpy.array(case["qnr"], dtype=int).reshape(len(case["qnr"]), -1)
    qntot = numpy.array(case["qntot"], dtype=int)
    m, n = len(qnl), len(qnr)
    res = {"id": case["id"], "ok": False, "error": None, "struct": None, "order": [], "perm": [], "oracle": []}
    qs = len(case["qntot"])
    mask = None
    if qnl.shape[1] == qs and qnr.shape[1] == qs:
        mask = numpy.all(qnl[:, None, :] + qnr[None, :, :] == qntot, axis=-1)
    a0 = make_matrix(rng, case, m, n, mask if mask is not None else numpy.ones((m, n)))
    # NORM stream: the same matrix at another overall scale c (complex phase for complex data)
    cfac = float(case.get("scale", 1.0))
    if case.get("complex") and case.get("scale", 1.0) != 1.0:
        cfac = cfac * numpy.exp(1j * float(case.get("theta", 0.0)))
    a = a0 * cfac if case.get("scale", 1.0) != 1.0 else a0
    LOG["append"].clear(); LOG["argsort"].clear()
    try:
        big_l = qnl.reshape(list(case["shape_l"]) + [qs])
        big_r = qnr.reshape(list(case["shape_r"]) + [qs])
        arr = a.copy().reshape(list(case["shape_l"]) + list(case["shape_r"]))
        keep = [x.copy() for x in (big_l, big_r, qntot)]
        out = M.svd_qn(arr, big_l, big_r, qntot, QR=case["QR"], system=case["system"],
                       full_matrices=case["full"], opt_full_matrices=case["opt"])
    except Exception as e:                                       # noqa
        res["error"] = type(e).__name__ + ": " + str(e)[:100]
        return res
    if arr.tobytes() != a.tobytes() or arr.dtype != a.dtype:
        res["oracle"].append("input array modified")
    if any(x.tobytes() != k.tobytes() or x.dtype != k.dtype or x.shape != k.shape for x, k in zip((big_l, big_r, qntot), keep)):
        res["oracle"].append("label arrays (qnbigl / qnbigr / qntot) modified")
    ap = list(LOG["append"])
    if len(ap) % 2:
        res["error"] = "odd number of blockappend calls"
        return res
    blocks = []
    for i in range(0, len(ap), 2):
        bu, bv = ap[i], ap[i + 1]
        blocks.append({"key": bu["key"], "ls": bu["idx"], "rs": bv["idx"], "dim": bu["dim"], "ku": bu["ncols"], "kv": bv["ncols"],
                       "ok": bu["dim"] == bv["dim"] and bu["shape"] == m and bv["shape"] == n and bu["nrows"] == len(bu["idx"]) and bv["nrows"] == len(bv["idx"])})
    res["order"] = [b["key"] for b in blocks]
    if not all(b["ok"] for b in blocks):
        res["oracle"].append("blockappend arguments inconsistent")
    perm = []
    if not case["QR"] and not case["full"]:
        if len(LOG["argsort"]) != 1:
            res["oracle"].append("expected exactly one argsort call, saw %d" % len(LOG["argsort"]))
        else:
            perm = LOG["argsort"][0][::-1]
    res["perm"] = perm
    if case["QR"]:
        u, ql, v, qr_ = out
        su = sv = None
    else:
        u, su, ql, v, sv, qr_ = out
    ql = [[int(x) for x in numpy.asarray(t).ravel()] for t in ql]
    qr_ = [[int(x) for x in numpy.asarray(t).ravel()] for t in qr_]
    kmain = sum(b["dim"] for b in blocks)
    ku, kv = u.shape[1], v.shape[1]
    st = [len(blocks)]
    for b in blocks:
        st += b["key"] + zl(b["ls"]) + zl(b["rs"]) + [b["dim"], b["ku"], b["kv"]]
    st += [kmain, ku, kv] + [x for t in ql for x in t] + [x for t in qr_ for x in t]
    res["struct"] = st
    # ---------------------------------------------------------------- NumPy oracle on the result
    bad = res["oracle"]
    sc = float(numpy.abs(a).max())                      # purely relative: no absolute floor (zero input: exact)
    ma = numpy.where(mask, a, 0)
    if u.shape[0] != m or v.shape[0] != n or len(ql) != ku or len(qr_) != kv:
        bad.append("shapes")
        return res
    if case["QR"]:
        if ku != kv or not numpy.allclose(u @ v.T, ma, atol=TOL * sc, rtol=0):
            bad.append("U V^T != mask o A")
        q = u if case["system"] == "L" else v
        if not numpy.allclose(q.conj().T @ q, numpy.eye(q.shape[1]), atol=TOL):
            bad.append("system-side factor not orthonormal")
        paired = ku
    else:
        if len(su) != ku or len(sv) != kv:
            bad.append("singular value lengths")
            return res
        if not numpy.allclose((u[:, :kmain] * su[:kmain]) @ v[:, :kmain].T, ma, atol=TOL * sc, rtol=0):
            bad.append("U S V^T != mask o A")
        if not numpy.allclose(u.conj().T @ u, numpy.eye(ku), atol=TOL):
            bad.append("U columns not orthonormal")
        if not numpy.allclose(v.conj().T @ v, numpy.eye(kv), atol=TOL):
            bad.append("V columns not orthonormal")
        if numpy.any(su[kmain:] != 0) or numpy.any(sv[kmain:] != 0) or not numpy.array_equal(su[:kmain], sv[:kmain]) or numpy.any(su < 0):
            bad.append("singular value layout")
        # singular values = those of the masked matrix (independent LAPACK call on the whole matrix)
        ref = numpy.linalg.svd(ma, compute_uv=False)
        mine = numpy.sort(su[:kmain])[::-1]
        k = min(len(ref), len(mine))
        if not numpy.allclose(ref[:k], mine[:k], atol=1e-9 * sc, rtol=0) or numpy.any(ref[k:] > 1e-9 * sc) or numpy.any(mine[k:] > 1e-9 * sc):
            bad.append("singular values differ from those of the masked matrix")
        if not case["full"]:
            if not (ku == kv == kmain):
                bad.append("economic mode has extra columns")
            if numpy.any(su[:-1] < su[1:]):
                bad.append("economic output not sorted")
        paired = kmain
    for k in range(paired):
        if not numpy.array_equal(numpy.array(ql[k]) + numpy.array(qr_[k]), qntot):
            bad.append("labels of paired column %d do not sum to qntot" % k)
            break
    for k in range(ku):
        rows = numpy.abs(u[:, k]) > 1e-12
        if numpy.any(numpy.any(qnl[rows] != numpy.array(ql[k]), axis=-1)):
            bad.append("U column %d lives on rows with another label" % k)
            break
    for k in range(kv):
        rows = numpy.abs(v[:, k]) > 1e-12
        if numpy.any(numpy.any(qnr[rows] != numpy.array(qr_[k]), axis=-1)):
            bad.append("V column %d lives on rows with another label" % k)
            break
    if case.get("scale", 1.0) != 1.0 and not case["QR"]:
        # homogeneity: singular values of c*A are |c| times those of A (purely relative, 1e-10)
        try:
            base = M.svd_qn(a0.copy().reshape(list(case["shape_l"]) + list(case["shape_r"])), big_l, big_r, qntot, QR=False, system=case["system"],
                            full_matrices=case["full"], opt_full_matrices=case["opt"])
            s0 = numpy.sort(numpy.asarray(base[1]))[::-1]
            s1 = numpy.sort(numpy.asarray(su))[::-1] / abs(cfac)
            top = float(s0.max()) if len(s0) else 0.0
            if len(s0) != len(s1) or (top > 0 and float(numpy.abs(s0 - s1).max()) > 1e-10 * top) or (top == 0 and numpy.any(s1 != 0)):
                bad.append("singular values not homogeneous: svd_qn(c*A) != |c| svd_qn(A) for c = %r (max deviation %.3g relative)" % (cfac, float(numpy.abs(s0 - s1).max()) / top if top else -1))
        except Exception as e:                                   # noqa
            bad.append("base run for the homogeneity test raised %s" % type(e).__name__)
    res["ok"] = not bad
    return res


def eigh_reference(dm, qn, comp, qntot):
    """brute force, element by element: entry (i, j) of dm survives iff qn[i] == qn[j] and some complementary label
    equals qntot - qn[i]; then the negative eigenvalues of the surviving Hermitian matrix are removed."""
    N = len(qn)
    md = numpy.zeros_like(dm)
    present = []
    for i in range(N):
        present.append(any(all(int(c[t]) == int(qntot[t]) - int(qn[i][t]) for t in range(len(qntot))) for c in comp))
    for i in range(N):
        for j in range(N):
            if present[i] and all(int(qn[i][t]) == int(qn[j][t]) for t in range(len(qntot))):
                md[i, j] = dm[i, j]
    w, x = numpy.linalg.eigh((md + md.conj().T) / 2)
    psd = (x * numpy.where(w > 0, w, 0)) @ x.conj().T
    return md, psd, present


def run_eigh(case, seed):
    rng = numpy.random.default_rng([seed, case["id"]])
    qnl = numpy.array(case["qnl"], dtype=int).reshape(len(case["qnl"]), -1)
    qnr = numpy.array(case["qnr"], dtype=int).reshape(len(case["qnr"]), -1)
    qntot = numpy.array(case["qntot"], dtype=int)
    res = {"id": case["id"], "ok": False, "error": None, "struct": None, "order": [], "perm": [], "oracle": []}
    m, n = len(qnl), len(qnr)
    cplx = bool(case.get("complex"))
    def rnd(*shape):
        x = rng.standard_normal(shape)
        return x + 1j * rng.standard_normal(shape) if cplx else x
    if case["system"] == "L":
        qn, comp, N = qnl, qnr, m
    else:
        qn, comp, N = qnr, qnl, n
    kind = case.get("dm", "state")
    if kind == "state":
        # reduced density matrix of a symmetry-adapted state: zero outside the allowed sectors
        mask = numpy.all(qnl[:, None, :] + qnr[None, :, :] == qntot, axis=-1)
        c = rnd(m, n) * mask
        dm = c @ c.conj().T if case["system"] == "L" else c.T @ c.conj()
    elif kind == "generic":
        # generic positive Hermitian matrix: weight in EVERY sector, also one-sided ones and between sectors
        g = rnd(N, N)
        dm = g @ g.conj().T + numpy.eye(N)
    else:
        # "indefinite": Hermitian, not positive: exercises the clipping of negative eigenvalues
        g = rnd(N, N)
        dm = (g + g.conj().T) / 2
    if case.get("junk") and kind == "state":
        j = rnd(N, N)
        j = (j + j.conj().T) / 2
        same = numpy.all(qn[:, None, :] == qn[None, :, :], axis=-1)
        pres = numpy.array([numpy.any(numpy.all(comp == qntot - q, axis=-1)) for q in qn])
        dm = dm + j * ~(same & pres[:, None])
    dm0 = dm
    cscale = float(case.get("scale", 1.0))
    if cscale != 1.0:
        dm = dm * cscale                                         # NORM stream (a density matrix scales by a positive number)
    LOG["append"].clear()
    try:
        dm_in = dm.copy()
        keep = [x.copy() for x in (qnl, qnr, qntot)]
        u, s, new_qn = M.eigh_qn(dm_in, qnl, qnr, qntot, case["system"])
    except Exception as e:                                       # noqa
        res["error"] = type(e).__name__ + ": " + str(e)[:100]
        return res
    if dm_in.tobytes() != dm.tobytes() or dm_in.dtype != dm.dtype:
        res["oracle"].append("input density matrix modified")
    if any(x.tobytes() != k.tobytes() or x.dtype != k.dtype or x.shape != k.shape for x, k in zip((qnl, qnr, qntot), keep)):
        res["oracle"].append("label arrays (qnbigl / qnbigr / qntot) modified")
    ap = list(LOG["append"])
    res["order"] = [b["key"] for b in ap]
    new_qn = [[int(x) for x in numpy.asarray(t).ravel()] for t in new_qn]
    st = [len(ap)]
    for b in ap:
        st += b["key"] + zl(b["idx"])
    st += [u.shape[1]] + [x for t in new_qn for x in t]
    res["struct"] = st
    bad = res["oracle"]
    md, psd, present = eigh_reference(dm, qn, comp, qntot)
    sc = float(numpy.abs(dm).max())                     # purely relative: no absolute floor
    if u.shape != (N, len(s)) or len(new_qn) != len(s):
        bad.append("shapes")
        return res
    if numpy.any(numpy.iscomplex(s)) or numpy.any(numpy.asarray(s).real < 0) or not numpy.all(numpy.isfinite(s)):
        bad.append("returned values not real non-negative")
    rec = (u * numpy.asarray(s) ** 2) @ u.conj().T
    if not numpy.allclose(rec, psd, atol=1e-9 * sc, rtol=0):
        bad.append("U s^2 U^dagger != element-wise projection of dm (negative eigenvalues removed); max deviation %.3g" % float(numpy.abs(rec - psd).max()))
    if kind != "indefinite" and not numpy.allclose(rec, md, atol=1e-9 * sc, rtol=0):
        bad.append("U s^2 U^dagger != element-wise projection of the positive dm")
    if not numpy.allclose(u.conj().T @ u, numpy.eye(len(s)), atol=TOL):
        bad.append("U columns not orthonormal")
    for k in range(len(s)):
        rows = numpy.abs(u[:, k]) > 1e-12
        if numpy.any(numpy.any(qn[rows] != numpy.array(new_qn[k]), axis=-1)):
            bad.append("U column %d lives on rows with another label" % k)
            break
    for k in range(len(s)):
        partner = qntot - numpy.array(new_qn[k])
        if not numpy.any(numpy.all(comp == partner, axis=-1)):
            bad.append("column %d carries label %s which has no partner %s on the complementary side" % (k, new_qn[k], partner.tolist()))
            break
    if cscale != 1.0:
        # homogeneity of degree 1/2: s(c*dm) = sqrt(c) s(dm)
        try:
            _, sb, _ = M.eigh_qn(dm0.copy(), qnl, qnr, qntot, case["system"])
            s0 = numpy.sort(numpy.asarray(sb).real)[::-1]
            s1 = numpy.sort(numpy.asarray(s).real)[::-1] / numpy.sqrt(cscale)
            top = float(s0.max()) if len(s0) else 0.0
            if len(s0) != len(s1) or (top > 0 and float(numpy.abs(s0 - s1).max()) > 1e-6 * top):   # sqrt of round-off-level eigenvalues is ~1e-8 relative
                bad.append("eigh_qn values not homogeneous: s(c*dm) != sqrt(c) s(dm) for c = %g (max deviation %.3g relative)" % (cscale, float(numpy.abs(s0 - s1).max()) / top if top else -1))
        except Exception as e:                                   # noqa
            bad.append("base run for the homogeneity test raised %s" % type(e).__name__)
    res["ok"] = not bad
    return res


def emit(payload, obj):
    """large results go through a file (the parent reads the pipe only after exit: a full pipe would block)"""
    if payload.get("out"):
        with open(payload["out"], "w") as f:
            json.dump(obj, f)
        print("RESULT " + json.dumps({"file": payload["out"]}))
    else:
        print("RESULT " + json.dumps(obj))


def main():
    payload = json.loads(sys.stdin.read())
    install()
    out = []
    for case in payload["cases"]:
        nbad = len(LOG["lapack_bad"])
        FAULT["on"] = bool(case.get("fault")); h0 = FAULT["hits"]
        try:
            r = run_svd(case, payload["seed"]) if case["kind"] == "svd" else run_eigh(case, payload["seed"])
        finally:
            FAULT["on"] = False
        r["fault_hits"] = FAULT["hits"] - h0
        if len(LOG["lapack_bad"]) > nbad:
            r["oracle"].append("LAPACK contract failed: %s" % LOG["lapack_bad"][nbad])
            r["ok"] = False
        out.append(r)
    emit(payload, {"results": out, "lapack_calls": LOG["lapack"]})


main()
