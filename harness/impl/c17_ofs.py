"""C17: on-the-fly swapping through the public paths (Mps.evolve with TDVP-PS2, optimize_mps) on tiny ab-initio models.
stdin: {"cases": [{"mode": "tdvp"|"dmrg", "nsp","seed","kind","spelled","swap_jw","ofs","M","nelec","steps","dt","rseed"}]}"""
import json
import os
import sys
import tempfile
import traceback
import warnings

import numpy as np
import scipy.linalg

import c17_lib as L
from renormalizer.model import h_qc, Model
from renormalizer.mps import Mps, Mpo
from renormalizer.mps.gs import optimize_mps
from renormalizer.utils import CompressConfig, CompressCriteria, OFS, EvolveConfig, EvolveMethod

OFSMAP = {o.value: o for o in OFS}
warnings.filterwarnings("ignore")



def L_emit(obj):
    """large results go through a file: the harness reads a pipe only after the process has exited"""
    fd, path = tempfile.mkstemp(prefix="verif_c17_", suffix=".json", dir="/tmp")
    with os.fdopen(fd, "w") as f:
        json.dump(obj, f)
    print("RESULT " + json.dumps({"file": path}))


def sector_mask(n, nelec):
    d = 2 ** n
    m = np.zeros(d, bool)
    for idx in range(d):
        bits = [(idx >> (n - 1 - k)) & 1 for k in range(n)]
        m[idx] = sum(bits[0::2]) == nelec[0] and sum(bits[1::2]) == nelec[1]
    return m


def back_to_original_order(mps, n):
    order = [b.dof for b in mps.model.basis]
    v = np.asarray(mps.todense()).reshape((2,) * n)
    return np.transpose(v, np.argsort(order)).ravel(), order


def one(case):
    nsp = case["nsp"]
    n = 2 * nsp
    h, eri = L.make_integrals(nsp, case["seed"], case["kind"])
    sh, aseri = h_qc.int_to_h(h, eri)
    out = {"case": case}
    if not np.any(sh) and not np.any(aseri):
        out["empty"] = True
        return out
    basis, terms = h_qc.qc_model(sh, aseri)
    if case["spelled"] == "sigma":
        terms = L.rename_terms(terms)
    model = Model(basis, terms)
    mpo = Mpo(model)
    H = mpo.todense()
    scale = max(1.0, float(np.abs(H).max()))
    ofs = OFSMAP[case["ofs"]] if case["ofs"] else None
    M = case["M"]
    np.random.seed(case["rseed"])
    mps = Mps.random(model, case["nelec"], 16, percent=1.0)
    cc = lambda: CompressConfig(CompressCriteria.fixed, max_bonddim=M, ofs=ofs, ofs_swap_jw=case["swap_jw"])
    try:
        if case["mode"] == "tdvp":
            mps.compress_config = CompressConfig(CompressCriteria.fixed, max_bonddim=16)
            mps.canonicalise().compress()
            mps.compress_config = cc()
            mps.evolve_config = EvolveConfig(EvolveMethod.tdvp_ps2)
            psi0 = np.asarray(mps.todense()).ravel().astype(complex)
            out["e0"] = float(np.real(mps.expectation(mpo)))
            t = 0.0
            for _ in range(case["steps"]):
                mps = mps.evolve(mpo, case["dt"])
                t += case["dt"]
            out["e1"] = float(np.real(mps.expectation(mpo)))
            exact = scipy.linalg.expm(-1j * H * t) @ psi0
            v, order = back_to_original_order(mps, n)
            out["order"] = order
            out["overlap"] = float(abs(np.vdot(exact, v)))
            out["absdev"] = float(np.abs(np.abs(v) - np.abs(exact)).max())
            out["norm"] = float(np.linalg.norm(v))
            out["spec"] = float(np.abs(np.linalg.eigvalsh(mpo.todense()) - np.linalg.eigvalsh(H)).max() / scale)
        else:
            msk = sector_mask(n, case["nelec"])
            w = np.linalg.eigvalsh(H[np.ix_(msk, msk)])
            out["exact"] = float(w[0])
            mps.optimize_config.procedure = [[cc(), 0.4], [cc(), 0.2], [cc(), 0.1], [cc(), 0], [cc(), 0], [cc(), 0], [cc(), 0]]
            mps.optimize_config.method = "2site"
            energies, res = optimize_mps(mps.copy(), mpo)
            out["reported"] = float(min(energies))
            out["order"] = [b.dof for b in res.model.basis]
            out["rebuilt"] = float(np.real(res.expectation(Mpo(res.model))))
            out["spec"] = float(np.abs(np.linalg.eigvalsh(mpo.todense()) - np.linalg.eigvalsh(H)).max() / scale)
        out["scale"] = scale
    except AssertionError:
        tb = traceback.extract_tb(sys.exc_info()[2])[-1]
        out["raised"] = {"where": "%s:%s" % (tb.name, tb.line)}
    return out


def main():
    payload = json.load(sys.stdin)
    res = []
    for c in payload["cases"]:
        try:
            res.append(one(c))
        except Exception:
            res.append({"case": c, "error": traceback.format_exc()[-1500:]})
    L_emit({"cases": res})


main()
