"""C17: on-the-fly swapping through the public paths (Mps.evolve with TDVP-PS2, optimize_mps) on tiny ab-initio models.
stdin: {"cases": [{"mode": "tdvp"|"dmrg", "nsp","seed","kind","spelled","swap_jw","ofs","M","nelec","steps","dt","rseed"}]}"""
import json
import os
import sys
import tempfile
import traceback
import warnings

import numpy as np
import scipy.linalg

import c17_lib as L
from renormalizer.model import h_qc, Model
from renormalizer.mps import Mps, Mpo
from renormalizer.mps.gs import optimize_mps
from renormalizer.utils import CompressConfig, CompressCriteria, OFS, EvolveConfig, EvolveMethod

OFSMAP = {o.value: o for o in OFS}
warnings.filterwarnings("ignore")



def L_emit(obj):
    """large results go through a file: the harness reads a pipe only after the process has exited"""
    fd, path = tempfile.mkstemp(prefix="verif_c17_", suffix=".json", dir="/tmp")
    with os.fdopen(fd, "w") as f:
        json.dump(obj, f)
    print("RESULT " + json.dumps({"file": path}))


def sector_mask(n, nelec):
    d = 2 ** n
    m = np.zeros(d, bool)
    for idx in range(d):
        bits = [(idx >> (n - 1 - k)) & 1 for k in range(n)]
        m[idx] = sum(bits[0::2]) == nelec[0] and sum(bits[1::2]) == nelec[1]
    return m


def to_original_order(psi, order, n, fermionic):
    """psi: dense vector whose tensor factor k is spin orbital order[k] -> the same state in orbital order 0..n-1.
    With the Jordan-Wigner-corrected exchange the basis state |b_0 b_1 ..> of the new chain is
    prod_k (c+_{order[k]})^{b_k} |0>, so re-sorting the creation operators gives the parity of the inversions."""
    out = np.zeros_like(psi)
    for idx in range(2 ** n):
        bits = [(idx >> (n - 1 - k)) & 1 for k in range(n)]
        occ = [0] * n
        for k, b in enumerate(bits):
            occ[order[k]] = b
        t = 0
        for b in occ:
            t = (t << 1) | b
        sign = 1
        if fermionic:
            seq = [order[k] for k, b in enumerate(bits) if b]
            inv = sum(1 for i in range(len(seq)) for j in range(i + 1, len(seq)) if seq[i] > seq[j])
            sign = -1 if inv % 2 else 1
        out[t] = sign * psi[idx]
    return out


class SwapCounter:
    """counts the exchanges Mpo.try_swap_site actually performs (harness-side wrapper, nothing in /repo is changed)"""
    def __init__(self):
        self.n = 0
        self.orig = Mpo.try_swap_site
        counter = self

        def wrapped(self_, new_model, swap_jw, algo="Hopcroft-Karp"):
            if [b.dofs for b in self_.model.basis] != [b.dofs for b in new_model.basis]:
                counter.n += 1
            return counter.orig(self_, new_model, swap_jw, algo=algo)
        Mpo.try_swap_site = wrapped

    def close(self):
        Mpo.try_swap_site = self.orig


def attempt(case, seed, rseed):
    nsp = case["nsp"]
    n = 2 * nsp
    h, eri = L.make_integrals(nsp, seed, case["kind"])
    sh, aseri = h_qc.int_to_h(h, eri)
    out = {}
    if not np.any(sh) and not np.any(aseri):
        out["empty"] = True
        return out
    basis, terms = h_qc.qc_model(sh, aseri)
    if case["spelled"] == "sigma":
        terms = L.rename_terms(terms)
    model = Model(basis, terms)
    mpo = Mpo(model)
    H = mpo.todense()
    scale = max(1.0, float(np.abs(H).max()))
    ofs = OFSMAP[case["ofs"]] if case["ofs"] else None
    M = case["M"]
    np.random.seed(rseed)
    mps = Mps.random(model, case["nelec"], 16, percent=1.0)
    cc = lambda: CompressConfig(CompressCriteria.fixed, max_bonddim=M, ofs=ofs, ofs_swap_jw=case["swap_jw"])
    na, nb = L.number_ops(n)
    cnt = SwapCounter()
    try:
        if case["mode"] == "tdvp":
            mps.compress_config = CompressConfig(CompressCriteria.fixed, max_bonddim=16)
            mps.canonicalise().compress()
            mps.compress_config = cc()
            mps.evolve_config = EvolveConfig(EvolveMethod.tdvp_ps2)
            psi0 = np.asarray(mps.todense()).ravel().astype(complex)
            out["e0"] = float(np.real(mps.expectation(mpo)))
            t = 0.0
            for _ in range(case["steps"]):
                mps = mps.evolve(mpo, case["dt"])
                t += case["dt"]
            out["e1"] = float(np.real(mps.expectation(mpo)))
            exact = scipy.linalg.expm(-1j * H * t) @ psi0
            order = [b.dof for b in mps.model.basis]
            v = to_original_order(np.asarray(mps.todense()).ravel(), order, n, case["swap_jw"])
            out["order"] = order
            out["overlap"] = float(abs(np.vdot(exact, v)))
            out["absdev"] = float(np.abs(np.abs(v) - np.abs(exact)).max())
            out["rayleigh"] = float(np.real(np.vdot(v, H @ v)))
            out["norm"] = float(np.linalg.norm(v))
            out["order_mpo"] = [b.dof for b in mpo.model.basis]
            out["spec"] = float(np.abs(np.linalg.eigvalsh(mpo.todense()) - np.linalg.eigvalsh(H)).max() / scale)
        else:
            msk = sector_mask(n, case["nelec"])
            w = np.linalg.eigvalsh(H[np.ix_(msk, msk)])
            out["exact"] = float(w[0])
            nsweep = case.get("sweeps", 7)
            perc = [0.4, 0.2, 0.1] + [0] * 20
            mps.optimize_config.procedure = [[cc(), perc[k]] for k in range(nsweep)]
            mps.optimize_config.method = "2site"
            energies, res = optimize_mps(mps.copy(), mpo)
            out["reported"] = float(min(energies))
            order = [b.dof for b in res.model.basis]
            out["order"] = order
            out["order_mpo"] = [b.dof for b in mpo.model.basis]
            psi = np.asarray(res.todense()).ravel()
            psi = psi / np.linalg.norm(psi)
            v = to_original_order(psi, order, n, case["swap_jw"])
            out["rayleigh"] = float(v @ H @ v)
            out["n_alpha"] = float(v @ na @ v)
            out["n_beta"] = float(v @ nb @ v)
            # the documented recipe (plain exchange): an MPO rebuilt from the model of the returned state
            out["rebuilt"] = float(np.real(res.expectation(Mpo(res.model))))
            out["spec"] = float(np.abs(np.linalg.eigvalsh(mpo.todense()) - np.linalg.eigvalsh(H)).max() / scale)
        out["scale"] = scale
    except AssertionError:
        tb = traceback.extract_tb(sys.exc_info()[2])[-1]
        out["raised"] = {"where": "%s:%s" % (tb.name, tb.line)}
    finally:
        cnt.close()
    out["nswaps"] = cnt.n
    return out


def one(case):
    """retries with other seeds when the run dies of the registered swap_site assertion (known finding); skips are counted"""
    skips = 0
    out = None
    for k in range(case.get("retries", 0) + 1):
        out = attempt(case, case["seed"] + 7919 * k, case["rseed"] + k)
        out["used_seed"], out["used_rseed"] = case["seed"] + 7919 * k, case["rseed"] + k
        if "raised" in out and "auxiliary_dummy_primary_ops" in out["raised"]["where"]:
            skips += 1
            continue
        break
    out["case"] = case
    out["skips"] = skips
    return out


def main():
    payload = json.load(sys.stdin)
    res = []
    for c in payload["cases"]:
        try:
            res.append(one(c))
        except Exception:
            res.append({"case": c, "error": traceback.format_exc()[-1500:]})
    L_emit({"cases": res})


main()
