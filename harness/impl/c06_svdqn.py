"""C06 kernels with MULTI-COMPONENT quantum numbers: direct contract checks of svd_qn / eigh_qn / get_qn_mask / add_outer
(2 and 3 components, labels that agree in one component but not in all), and state-averaged optimize_mps (nroots 2..3) on a
model with two conserved species: every returned state must lie in the sector, be normalised, the states must be
mutually orthogonal, and their labels go to the Coq checker.   stdin {"seed", "ncases", "out"}"""
import itertools
import json
import random
import sys
import traceback

import numpy as np

import c03_gen as G
from renormalizer import Model, Mps, Mpo, Op, BasisSimpleElectron
from renormalizer.mps import gs
from renormalizer.mps.svd_qn import svd_qn, eigh_qn, get_qn_mask, add_outer
from renormalizer.utils import OptimizeConfig

PRELUDE = r'''
import random, sys, json, numpy as np
sys.path.insert(0, "/verif/harness/impl")
import c03_gen as G, c06_svdqn as N
'''


def labels(rng, n, nc):
    # few distinct values per component: many pairs agree in one component but not in all
    return np.array([[rng.randint(0, 2) for _ in range(nc)] for _ in range(n)], dtype=int)


def eq_all(a, b):
    return all(int(x) == int(y) for x, y in zip(a, b))


def kernel_case(cs):
    """returns None if every contract holds, else a description of the first broken one"""
    rng = random.Random(cs)
    r = np.random.RandomState(cs % (2 ** 31))
    nc = rng.choice([2, 2, 3])
    nl, nr = rng.randint(2, 7), rng.randint(2, 7)
    ql, qr = labels(rng, nl, nc), labels(rng, nr, nc)
    i0, j0 = rng.randrange(nl), rng.randrange(nr)
    qtot = ql[i0] + qr[j0]
    # add_outer / get_qn_mask against explicit loops
    ao = add_outer(ql, qr)
    for i in range(nl):
        for j in range(nr):
            if not eq_all(ao[i, j], ql[i] + qr[j]):
                return "add_outer: entry (%d,%d) is %s, expected %s" % (i, j, ao[i, j].tolist(), (ql[i] + qr[j]).tolist())
    mask = get_qn_mask(ao, qtot)
    allowed = np.array([[eq_all(ql[i] + qr[j], qtot) for j in range(nr)] for i in range(nl)])
    if mask.shape != allowed.shape or np.any(mask != allowed):
        return "get_qn_mask differs from the all-components test: %s vs %s (labels %s + %s = %s)" % (mask.tolist(), allowed.tolist(), ql.tolist(), qr.tolist(), qtot.tolist())
    cplx = rng.random() < 0.3
    coef = (r.rand(nl, nr) - 0.5) + (1j * (r.rand(nl, nr) - 0.5) if cplx else 0)
    coef = coef * allowed
    if not np.any(coef):
        return None
    # ---- svd_qn, every mode
    for QR, system, full in [(False, None, False), (False, None, True), (True, "L", False), (True, "R", False)]:
        try:
            out = svd_qn(coef, ql, qr, qtot, QR=QR, system=system, full_matrices=full)
        except Exception as ex:
            return "svd_qn(QR=%r, system=%r, full_matrices=%r) raised %r" % (QR, system, full, ex)
        if QR:
            u, qnl, v, qnr = out
            rec = u @ v.T
        else:
            u, s, qnl, v, s2, qnr = out
            k = min(u.shape[1], v.shape[1])
            rec = (u[:, :len(s)] * s) @ v[:, :len(s)].T if not full else None
        tag = "svd_qn(QR=%r, system=%r, full_matrices=%r)" % (QR, system, full)
        if rec is not None and not np.allclose(rec, coef, atol=1e-10):
            return tag + ": U S V^T does not reproduce the matrix (max dev %.2e)" % np.abs(rec - coef).max()
        for name, mat, q, new, other_sign in (("U", u, ql, qnl, 1), ("V", v, qr, qnr, 1)):
            if len(new) != mat.shape[1]:
                return tag + ": %d labels for %d columns of %s" % (len(new), mat.shape[1], name)
            for j in range(mat.shape[1]):
                rows = np.nonzero(np.abs(mat[:, j]) > 1e-12)[0]
                for i in rows:
                    if not eq_all(q[i], new[j]):
                        return tag + ": column %d of %s (label %s) has weight on row %d with label %s" % (j, name, list(map(int, new[j])), i, q[i].tolist())
        if not full:
            for j in range(len(qnl)):
                if not eq_all(np.array(qnl[j]) + np.array(qnr[j]), qtot):
                    return tag + ": labels of column %d do not add up to qntot" % j
            orth = u if (not QR or system == "L") else v
            g = orth.conj().T @ orth
            if not np.allclose(g, np.eye(g.shape[0]), atol=1e-10):
                return tag + ": the isometric factor is not orthonormal (max dev %.2e)" % np.abs(g - np.eye(g.shape[0])).max()
    # ---- eigh_qn on the state-averaged reduced density matrix of several sector vectors
    nroots = rng.randint(2, 3)
    cs_ = [((r.rand(nl, nr) - 0.5) * allowed) for _ in range(nroots)]
    for system in ("L", "R"):
        dm = sum(c @ c.T for c in cs_) if system == "L" else sum(c.T @ c for c in cs_)
        try:
            u, s, new = eigh_qn(dm, ql, qr, qtot, system)
        except Exception as ex:
            return "eigh_qn(system=%r) raised %r" % (system, ex)
        q = ql if system == "L" else qr
        tag = "eigh_qn(system=%r, %d components)" % (system, nc)
        if u.shape[1] != len(new) or len(s) != len(new):
            return tag + ": %d labels / %d values for %d columns" % (len(new), len(s), u.shape[1])
        g = u.T @ u
        if not np.allclose(g, np.eye(g.shape[0]), atol=1e-10):
            return tag + ": returned basis is not orthonormal (max dev %.2e)" % np.abs(g - np.eye(g.shape[0])).max()
        for j in range(u.shape[1]):
            for i in np.nonzero(np.abs(u[:, j]) > 1e-12)[0]:
                if not eq_all(q[i], new[j]):
                    return tag + ": column %d (label %s) has weight on row %d with label %s" % (j, list(map(int, new[j])), i, q[i].tolist())
        rec = (u * s ** 2) @ u.T
        if not np.allclose(rec, dm, atol=1e-10):
            return tag + ": U S^2 U^T does not reproduce the density matrix (max dev %.2e)" % np.abs(rec - dm).max()
    return None


def sa_model(desc):
    n = desc["n"]
    basis = [BasisSimpleElectron(i, sigmaqn=[[0, 0], [1, 0]] if i % 2 == 0 else [[0, 0], [0, 1]]) for i in range(n)]
    terms = []
    for i, j, t in desc["terms"]:
        if i == j:
            terms.append(Op(r"a^\dagger a", [i, i], t, qn=[[1, 0] if i % 2 == 0 else [0, 1], [-1, 0] if i % 2 == 0 else [0, -1]]))
        elif j == -1:
            pass
        else:
            qi = [1, 0] if i % 2 == 0 else [0, 1]
            terms.append(Op(r"a^\dagger a", [i, j], t, qn=[qi, [-x for x in qi]]))
    for i, j, t in desc.get("inter", []):
        qi = [1, 0] if i % 2 == 0 else [0, 1]
        qj = [1, 0] if j % 2 == 0 else [0, 1]
        terms.append(Op(r"a^\dagger a a^\dagger a", [i, i, j, j], t, qn=[qi, [-x for x in qi], qj, [-x for x in qj]]))
    return Model(basis, terms)


def sa_run(desc):
    """state-averaged DMRG; returns (model, list of states)"""
    model = sa_model(desc)
    mpo = Mpo(model)
    np.random.seed(desc["seed"])
    mps = Mps.random(model, np.array(desc["sector"]), desc["m"], percent=1.0)
    mps.optimize_config = OptimizeConfig(procedure=[[desc["m"], 0.4], [desc["m"], 0.2], [desc["m"], 0], [desc["m"], 0]])
    mps.optimize_config.nroots = desc["nroots"]
    mps.optimize_config.method = desc["method"]
    e, states = gs.optimize_mps(mps, mpo)
    return model, states


def sa_check(model, states, sector):
    """(worst leak outside the sector, worst |norm-1|, worst |<i|j>|)"""
    sites = [{"nbas": b.nbas, "sigmaqn": np.asarray(b.sigmaqn).reshape(b.nbas, -1).tolist()} for b in model.basis]
    charges = G.config_charges(sites)
    out = np.any(charges != np.array(sector), axis=1)
    vs = [G.dense_state(s) * s.coeff for s in states]
    leak = max(float(np.linalg.norm(v[out])) for v in vs)
    nrm = max(abs(float(np.linalg.norm(v)) - 1.0) for v in vs)
    ovl = max([abs(np.vdot(vs[i], vs[j])) for i in range(len(vs)) for j in range(i)] or [0.0])
    return leak, nrm, float(ovl)


def export_state(mp, what):
    pats = []
    for mt in mp:
        a = np.abs(np.asarray(mt.array))
        pats.append((a > 1e-12 * max(a.max(), 1e-300)).tolist())
    return {"what": what, "sigma": [np.asarray(b.sigmaqn).reshape(b.nbas, -1).tolist() for b in mp.model.basis], "ncomp": int(mp.model.qn_size),
            "qn": [np.asarray(q).astype(int).reshape(len(q), -1).tolist() for q in mp.qn], "qnidx": int(mp.qnidx),
            "qntot": [int(x) for x in np.asarray(mp.qntot).reshape(-1)], "to_right": bool(mp.to_right),
            "pats": pats, "bond_dims": [int(x) for x in mp.bond_dims]}


def main():
    payload = json.loads(sys.stdin.read() or "{}")
    seed = int(payload.get("seed", 0))
    ncases = int(payload.get("ncases", 100))
    nsa = int(payload.get("nsa", 6))
    fails, stats, exports = [], {"kernel_cases": 0, "sa_cases": 0, "sa_states": 0}, []
    for k in range(ncases):
        cs = seed * 100103 + k
        try:
            msg = kernel_case(cs)
        except Exception as ex:
            msg = "checker crashed: %r %s" % (ex, traceback.format_exc()[-400:])
        stats["kernel_cases"] += 1
        if msg is not None:
            key = "kernel:" + msg.split(":")[0].split("(")[0].strip()
            if key not in [f["key"] for f in fails]:
                fails.append({"key": key, "detail": {"case": cs, "message": msg},
                              "repro": PRELUDE + "msg = N.kernel_case(%d)\nprint(msg)\nsys.exit(1 if msg is not None else 0)\n" % cs, "case_seed": cs})
    for k in range(nsa):
        cs = seed * 100109 + k
        rng = random.Random(cs)
        n = rng.choice([4, 4, 5, 6])
        terms = [[i, i, round(rng.uniform(-0.5, 0.5), 3)] for i in range(n)]
        for i in range(n):
            for j in range(i + 2, n, 2):
                t = round(rng.uniform(-0.8, 0.8), 3)
                terms += [[i, j, t], [j, i, t]]
        inter = [[i, j, round(rng.uniform(-0.6, 0.6), 3)] for i in range(n) for j in range(i + 1, n) if rng.random() < 0.5]
        na, nb = (n + 1) // 2, n // 2
        sector = [rng.randint(1, max(1, na - 1)), rng.randint(1, max(1, nb - 1)) if nb > 1 else rng.randint(0, nb)]
        desc = {"n": n, "terms": terms, "inter": inter, "sector": sector, "m": rng.randint(6, 12), "nroots": rng.choice([2, 2, 3]),
                "method": rng.choice(["2site", "2site", "1site"]), "seed": rng.randrange(2 ** 31)}
        import math
        dim = math.comb(na, sector[0]) * math.comb(nb, sector[1])
        if dim < desc["nroots"] + 1:
            continue
        lines = "desc = json.loads(%r)\nmodel, states = N.sa_run(desc)\n" % json.dumps(desc)
        try:
            model, states = sa_run(desc)
        except Exception as ex:
            stats.setdefault("sa_exceptions", {})
            kk = repr(ex)[:70]
            stats["sa_exceptions"][kk] = stats["sa_exceptions"].get(kk, 0) + 1
            if "quantum number" in repr(ex).lower() or isinstance(ex, AssertionError):
                fails.append({"key": "state-averaged:exception", "detail": {"desc": desc, "exception": repr(ex), "tb": traceback.format_exc()[-500:]},
                              "repro": PRELUDE + lines, "case_seed": cs})
            continue
        stats["sa_cases"] += 1
        stats["sa_states"] += len(states)
        leak, nrm, ovl = sa_check(model, states, sector)
        if not (leak <= 1e-8 and nrm <= 1e-8 and ovl <= 1e-6):
            key = "state-averaged:" + ("leak" if leak > 1e-8 else ("norm" if nrm > 1e-8 else "orthogonality"))
            if key not in [f["key"] for f in fails]:
                fails.append({"key": key, "detail": {"desc": desc, "leak_outside_sector": leak, "norm_deviation": nrm, "max_overlap": ovl},
                              "repro": PRELUDE + lines + "leak, nrm, ovl = N.sa_check(model, states, desc['sector'])\nprint('leak', leak, 'norm deviation', nrm, 'max overlap', ovl)\n"
                                       "sys.exit(1 if not (leak <= 1e-8 and nrm <= 1e-8 and ovl <= 1e-6) else 0)\n", "case_seed": cs})
            continue
        for i, s_ in enumerate(states):
            e = export_state(s_, "optimize_mps[nroots=%d,%s]" % (desc["nroots"], desc["method"]))
            e.update({"case": cs, "name": "states[%d]" % i, "repro_lines": PRELUDE + lines, "is_op": False})
            exports.append(e)
    res = {"exports": exports, "failures": fails, "stats": stats}
    if payload.get("out"):
        with open(payload["out"], "w") as f:
            json.dump(res, f, default=str)
        print("RESULT " + json.dumps({"file": payload["out"]}))
    else:
        print("RESULT " + json.dumps(res, default=str))


if __name__ == "__main__":
    main()
