"""C14 fault injection on the real TdMpsJob.dump_dict (run with /venv/bin/python, PYTHONPATH=/repo:/verif/pylib).

A tiny TdMpsJob subclass runs `nsteps` steps in a forked child in which os.makedirs / os.remove /
os.rename / os.replace / np.savez are wrapped (only while dump_dict is executing).  Atomic actions are
counted exactly as in Model/DumpProto.v: 1 per os call, 2 per np.savez (truncating open, completion).
The child dies with os._exit(77) when `c` actions of its j-th dump_dict call are done -- between two
calls, or INSIDE np.savez after a truncated file has been written -- or right after that call returned
when it has fewer than c actions.  The parent then inspects the directory the way a user would:
np.load + the expected keys + every array readable (`<job>.npz`, `<job>.npz.bak`, `<job>.tmp.npz`),
Mps.load for `<job>_mps.npz`.

stdin: {"mode": "explore", "dump_mps": null|"one"|"all", "levels": L, "nsteps": n, "seed": s}
   -> every history of L processes (all crash points of all steps + the uninterrupted run) is executed;
      RESULT {"cases": [{"procs": [[attempt codes]], "obs": [[cell codes]], "counts": [[actions per attempt]], "safe": bool}]}
stdin: {"mode": "replay", "dump_mps": ..., "procs": [[attempt codes] ...], "nsteps": n}
   -> that single history.
attempt code: -1 = not killed, c >= 0 = killed after c actions.   cell code: -1 absent, -2 present but
not loadable, k >= 1 = complete result of dump number k (dumps are numbered over the whole history).
"""
import io
import json
import os
import shutil
import sys
import tempfile

import renormalizer  # noqa: F401  (before numpy, so that RENO_NUM_THREADS takes effect)
import numpy as np

JOB = "job"
SUFFIXES = [".npz", ".npz.bak", ".tmp.npz", "_mps.npz"]
EXPECTED_KEYS = {"step", "times", "data"}
FRACS = [0.5, 0.0, 0.97, 0.2]

_model = None


def model():
    global _model
    if _model is None:
        from renormalizer import Model, Op, BasisHalfSpin
        _model = Model([BasisHalfSpin(i) for i in range(3)], [Op("sigma_z", 0)])
    return _model


def make_job(base, dump_dir, dump_mps, kill, report):
    """kill = (j, c, frac) or None"""
    from renormalizer import Mps
    from renormalizer.utils.tdmps import TdMpsJob
    import renormalizer.utils.tdmps as tdmps_mod

    st = {"attempt": 0, "count": 0, "inside": False, "counts": []}

    def die():
        report(st)
        os._exit(77)

    def armed():
        return st["inside"] and kill is not None and st["attempt"] == kill[0]

    def before():
        if armed() and st["count"] == kill[1]:
            die()

    real = {"makedirs": os.makedirs, "remove": os.remove, "rename": os.rename, "replace": os.replace, "savez": np.savez}

    def wrap1(name):
        f = real[name]

        def w(*a, **kw):
            if not st["inside"]:
                return f(*a, **kw)
            before()
            r = f(*a, **kw)
            st["count"] += 1
            return r
        return w

    def w_savez(file, *a, **kw):
        if not st["inside"]:
            return real["savez"](file, *a, **kw)
        before()
        if armed() and st["count"] + 1 == kill[1]:
            buf = io.BytesIO()
            real["savez"](buf, *a, **kw)
            raw = buf.getvalue()
            fn = file if str(file).endswith(".npz") else str(file) + ".npz"
            with open(fn, "wb") as fh:
                fh.write(raw[: int(len(raw) * kill[2])])
            st["count"] += 1
            die()
        r = real["savez"](file, *a, **kw)
        st["count"] += 2
        return r

    os.makedirs = wrap1("makedirs")
    os.remove = wrap1("remove")
    os.rename = wrap1("rename")
    os.replace = wrap1("replace")
    np.savez = w_savez
    for name in ("unlink", "link", "symlink", "truncate"):          # anything else the dump might start to use: refuse loudly
        def bad(*a, _n=name, **kw):
            if st["inside"]:
                raise RuntimeError("c14_fault: os.%s used inside dump_dict is not instrumented" % _n)
            return getattr(os, "_c14_" + _n)(*a, **kw)
        setattr(os, "_c14_" + name, getattr(os, name))
        setattr(os, name, bad)

    class Job(TdMpsJob):
        def init_mps(self):
            return Mps.hartree_product_state(model(), {0: [0.6, 0.8]})

        def evolve_single_step(self, dt):
            new = self.latest_mps.copy()
            new.coeff = float(base + len(self.evolve_times))
            return new

        def process_mps(self, mps):
            pass

        def get_dump_dict(self):
            return {"step": base + len(self.evolve_times) - 1, "times": self.evolve_times_array,
                    "data": np.arange(4000, dtype=float) + base}

        def dump_dict(self):
            st["attempt"] += 1
            st["count"] = 0
            st["inside"] = True
            try:
                super().dump_dict()
            finally:
                st["inside"] = False
                st["counts"].append(st["count"])
            if kill is not None and st["attempt"] == kill[0]:
                die()

    return Job(dump_mps=dump_mps, dump_dir=dump_dir, job_name=JOB), st


def run_proc(dump_dir, base, dump_mps, nsteps, kill):
    """fork; returns (exit status, counts per attempt as seen by the child, error text)"""
    r, w = os.pipe()
    sys.stdout.flush()
    pid = os.fork()
    if pid == 0:
        try:
            os.close(r)
            devnull = os.open(os.devnull, os.O_WRONLY)
            os.dup2(devnull, 1)

            def report(st, err=None):
                counts = list(st["counts"])
                if st["inside"]:
                    counts.append(st["count"])
                os.write(w, json.dumps({"counts": counts, "err": err}).encode())
            job, st = make_job(base, dump_dir, dump_mps, kill, report)
            job.evolve(evolve_dt=0.1, nsteps=nsteps)
            report(st)
            os._exit(0)
        except BaseException as e:       # noqa
            import traceback
            try:
                os.write(w, json.dumps({"counts": [], "err": traceback.format_exc()[-1500:]}).encode())
            finally:
                os._exit(3)
    os.close(w)
    data = b""
    while True:
        chunk = os.read(r, 65536)
        if not chunk:
            break
        data += chunk
    os.close(r)
    _, status = os.waitpid(pid, 0)
    code = os.waitstatus_to_exitcode(status)
    try:
        rep = json.loads(data.decode())
    except Exception:
        rep = {"counts": [], "err": "no report"}
    return code, rep.get("counts", []), rep.get("err")


def observe(dump_dir):
    from renormalizer import Mps
    out = []
    for suf in SUFFIXES:
        p = os.path.join(dump_dir, JOB + suf)
        if not os.path.exists(p):
            out.append(-1)
            continue
        try:
            if suf == "_mps.npz":
                m = Mps.load(model(), p)
                for mt in m:
                    np.asarray(mt.array)
                out.append(int(round(float(np.real(m.coeff)))))
            else:
                with np.load(p) as z:
                    if not EXPECTED_KEYS <= set(z.files):
                        raise ValueError("keys missing: %s" % sorted(z.files))
                    for k in z.files:
                        z[k]
                    step = int(z["step"])
                    if float(z["data"][0]) != float(step - (len(z["times"]) - 1)):
                        raise ValueError("inconsistent payload")
                out.append(step)
        except Exception:
            out.append(-2)
    return out


def proc_of_codes(codes):
    """[-1, -1, c] -> kill (j=3, c);  all -1 -> None"""
    for i, c in enumerate(codes):
        if c >= 0:
            if i != len(codes) - 1:
                raise ValueError("a killed attempt must be the last of its process")
            return (i + 1, c)
    return None


def is_safe(obs, fin, nxt):
    return fin == 0 or any(fin <= k < nxt for k in obs[:2])


def extend(top, state, codes, dump_mps, nsteps, frac_of):
    """run one more process (attempt codes `codes`) on a COPY of the directory tree `top` (None = empty).
    Returns (new top directory, new state).  state = dict(procs, obs, counts, exit, safe, err, base, fin)."""
    new_top = tempfile.mkdtemp(prefix="c14f_")
    d = os.path.join(new_top, "out")
    if top is not None and os.path.isdir(os.path.join(top, "out")):
        shutil.copytree(os.path.join(top, "out"), d)
    st = {k: (list(v) if isinstance(v, list) else v) for k, v in state.items()}
    i = len(st["procs"])
    k = proc_of_codes(codes)
    kill = None if k is None else (k[0], k[1], frac_of(i + k[1]))
    code, counts, err = run_proc(d, st["base"], dump_mps, len(codes) if k is not None else nsteps, kill)
    st["procs"].append(list(codes))
    st["exit"].append(code)
    st["counts"].append(counts)
    if err:
        st["err"] = err
    nret = (k[0] - 1) if k is not None else len(codes)
    if nret > 0:
        st["fin"] = st["base"] + nret
    st["base"] += len(codes)
    obs = observe(d) if os.path.isdir(d) else [-1] * len(SUFFIXES)
    st["obs"].append(obs)
    if not is_safe(obs, st["fin"], st["base"] + 1):
        st["safe"] = False
    return new_top, st


def empty_state():
    return {"procs": [], "obs": [], "counts": [], "exit": [], "safe": True, "err": None, "base": 0, "fin": 0}


def default_frac(i):
    return FRACS[i % len(FRACS)]


def run_history(procs, dump_mps, nsteps, frac_of=default_frac):
    """procs: list of attempt-code lists.  Returns dict with obs / counts / safe per process."""
    top, st = None, empty_state()
    try:
        for codes in procs:
            new_top, st = extend(top, st, codes, dump_mps, nsteps, frac_of)
            if top is not None:
                shutil.rmtree(top, ignore_errors=True)
            top = new_top
    finally:
        if top is not None:
            shutil.rmtree(top, ignore_errors=True)
    return st


def explore(dump_mps, levels, nsteps, limit=200000, shard=(0, 1)):
    """all histories of `levels` processes; crash points enumerated from the action counts the real code produces"""
    cases = []

    def rec(top, st, level):
        top0, r0 = extend(top, st, [-1] * nsteps, dump_mps, nsteps, default_frac)
        try:
            counts = r0["counts"][-1]
            if len(counts) != nsteps or r0["exit"][-1] != 0:
                cases.append(dict(r0, problem="uninterrupted run did not finish: exit %s counts %s" % (r0["exit"][-1], counts)))
                return
            options = [[-1] * nsteps]
            for j in range(1, nsteps + 1):
                for c in range(0, counts[j - 1] + 1):
                    options.append([-1] * (j - 1) + [c])
            for io, o in enumerate(options):
                if len(cases) >= limit:
                    return
                if level == 1 and io % shard[1] != shard[0]:
                    continue
                if io == 0:
                    t1, r = top0, r0
                else:
                    t1, r = extend(top, st, o, dump_mps, nsteps, default_frac)
                try:
                    if level == levels:
                        cases.append(r)
                    else:
                        rec(t1, r, level + 1)
                finally:
                    if io != 0:
                        shutil.rmtree(t1, ignore_errors=True)
        finally:
            shutil.rmtree(top0, ignore_errors=True)

    rec(None, empty_state(), 1)
    return cases


def replay(dump_mps, procs, nsteps=3):
    """exit code for a repro: 1 while the history leaves no loadable result of the current/previous dump"""
    r = run_history(procs, dump_mps, nsteps)
    print("history (one list of attempt codes per process; -1 = not killed, c = killed after c actions):", procs)
    print("observed [<job>.npz, .npz.bak, .tmp.npz, _mps.npz] after each process (-1 absent, -2 unloadable, k = dump k):", r["obs"])
    print("child exit codes:", r["exit"], "error:", r["err"])
    print("SAFE" if r["safe"] else "UNSAFE: no complete loadable result file of the last returned dump or a later one")
    return 0 if r["safe"] else 1


def emit(pl, obj):
    """large results go through a file: the orchestrator reads the child's stdout pipe only after exit"""
    if pl.get("out"):
        with open(pl["out"], "w") as fh:
            json.dump(obj, fh)
        print("RESULT " + json.dumps({"file": pl["out"]}))
    else:
        print("RESULT " + json.dumps(obj))


def main():
    pl = json.loads(sys.stdin.read())
    if pl["mode"] == "explore":
        cases = explore(pl.get("dump_mps"), pl["levels"], pl["nsteps"], shard=tuple(pl.get("shard", [0, 1])))
        emit(pl, {"cases": cases})
    elif pl["mode"] == "replay":
        r = run_history(pl["procs"], pl.get("dump_mps"), pl.get("nsteps", 3))
        print("RESULT " + json.dumps(r))
    elif pl["mode"] == "batch":
        out = [run_history(p, pl.get("dump_mps"), pl.get("nsteps", 3)) for p in pl["histories"]]
        emit(pl, {"cases": out})


if __name__ == "__main__" and not globals().get("_EMBEDDED"):
    main()
