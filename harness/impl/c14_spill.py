"""C14 spill correspondence: random store programs on a real Mps with a tiny dump_matrix_size.
stdin: {"programs": [{"n": sites, "limit": bytes, "ops": [[key, id, a, b], ...]}]}   (tensor shape (a, 2, b), filled with id)
stdout: RESULT {"runs": [{"steps": [{"files": [slot numbers with a .npy file], "ids": [id read back per site]}], "err": null}]}
"""
import json
import os
import shutil
import sys
import tempfile

import renormalizer  # noqa: F401
import numpy as np
from renormalizer import Model, Mps, Op, BasisHalfSpin


def run(prog, tmp):
    n = prog["n"]
    model = Model([BasisHalfSpin(i) for i in range(n)], [Op("sigma_z", 0)])
    mps = Mps.hartree_product_state(model, {})
    mps.compress_config.dump_matrix_size = prog["limit"]
    mps.compress_config.dump_matrix_dir = tmp
    for j in range(n):
        mps[j] = np.full((1, 2, 1), 1000.0 + j)          # 16 bytes: in memory for every limit used
    d = os.path.join(tmp, str(id(mps)))
    steps = []
    for key, ident, a, b in prog["ops"]:
        mps[key] = np.full((a, 2, b), float(ident))
        files = sorted(int(f[:-4]) for f in os.listdir(d)) if os.path.isdir(d) else []
        ids = []
        for j in range(n):
            arr = mps[j].array
            if not np.all(arr == arr.flat[0]):
                raise ValueError("tensor content damaged")
            ids.append(int(arr.flat[0]))
        kinds = ["file" if isinstance(x, str) else "mem" for x in mps._mp]
        steps.append({"files": files, "ids": ids, "kinds": kinds, "nbytes": int(mps[key].array.nbytes)})
    del mps
    return steps


def main():
    pl = json.loads(sys.stdin.read())
    out = []
    tmp = tempfile.mkdtemp(prefix="c14sp_")
    try:
        for prog in pl["programs"]:
            try:
                out.append({"steps": run(prog, tmp), "err": None})
            except Exception as e:
                import traceback
                out.append({"steps": [], "err": repr(e) + traceback.format_exc()[-500:]})
    finally:
        shutil.rmtree(tmp, ignore_errors=True)
    print("RESULT " + json.dumps({"runs": out}))


if __name__ == "__main__":
    main()
