"""C10: the package's own finite-temperature entry points.  ThermalProp.evolve is wrapped by a logging shim (called unchanged) that
records, for every thermal propagation the library starts, the total imaginary time actually propagated and the occupations of the
resulting purified state.  Entry points driven here with a temperature T = 1/beta:
    transport.ChargeDiffusionDynamics (schemes 2 and 4, vertical creation of the carrier)   beta over two decades
    spectra.SpectraFiniteT  "abs" (closed-form GS propagation) and "emi" (ThermalProp with a scheme)
    transport.TransportKubo
Checks: total imaginary time = -i beta/2; vibrational occupations of the thermal state = truncated Bose-Einstein averages
sum_n n e^{-beta w n} / sum_n e^{-beta w n} (0-exciton sector) resp. dense Gibbs averages of the model Hamiltonian in the 1-exciton
sector; for ChargeDiffusionDynamics also the t = 0 observables of the job (ph_occupations, carrier occupation).
payload: {seed}
"""
import itertools
import numpy as np
from c09_lib import *
from renormalizer.model import HolsteinModel, Mol, Phonon
from renormalizer.mps import ThermalProp
from renormalizer.transport import ChargeDiffusionDynamics, InitElectron
from renormalizer.transport.kubo import TransportKubo
from renormalizer.spectra import SpectraFiniteT

P = read_payload()
rs = np.random.RandomState(P["seed"] % (2 ** 31))
LOG = []
_ev = ThermalProp.evolve


def ev_shim(self, evolve_dt=None, nsteps=None, evolve_time=None):
    t0 = self.evolve_times[-1]
    r = _ev(self, evolve_dt, nsteps, evolve_time)
    fin = self.latest_mps
    LOG.append({"total": complex(self.evolve_times[-1] - t0), "exact": bool(self.exact), "space": self.space,
                "ph": [float(x) for x in np.real(fin.ph_occupations)], "e": [float(x) for x in np.real(fin.e_occupations)],
                "nsteps": nsteps})
    return r


ThermalProp.evolve = ev_shim
bad = []
recs = []


def be(beta, w, n):
    k = np.arange(n)
    p = np.exp(-beta * w * k)
    return float((k * p).sum() / p.sum())


def gibbs_1ex(model, beta):
    h = np.asarray(Mpo(model).todense())
    dims = [b.nbas for b in model.basis]
    cfgs = list(itertools.product(*[range(d) for d in dims]))
    esites = [i for i, b in enumerate(model.basis) if b.is_electron]
    vsites = [i for i, b in enumerate(model.basis) if b.is_phonon]
    if len(esites) == 1 and dims[esites[0]] > 2:      # scheme 4: one electronic site with mol_num + 1 states
        nex = np.array([1 if c[esites[0]] > 0 else 0 for c in cfgs])
    else:
        nex = np.array([sum(c[k] for k in esites) for c in cfgs])
    pr = np.diag((nex == 1).astype(float))
    rho = pr @ sla.expm(-beta * h) @ pr
    z = np.trace(rho)
    return [float(np.trace(rho @ np.diag(np.array([c[k] for c in cfgs], dtype=float))) / z) for k in vsites]


def check(what, beta, entry, ph_ref, tol):
    n_before = len(recs)
    rec = {"entry": what, "beta": beta, "total_imag_time": -entry["total"].imag, "expected": beta / 2, "exact": entry["exact"], "space": entry["space"],
           "ph": entry["ph"], "ph_ref": ph_ref}
    recs.append(rec)
    ok_t = abs(entry["total"].real) < 1e-12 and abs(-entry["total"].imag - beta / 2) <= 1e-10 * beta
    ok_o = ph_ref is None or max(abs(a - b) for a, b in zip(entry["ph"], ph_ref)) <= tol
    if not (ok_t and ok_o):
        bad.append(rec)


w, nlev = 1.0, 4
for scheme in (2, 4):
    for beta in (0.05, 0.7, 5.0):
        w1, w2 = w, float(rs.uniform(0.6, 1.4))
        phs = [Phonon.simple_phonon(Quantity(w1), Quantity(float(rs.uniform(0.2, 1.0))), nlev),
               Phonon.simple_phonon(Quantity(w2), Quantity(float(rs.uniform(0.2, 1.0))), 3)]
        model = HolsteinModel([Mol(Quantity(0.0), phs)] * 3, Quantity(float(rs.uniform(0.2, 0.6))), scheme)
        del LOG[:]
        try:
            ct = ChargeDiffusionDynamics(model, temperature=Quantity(1.0 / beta, "a.u."), init_electron=InitElectron.fc,
                                         compress_config=CompressConfig(CompressCriteria.fixed, max_bonddim=16))
            ref = [be(beta, w1, nlev), be(beta, w2, 3)] * 3
            if len(LOG) != 1:
                bad.append({"entry": "ChargeDiffusionDynamics", "beta": beta, "what": "expected exactly one thermal propagation", "n": len(LOG)})
            else:
                check("ChargeDiffusionDynamics/scheme%d" % scheme, beta, LOG[0], ref, 1e-9)
            # the job's own t = 0 observables: vertical excitation leaves the vibrations thermal; one carrier on the central molecule
            ph0 = [float(x) for x in np.real(ct.ph_occupations_array[0])]
            e0 = [float(x) for x in np.real(ct.e_occupations_array[0])]
            rec = {"entry": "ChargeDiffusionDynamics/scheme%d t=0" % scheme, "beta": beta, "ph": ph0, "ph_ref": ref, "e": e0}
            recs.append(rec)
            if max(abs(a - b) for a, b in zip(ph0, ref)) > 1e-6 or abs(sum(e0) - 1) > 1e-9 or abs(e0[1] - 1) > 1e-9:
                bad.append(rec)
        except Exception as ex:
            bad.append({"entry": "ChargeDiffusionDynamics", "beta": beta, "scheme": scheme, "exc": repr(ex)[:300]})

# spectra at finite temperature and the Kubo transport job: small 2-molecule model
for beta in (0.3, 2.0):
    phs = [Phonon.simple_phonon(Quantity(1.0), Quantity(0.6), 3)]
    model = HolsteinModel([Mol(Quantity(0.5), phs, 1.0)] * 2, Quantity(0.3))
    T = Quantity(1.0 / beta, "a.u.")
    for kind in ("abs", "emi", "kubo"):
        del LOG[:]
        try:
            if kind == "kubo":
                TransportKubo(model, T, insteps=4, ievolve_config=EvolveConfig(EvolveMethod.tdvp_ps),
                              compress_config=CompressConfig(CompressCriteria.fixed, max_bonddim=32)).init_mps()
            else:
                # default imaginary-time scheme (P&C RK4) as in the package's own use; 40 steps keep its error below the tolerance
                SpectraFiniteT(model, kind, T, 40, Quantity(0.5), icompress_config=CompressConfig(CompressCriteria.fixed, max_bonddim=32))
            if not LOG:
                bad.append({"entry": kind, "beta": beta, "what": "no thermal propagation logged"})
                continue
            ent = LOG[-1]
            ref = [be(beta, 1.0, 3)] * 2 if kind == "abs" else gibbs_1ex(model, beta)
            check({"abs": "SpectraFiniteT/abs", "emi": "SpectraFiniteT/emi", "kubo": "TransportKubo"}[kind], beta, ent, ref, 1e-6)
        except Exception as ex:
            bad.append({"entry": kind, "beta": beta, "exc": repr(ex)[:300]})
emit({"n": len(recs), "bad": bad[:6], "nbad": len(bad), "samples": recs[:2]})
