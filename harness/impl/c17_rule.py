"""C17: run renormalizer.mps.symbolic_mpo.table_row_swapped_jw on explicit word pairs.
stdin: {"pairs": [[w1, w2], ...]} (words = lists of symbols; w1 is looked up through row[1], w2 through row[2])
RESULT {"res": [["ok", new1, new2, coeff] | ["raise", kind], ...]}"""
import json
import os
import sys
import tempfile

import numpy as np

from renormalizer.model import Op
from renormalizer.mps.symbolic_mpo import table_row_swapped_jw



def L_emit(obj):
    """large results go through a file: the harness reads a pipe only after the process has exited"""
    fd, path = tempfile.mkstemp(prefix="verif_c17_", suffix=".json", dir="/tmp")
    with os.fdopen(fd, "w") as f:
        json.dump(obj, f)
    print("RESULT " + json.dumps({"file": path}))


def main():
    payload = json.load(sys.stdin)
    res = []
    for w1, w2 in payload["pairs"]:
        try:
            o1 = Op(" ".join(w1), [7] * len(w1), qn=[0] * len(w1))
            o2 = Op(" ".join(w2), [8] * len(w2), qn=[0] * len(w2))
            prim = [o1, o2]
            op2idx = {op: i for i, op in enumerate(prim)}
            row, coeff = table_row_swapped_jw([0, 0, 1, 2, 0], prim, op2idx)
            n1, n2 = prim[row[1]], prim[row[2]]
            ok_dofs = set(n1.dofs) <= {7} and set(n2.dofs) <= {8} and row[0] == 0 and row[3] == 2 and row[4] == 0
            res.append(["ok", list(n1.split_symbol), list(n2.split_symbol), float(coeff), bool(ok_dofs)])
        except AssertionError:
            res.append(["raise", "AssertionError"])
        except Exception as e:
            res.append(["raise", type(e).__name__])
    mats = {}
    from renormalizer.model.basis import BasisHalfSpin
    for nm in payload.get("names", []):
        try:
            mats[nm] = [float(x) for x in np.asarray(BasisHalfSpin(0).op_mat(nm)).ravel()]
        except Exception:
            mats[nm] = None
    L_emit({"res": res, "mats": mats})


main()
