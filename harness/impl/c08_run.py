"""C08 implementation-side runner (chain DMRG).  stdin: {"cases": [...]} ; stdout: RESULT {"results": [...]}

Per case: build a small model with a dense reference, run renormalizer.mps.gs.optimize_mps with hooks on
Environ.read/write/GetLR/_construct, MatrixProduct.__setitem__/_switch_direction, single_sweep and the two
eigen-solver entry points, and return
  * the event trace (4 integers per event, same coding as Model/Sweep.v:event_Z),
  * the witness checks of every local solve (Rayleigh pair of an independently contracted H_eff; isometry of
    the site tensors away from the centre; the same energy from the dense vector P c and the dense H),
  * macro / micro energies, exact sector spectrum (independent dense H from the model's terms), and the
    checks on the returned state(s).
Nothing in /repo is modified; hooks are installed by attribute assignment in this process only.
"""
import json
import sys
import time
import traceback

import renormalizer  # noqa: F401  (before numpy: thread settings)
import numpy as np
import scipy.linalg

from renormalizer.model import Model, Op, h_qc
from renormalizer.model.basis import BasisHalfSpin, BasisSHO, BasisSimpleElectron
from renormalizer.mps import Mps, Mpo
from renormalizer.mps import gs as G
from renormalizer.mps.lib import Environ, cvec2cmat
from renormalizer.mps.mp import MatrixProduct
from renormalizer.mps.matrix import asnumpy
from renormalizer.utils.configs import OFS
from renormalizer.utils import CompressConfig, CompressCriteria

# ----------------------------------------------------------------------------- models
def model_spin(n, qn, rng, enc="01", cplx=False, lr=False):
    # enc "01": quantum number = number of flipped spins (never negative; Mps.random / TTNS.random skip every block
    # above qntot and fail for negative totals); enc "pm": +1 / -1 per site with non-negative totals only
    basis = [BasisHalfSpin(i, sigmaqn=([0, 1] if enc == "01" else [1, -1]) if qn else [0, 0]) for i in range(n)]
    terms = []
    for i in range(n - 1):
        j = float(rng.uniform(0.5, 1.5)) * (1 if rng.random() < 0.8 else -1)
        d = float(rng.uniform(-1.2, 1.2))
        terms += [Op("sigma_+ sigma_-", [i, i + 1], 2 * j), Op("sigma_- sigma_+", [i, i + 1], 2 * j),
                  Op("sigma_z sigma_z", [i, i + 1], j * d)]
    if lr:                                      # random couplings between all pairs: strongly entangled, truncation matters
        for a in range(n):
            for b in range(a + 2, n):
                j = float(rng.normal())
                terms += [Op("sigma_+ sigma_-", [a, b], j), Op("sigma_- sigma_+", [a, b], j), Op("sigma_z sigma_z", [a, b], float(0.5 * rng.normal()))]
    elif n > 2 and rng.random() < 0.3:         # one longer-range coupling
        a, b = sorted(rng.choice(n, 2, replace=False).tolist())
        if b - a > 1:
            j = float(rng.uniform(-0.5, 0.5))
            terms += [Op("sigma_+ sigma_-", [a, b], 2 * j), Op("sigma_- sigma_+", [a, b], 2 * j)]
    for i in range(n):
        terms.append(Op("sigma_z", i, float(rng.uniform(-0.3, 0.3))))
    if cplx:
        # hermitian but not real: Dzyaloshinskii-Moriya exchange  i D (s+ s- - s- s+)  on neighbours and a complex
        # next-nearest-neighbour exchange; both conserve the quantum number
        for i in range(n - 1):
            dm = float(rng.uniform(0.3, 1.0)) * (1 if rng.random() < 0.5 else -1)
            terms += [Op("sigma_+ sigma_-", [i, i + 1], 1j * dm), Op("sigma_- sigma_+", [i, i + 1], -1j * dm)]
        for i in range(n - 2):
            c = complex(rng.uniform(-0.4, 0.4), rng.uniform(-0.4, 0.4))
            terms += [Op("sigma_+ sigma_-", [i, i + 2], c), Op("sigma_- sigma_+", [i, i + 2], np.conj(c))]
        if not qn:
            for i in range(n):
                terms.append(Op("sigma_y", i, float(rng.uniform(-0.4, 0.4))))
    if not qn and rng.random() < 0.5:          # no conserved quantity at all
        for i in range(n):
            terms.append(Op("sigma_x", i, float(rng.uniform(-0.4, 0.4))))
    return Model(basis, terms)


def model_holstein(nmol, nbas, rng, qn=True):
    basis, terms = [], []
    for i in range(nmol):
        basis.append(BasisSimpleElectron("e%d" % i, sigmaqn=[0, 1] if qn else [0, 0]))
        basis.append(BasisSHO("v%d" % i, omega=float(rng.uniform(0.5, 1.5)), nbas=nbas))
    for i in range(nmol):
        terms.append(Op(r"a^\dagger a", "e%d" % i, float(rng.uniform(-0.5, 0.5))))
        w = basis[2 * i + 1].omega
        terms.append(Op(r"b^\dagger b", "v%d" % i, float(w)))
        g = float(rng.uniform(0.2, 1.2))
        terms.append(Op(r"a^\dagger a", "e%d" % i) * Op(r"b^\dagger+b", "v%d" % i) * (g * w))
    for i in range(nmol):
        for j in range(i + 1, nmol):
            if j == i + 1 or rng.random() < 0.5:
                t = float(rng.uniform(-1.0, 1.0))
                terms.append(Op(r"a^\dagger a", ["e%d" % i, "e%d" % j], t))
                terms.append(Op(r"a^\dagger a", ["e%d" % j, "e%d" % i], t))
    return Model(basis, terms)


def model_qc(norb, rng):
    h = rng.uniform(-1, 1, (norb, norb))
    h = (h + h.T) / 2
    nk = 2
    eri = np.zeros((norb,) * 4)
    for _ in range(nk):
        l = rng.uniform(-0.6, 0.6, (norb, norb))
        l = (l + l.T) / 2
        eri += np.einsum("pq,rs->pqrs", l, l)
    sh, aseri = h_qc.int_to_h(h, eri)
    basis, terms = h_qc.qc_model(sh, aseri)
    return Model(basis, terms)


def model_spinboson(ns, nbas, pos, rng):
    """ns spins (no conserved quantity) coupled to one nbas-level oscillator at the left or right end: exact ranks grow towards it"""
    terms = []
    for i in range(ns - 1):
        for a in "xz":
            terms.append(Op("sigma_%s sigma_%s" % (a, a), [i, i + 1], float(rng.uniform(0.5, 1.5))))
    for i in range(ns):
        terms.append(Op("sigma_z", i, float(rng.uniform(-1, 1))))
        terms.append(Op("sigma_x", i, float(rng.uniform(-1, 1))))
        terms.append(Op("sigma_z", i) * Op(r"b^\dagger+b", "v") * float(rng.uniform(0.3, 0.9)))
    terms.append(Op(r"b^\dagger b", "v", 0.2))
    spins = [BasisHalfSpin(i) for i in range(ns)]
    osc = [BasisSHO("v", omega=0.2, nbas=nbas)]
    return Model(osc + spins if pos == "left" else spins + osc, terms)


def model_osc(n, nbas, rng):
    """coupled truncated oscillators (non-negative spectrum up to the coupling): big local dimension, the two-site problem reaches the iterative solver"""
    basis = [BasisSHO("v%d" % i, omega=float(rng.uniform(0.6, 1.4)), nbas=nbas) for i in range(n)]
    terms = [Op(r"b^\dagger b", "v%d" % i, float(basis[i].omega)) for i in range(n)]
    for i in range(n - 1):
        terms.append(Op(r"b^\dagger+b", "v%d" % i) * Op(r"b^\dagger+b", "v%d" % (i + 1)) * float(rng.uniform(-0.3, 0.3)))
    return Model(basis, terms)


def model_nroots_corpus():
    """the input of fix 9c06eb1 (broadcast ValueError in the convergence test when a sweep's best local problem has fewer than nroots states)"""
    n = 6
    rng = np.random.default_rng(0)
    basis = [BasisHalfSpin(i, sigmaqn=[0, 1]) for i in range(n)]
    terms = [Op("sigma_z", i, rng.normal()) for i in range(n)]
    for i in range(n):
        for j in range(i + 1, n):
            t = rng.normal()
            terms += [Op("sigma_+ sigma_-", [i, j], t), Op("sigma_- sigma_+", [i, j], t)]
    return Model(basis, terms)


def model_spin_ofs(n, rng):
    """spins without conserved quantity, XX + ZZ couplings between ALL pairs, a few of them strong: reordering the sites lowers the
    entanglement, so on-the-fly swapping really swaps (also late in a sweep)"""
    basis = [BasisHalfSpin(i) for i in range(n)]
    terms = []
    k = int(rng.integers(0, 3))
    for i in range(n):
        for j in range(i + 1, n):
            jj = float(rng.normal()) * (1.0 if (i + j) % 3 == k else 0.1)
            for a in ("sigma_x", "sigma_z"):
                terms.append(Op("%s %s" % (a, a), [i, j], jj))
    terms += [Op("sigma_z", i, float(rng.uniform(-0.5, 0.5))) for i in range(n)]
    return Model(basis, terms)


def build_model(case, rng):
    k = case["kind"]
    if k == "spin_ofs":
        return model_spin_ofs(case["n"], rng)
    if k == "spinboson":
        return model_spinboson(case["ns"], case["nbas"], case.get("pos", "right"), rng)
    if k == "osc":
        return model_osc(case["n"], case["nbas"], rng)
    if k == "nroots_corpus":
        return model_nroots_corpus()
    if k == "spin":
        return model_spin(case["n"], case.get("qn", True), rng, case.get("enc", "01"), bool(case.get("cplx")), bool(case.get("lr")))
    if k == "holstein":
        return model_holstein(case["nmol"], case["nbas"], rng, case.get("qn", True))
    if k == "qc":
        return model_qc(case["norb"], rng)
    raise ValueError(k)


# ----------------------------------------------------------------------------- dense reference (independent of Mpo)
def dense_from_terms(model, terms=None):
    """dense matrix of a list of operator terms (default: the model's own Hamiltonian) on the basis order of `model`"""
    dims = [b.nbas for b in model.basis]
    D = int(np.prod(dims))
    H = np.zeros((D, D))
    for term in (model.ham_terms if terms is None else terms):
        ops, factor = term.split_elementary(model.dof_to_siteidx)
        mats = [np.eye(d) for d in dims]
        for op in ops:
            si = model.dof_to_siteidx[op.dofs[0]]
            mats[si] = mats[si] @ np.asarray(model.basis[si].op_mat(op))
        m = np.array([[1.0]])
        for x in mats:
            m = np.kron(m, x)
        if np.iscomplexobj(m) or np.iscomplexobj(factor):
            H = H.astype(complex)
        H = H + factor * m
    return H


def site_qn(model):
    out = []
    for b in model.basis:
        q = np.array(b.sigmaqn)
        if q.ndim == 1:
            q = q.reshape(-1, 1)
        out.append(q)
    return out


def total_qn(model):
    qs = site_qn(model)
    tot = np.zeros((1, qs[0].shape[1]), dtype=int)
    for q in qs:
        tot = (tot[:, None, :] + q[None, :, :]).reshape(-1, q.shape[1])
    return tot


# ----------------------------------------------------------------------------- the operator handed to the optimiser
def extra_terms(model, rng):
    """a perturbation V that respects the quantum numbers of the basis (diagonal one- and two-site terms, nearest-neighbour hops of
    equal label change): the operator handed to the optimiser is H0 + V, NOT the model's own Hamiltonian"""
    from renormalizer.model.basis import BasisHalfSpin as _S, BasisSHO as _B, BasisSimpleElectron as _E
    out = []
    bs = model.basis
    for b in bs:
        if isinstance(b, _S):
            out.append(Op("sigma_z", b.dof, float(rng.uniform(-0.8, 0.8))))
        elif isinstance(b, _B):
            out.append(Op(r"b^\dagger b", b.dof, float(rng.uniform(0.1, 0.6))))
        elif isinstance(b, _E):
            out.append(Op(r"a^\dagger a", b.dof, float(rng.uniform(-0.8, 0.8))))
    spins = [b for b in bs if isinstance(b, _S)]
    for x, y in zip(spins[:-1], spins[1:]):
        if np.array_equal(np.array(x.sigmaqn), np.array(y.sigmaqn)):
            out.append(Op("sigma_z sigma_z", [x.dof, y.dof], float(rng.uniform(-0.7, 0.7))))
            t = float(rng.uniform(-0.7, 0.7))
            out += [Op("sigma_+ sigma_-", [x.dof, y.dof], t), Op("sigma_- sigma_+", [x.dof, y.dof], t)]
    return out


def given_operator(case, model, rng):
    """-> (model to give to Mps / Mpo, mpo handed to the optimiser, description {terms, scale, offset} of its dense meaning
          H_given = scale * sum(terms) - offset)"""
    hv = case.get("hvar")
    h0 = list(model.ham_terms)
    if not hv:
        return model, Mpo(model), {"terms": h0, "scale": 1.0, "offset": 0.0}
    from renormalizer.utils import Quantity
    if hv == "terms":                     # explicit terms=, different from model.ham_terms
        v = extra_terms(model, rng)
        return model, Mpo(model, terms=h0 + v), {"terms": h0 + v, "scale": 1.0, "offset": 0.0}
    if hv == "offset":                    # the MPO's own offset
        c = float(rng.uniform(-2.0, 2.0))
        return model, Mpo(model, offset=Quantity(c)), {"terms": h0, "scale": 1.0, "offset": c}
    if hv == "scale":                     # scaled MPO (a negative factor turns the spectrum over)
        c = float(rng.choice([0.5, 1.7, -0.6, -1.3]))
        return model, Mpo(model).scale(c), {"terms": h0, "scale": c, "offset": 0.0}
    if hv == "sum":                       # sum of two MPOs
        v = extra_terms(model, rng)
        return model, Mpo(model).add(Mpo(model, terms=v)), {"terms": h0 + v, "scale": 1.0, "offset": 0.0}
    if hv == "empty":                     # model without Hamiltonian terms, the operator given explicitly
        m2 = Model(model.basis, [])
        return m2, Mpo(m2, terms=h0), {"terms": h0, "scale": 1.0, "offset": 0.0}
    raise ValueError(hv)


def dense_given(model, given):
    h = dense_from_terms(model, given["terms"]) * given["scale"]
    return h - given["offset"] * np.eye(len(h))


# ----------------------------------------------------------------------------- hooks
class Rec:
    def __init__(self):
        self.reset()

    def reset(self):
        self.on = False
        self.target = None
        self.events = []
        self.constructs = []
        self.cidx = None
        self.solves = []
        self.sweeps = []
        self.dense = None           # callable: model -> (H dense, sector mask)
        self.omega = None
        self.started = False


REC = Rec()
_o = {}


def install():
    _o["read"], _o["write"], _o["getlr"], _o["cons"] = Environ.read, Environ.write, Environ.GetLR, Environ._construct
    _o["set"], _o["sw"] = MatrixProduct.__setitem__, MatrixProduct._switch_direction
    _o["bigqn"] = MatrixProduct._get_big_qn
    _o["ed"], _o["ei"], _o["ss"] = G.eigh_direct, G.eigh_iterative, G.single_sweep

    def d2(d):
        return 1 if d == "L" else 0

    def read(self, domain, siteidx):
        if REC.on:
            REC.events += [2, d2(domain), int(siteidx), 0]
        return _o["read"](self, domain, siteidx)

    def write(self, domain, siteidx, tensor):
        if REC.on:
            REC.events += [3, d2(domain), int(siteidx), 0]
        return _o["write"](self, domain, siteidx, tensor)

    def getlr(self, domain, siteidx, mps, mpo, itensor=None, method="Scratch", mps_conj=None):
        if REC.on:
            REC.events += [1, d2(domain), int(siteidx), {"System": 1, "Enviro": 0}.get(method, 2)]
            if itensor is not None:
                REC.events += [9, 9, 9, 9]          # never happens in optimize_mps; poisons the comparison
        return _o["getlr"](self, domain, siteidx, mps, mpo, itensor, method, mps_conj)

    def cons(self, mps, mpo, domain=None, mps_conj=None):
        if REC.on:
            REC.target = id(mps)
            REC.started = True
            REC.events += [0, d2(domain) if domain in ("L", "R") else 2, 0, 0]
            REC.constructs.append({"domain": domain, "to_right": bool(mps.to_right), "qnidx": int(mps.qnidx), "n": len(mps)})
        return _o["cons"](self, mps, mpo, domain, mps_conj)

    def setitem(self, key, array):
        if REC.on and REC.started and id(self) == REC.target:
            REC.events += [5, 0, int(key), 0]
        return _o["set"](self, key, array)

    def sw(self):
        if REC.on and REC.started and id(self) == REC.target:
            REC.events += [6, 0, 0, 0]
        return _o["sw"](self)

    def bigqn(self, cidx, swap=False):
        if REC.on and id(self) == REC.target and not swap:
            REC.cidx = [int(x) for x in cidx]
        return _o["bigqn"](self, cidx, swap)

    def ed(mps, qn_mask, ltensor, rtensor, cmo, omega):
        e, c = _o["ed"](mps, qn_mask, ltensor, rtensor, cmo, omega)
        if REC.on:
            on_solve("direct", mps, qn_mask, ltensor, rtensor, cmo, omega, e, c)
        return e, c

    def ei(mps, qn_mask, ltensor, rtensor, cmo, omega, cguess):
        cmo = list(cmo)
        e, c = _o["ei"](mps, qn_mask, ltensor, rtensor, cmo, omega, cguess)
        if REC.on:
            on_solve(mps.optimize_config.algo, mps, qn_mask, ltensor, rtensor, cmo, omega, e, c)
        return e, c

    def ss(mps, mpo, environ, omega, percent, last_opt_e_idx):
        res = _o["ss"](mps, mpo, environ, omega, percent, last_opt_e_idx)
        if REC.on:
            micro = res[0]
            REC.sweeps.append([[np.atleast_1d(np.asarray(e, dtype=float)).tolist(), [int(x) for x in cidx]] for e, cidx in micro])
        return res

    Environ.read, Environ.write, Environ.GetLR, Environ._construct = read, write, getlr, cons
    MatrixProduct.__setitem__, MatrixProduct._switch_direction = setitem, sw
    MatrixProduct._get_big_qn = bigqn
    G.eigh_direct, G.eigh_iterative, G.single_sweep = ed, ei, ss


def heff_local(ltensor, rtensor, cmo, omega, nsite):
    """H_eff on the full (unmasked) centre space, contracted here with numpy (not with the package's expression)"""
    L, Rt = asnumpy(ltensor), asnumpy(rtensor)
    m = [asnumpy(x) for x in cmo]
    if omega is None:
        if nsite == 1:
            h = np.einsum("xby,bpqf,zfw->xpzyqw", L, m[0], Rt, optimize=True)
        else:
            h = np.einsum("xby,bpqf,frsg,zgw->xprzyqsw", L, m[0], m[1], Rt, optimize=True)
    else:
        if nsite == 1:
            h = np.einsum("xbcy,bptf,ctqi,zfiw->xpzyqw", L, m[0], m[0], Rt, optimize=True)
        else:
            h = np.einsum("xbcy,bptf,ctqi,frug,iusj,zgjw->xprzyqsw", L, m[0], m[0], m[1], m[1], Rt, optimize=True)
    d = int(np.prod(h.shape[: h.ndim // 2]))
    return h.reshape(d, d)


def on_solve(algo, mps, qn_mask, ltensor, rtensor, cmo, omega, e, c):
    rec = {"algo": algo, "cidx": REC.cidx, "mask_dim": int(np.sum(qn_mask)), "to_right": bool(mps.to_right),
           "qnidx": int(mps.qnidx)}
    REC.events += [4, len(REC.cidx), REC.cidx[0], REC.cidx[1] if len(REC.cidx) > 1 else -9]
    try:
        nroots = mps.optimize_config.nroots
        inverse = mps.optimize_config.inverse
        cidx = REC.cidx
        es = np.atleast_1d(np.asarray(e, dtype=float))
        if nroots == 1:
            cs = [np.asarray(c)]
        elif isinstance(c, list):
            cs = [np.asarray(x) for x in c]
        else:
            cs = [np.asarray(c)[:, i] for i in range(np.asarray(c).shape[1])]
        rec["nvec"] = len(cs)
        rec["e"] = es.tolist()
        if isinstance(ltensor, list):
            rec["skipped"] = "stacked"
            REC.solves.append(rec)
            return
        hfull = heff_local(ltensor, rtensor, cmo, omega, len(cidx))
        idx = np.flatnonzero(np.asarray(qn_mask).ravel())
        hm = hfull[np.ix_(idx, idx)]
        scale = max(1.0, float(np.abs(hm).max()) if hm.size else 1.0)
        rec["herm"] = float(np.abs(hm - hm.conj().T).max() / scale) if hm.size else 0.0
        # (a) Rayleigh pair of the masked local operator
        ray = []
        for ci in cs:
            ray.append(float(np.real(np.vdot(ci, hm @ ci) / np.vdot(ci, ci))) * inverse)
        rec["ray_local_err"] = float(max(abs(a - b) / max(1.0, abs(b)) for a, b in zip(es[: len(ray)], ray))) if ray else 0.0
        if omega is not None and algo != "direct" and rec["ray_local_err"] > 1e-8:
            # signature of the transposed two-layer product: (e, c) is a Rayleigh pair of the TRANSPOSE of the masked operator
            rt = [float(np.real(np.vdot(ci, hm.T @ ci) / np.vdot(ci, ci))) * inverse for ci in cs]
            if max(abs(a - b) / max(1.0, abs(b)) for a, b in zip(es[: len(rt)], rt)) <= 1e-8:
                rec["transposed"] = True
        gram = np.array([[np.vdot(a, b) for b in cs] for a in cs])
        rec["ortho_err"] = float(np.abs(gram - np.eye(len(cs))).max())
        w = np.linalg.eigvalsh(hm * inverse) if hm.size else np.zeros(0)
        rec["eig_low"] = w[: len(es)].tolist()
        rec["eig_err"] = float(max(abs(a - b) / max(1.0, abs(b)) for a, b in zip(es, w[: len(es)]))) if len(es) and len(w) else 0.0
        # (b) isometries away from the centre
        dev = 0.0
        for i in range(len(mps)):
            a = asnumpy(mps[i].array)
            if i < cidx[0]:
                m = a.reshape(-1, a.shape[-1])
                dev = max(dev, float(np.abs(m.conj().T @ m - np.eye(m.shape[1])).max()))
            elif i > cidx[-1]:
                m = a.reshape(a.shape[0], -1)
                dev = max(dev, float(np.abs(m @ m.conj().T - np.eye(m.shape[0])).max()))
        rec["iso_dev"] = dev
        # (c) the dense state P c and the dense operator
        if REC.dense is not None:
            hd, sector = REC.dense(mps.model)
            left = np.ones((1, 1))
            for i in range(cidx[0]):
                a = asnumpy(mps[i].array)
                left = np.tensordot(left, a, axes=([-1], [0])).reshape(-1, a.shape[-1])
            right = np.ones((1, 1))
            for i in range(len(mps) - 1, cidx[-1], -1):
                a = asnumpy(mps[i].array)
                right = np.tensordot(a, right, axes=([-1], [0])).reshape(a.shape[0], -1)
            dl, drr = left.shape[0], right.shape[1]
            dense_e, out_w, nrm = [], 0.0, []
            for ci in cs:
                cst = cvec2cmat(ci, qn_mask)
                mid = cst.reshape(cst.shape[0], -1, cst.shape[-1])
                psi = np.einsum("la,apb,br->lpr", left, mid, right, optimize=True).reshape(-1)
                n2 = float(np.real(np.vdot(psi, psi)))
                if n2 < 1e-300:
                    rec["zero_state"] = True          # P c = 0 for c != 0: P is not an isometry
                    continue
                nrm.append(n2 / float(np.real(np.vdot(ci, ci))))
                dense_e.append(float(np.real(np.vdot(psi, hd @ psi)) / n2) * inverse)
                out_w = max(out_w, float(np.linalg.norm(psi[~sector])) / np.sqrt(n2))
            rec["ray_dense_err"] = float(max(abs(a - b) / max(1.0, abs(b)) for a, b in zip(es[: len(dense_e)], dense_e))) if dense_e else 0.0
            rec["norm_ratio_err"] = float(max(abs(x - 1.0) for x in nrm)) if nrm else 0.0
            rec["out_of_sector"] = out_w
            rec["sector_dim"] = int(sector.sum())
    except Exception:
        rec["hook_error"] = traceback.format_exc()[-1500:]
    REC.solves.append(rec)


# ----------------------------------------------------------------------------- one case
def run_case(case):
    out = {"id": case["id"]}
    rng = np.random.default_rng(case["seed"])
    np.random.seed(case["seed"] % (2 ** 32))
    t0 = time.time()
    try:
        model = build_model(case, rng)
        model, mpo, given = given_operator(case, model, rng)
        hd0 = dense_given(model, given)
        tot = total_qn(model)
        # sector: the quantum number of a random product state (never empty); "none" -> everything
        if case.get("sector") == "rand":
            qn = [abs(int(x)) for x in tot[int(rng.integers(len(tot)))].tolist()]
        elif case.get("sector") == "mid":          # the largest sector
            vals, cnt = np.unique(tot, axis=0, return_counts=True)
            qn = [int(x) for x in vals[int(np.argmax(cnt))]]
        elif case.get("sector") is None:
            qn = [0] * tot.shape[1]
        else:
            qn = list(case["sector"])
        sector0 = np.all(tot == np.array(qn)[None, :], axis=1)
        if not sector0.any():
            out["skip"] = "empty sector"
            return out
        off = hd0[np.ix_(sector0, ~sector0)]
        out["qn_commute_err"] = float(np.abs(off).max()) if off.size else 0.0
        out["herm_err"] = float(np.abs(hd0 - hd0.conj().T).max())
        out["mpo_dense_err"] = float(np.abs(mpo.todense() - hd0).max())
        out["differs_from_model"] = float(np.abs(hd0 - dense_from_terms(model)).max()) if model.ham_terms else -1.0
        omega = case.get("omega")
        w0 = np.linalg.eigvalsh(hd0[np.ix_(sector0, sector0)])
        if omega is not None:
            omega = float(w0[0] + omega * (w0[-1] - w0[0]))
        out["omega"] = omega
        if omega is not None:
            out["exact_H_near_omega"] = float(w0[int(np.argmin((w0 - omega) ** 2))])
        inverse = float(case.get("inverse", 1.0))
        if omega is None:
            ref = np.sort(w0 * inverse)
        else:
            ref = np.sort((w0 - omega) ** 2)
        out["exact"] = ref[:6].tolist()
        out["sector_dim"] = int(sector0.sum())
        out["hilbert_dim"] = int(len(hd0))
        out["pdims"] = [int(b.nbas) for b in model.basis]
        out["qn"] = qn
        mmax0 = case.get("m_init", 8)
        qarg = qn if len(qn) > 1 else qn[0]
        mps = Mps.random(model, qarg, mmax0, percent=1.0)
        prep = case.get("prep")
        if prep == "right":
            mps.ensure_right_canonical()
        elif prep in ("warm_sum", "warm_apply", "sum_left", "apply_left"):
            # warm starts: tensors that are NOT canonical under flags that look canonical.
            #   Mps.add keeps the flags of its second operand, Mpo.apply those of the state it acts on.
            prev = Mps.random(model, qarg, max(2, mmax0 // 2), percent=1.0)
            if prep in ("warm_sum", "warm_apply"):
                prev.ensure_right_canonical()                  # flags (qnidx 0, to_right) as a previous result has
            if prep == "warm_sum":
                mps = mps.scale(0.7).add(prev)
            elif prep == "sum_left":
                other = Mps.random(model, qarg, max(2, mmax0 // 2), percent=1.0)
                other.ensure_right_canonical()
                mps = other.scale(0.7).add(prev)               # flags of a fresh random state (qnidx n-1, to_left)
            else:
                mps = mpo.apply(prev)
            out["prep_flags"] = [int(mps.qnidx), bool(mps.to_right), bool(mps.check_left_canonical()), bool(mps.check_right_canonical())]
        if case.get("cplx"):
            mps = mps.to_complex()
        proc = []
        for m, p_ in case["procedure"]:
            if isinstance(m, dict):
                ofs = {None: None, "s": OFS.ofs_s, "d": OFS.ofs_d, "ds": OFS.ofs_ds, "debug": OFS.ofs_debug}[m.get("ofs")]
                if "max_dims" in m:
                    cc = CompressConfig(CompressCriteria.fixed, max_bonddim=int(max(m["max_dims"])), ofs=ofs, ofs_swap_jw=bool(m.get("swap_jw", False)))
                    cc.max_dims = np.array(m["max_dims"], dtype=int)
                else:
                    # a real CompressConfig entry (an integer entry makes optimize_mps build a config WITHOUT on-the-fly swapping)
                    cc = CompressConfig(CompressCriteria.fixed, max_bonddim=int(m["m"]), ofs=ofs, ofs_swap_jw=bool(m.get("swap_jw", False)))
                proc.append([cc, float(p_)])
            else:
                proc.append([int(m), float(p_)])
        mps.optimize_config.procedure = proc
        mps.optimize_config.method = case["method"]
        mps.optimize_config.nroots = int(case.get("nroots", 1))
        mps.optimize_config.algo = case.get("algo", "davidson")
        mps.optimize_config.inverse = inverse
        mps.optimize_config.e_rtol = case.get("e_rtol", 1e-6)
        mps.optimize_config.e_atol = case.get("e_atol", 1e-8)
        if case.get("ofs"):
            mps.compress_config.ofs = {"s": OFS.ofs_s, "d": OFS.ofs_d, "ds": OFS.ofs_ds, "debug": OFS.ofs_debug}[case["ofs"]]
            mps.compress_config.ofs_swap_jw = bool(case.get("swap_jw", False))
        out["input_left_canonical"] = bool(mps.is_left_canonical)
        out["n"] = len(mps)
    except Exception:
        out["skip"] = "setup: " + traceback.format_exc()[-800:]
        return out

    cache = {}

    def dense(mdl):
        key = tuple(str(b.dofs) for b in mdl.basis)
        if key not in cache:
            h = dense_given(mdl, given)
            t = total_qn(mdl)
            sec = np.all(t == np.array(qn)[None, :], axis=1)
            if omega is not None:
                hs = h - omega * np.eye(len(h))
                h = hs @ hs
            cache[key] = (h, sec)
        return cache[key]

    REC.reset()
    REC.dense = dense
    REC.omega = omega
    REC.on = True
    try:
        energies, res = G.optimize_mps(mps, mpo, omega=omega)
        out["ok"] = True
    except Exception:
        tb = traceback.format_exc()
        REC.on = False
        if "AssertionError" in tb and "swap_site" in tb:
            # C17's known finding (symbolic_mpo.swap_site asserts after repeated swaps): a rejected generation, not a C08 statement
            out["skip"] = "try_swap_site raised AssertionError in symbolic_mpo.swap_site (C17 known finding)"
            return out
        out["ok"] = False
        out["crash"] = tb[-1500:]
        energies, res = None, None
    REC.on = False
    swapping = any(isinstance(m, dict) and m.get("ofs") for m, _ in case["procedure"]) or bool(case.get("ofs"))
    if swapping and energies is not None:
        try:
            out["order_after"] = [str(b.dof) for b in mps.model.basis]
            if omega is None:
                # the input objects after the run: the MPO reordered in place must be the operator in the order the input state now carries
                out["input_consistency_err"] = float(np.abs(np.asarray(mpo.todense()) - dense_given(mps.model, given)).max())
        except Exception:
            out["input_consistency_err"] = float("inf")
            out["input_consistency_tb"] = traceback.format_exc()[-600:]
    out["trace"] = REC.events
    out["constructs"] = REC.constructs
    out["sweeps"] = len(REC.sweeps)
    out["micro"] = REC.sweeps
    out["solves"] = REC.solves
    if energies is not None:
        out["macro"] = [np.atleast_1d(np.asarray(e, dtype=float)).tolist() for e in energies]
        states = res if isinstance(res, list) else [res]
        fin = []
        for st in states:
            d = {}
            try:
                hd, sec = dense(st.model)
                psi = np.asarray(st.todense()).reshape(-1)
                n2 = float(np.real(np.vdot(psi, psi)))
                d["norm"] = float(np.sqrt(n2))
                d["out_of_sector"] = float(np.linalg.norm(psi[~sec]))
                d["dense_energy"] = float(np.real(np.vdot(psi, hd @ psi)) / n2) * inverse
                hmodel = Mpo(st.model) if (case.get("ofs") or any(isinstance(m, dict) and m.get("ofs") for m, _ in case["procedure"])) else mpo
                d["expectation_H"] = float(np.real(st.expectation(hmodel)))
                hplain = dense_given(st.model, given)
                d["dense_H"] = float(np.real(np.vdot(psi, hplain @ psi)) / n2)
                d["bond_dims"] = [int(x) for x in st.bond_dims]
                d["order"] = [str(b.dof) for b in st.model.basis]
                d["qntot"] = np.asarray(st.qntot).tolist()
            except Exception:
                d["error"] = traceback.format_exc()[-800:]
            fin.append(d)
        out["final"] = fin
    out["wall"] = round(time.time() - t0, 3)
    return out


def main():
    payload = json.loads(sys.stdin.read())
    install()
    results = []
    for case in payload["cases"]:
        try:
            results.append(run_case(case))
        except Exception:
            results.append({"id": case.get("id"), "skip": "runner: " + traceback.format_exc()[-800:]})
    # the orchestrator reads stdout only after exit (pipe buffer): large results go through a file
    if payload.get("out"):
        with open(payload["out"], "w") as f:
            json.dump({"results": results}, f)
        print("RESULT " + json.dumps({"file": payload["out"], "n": len(results)}))
    else:
        print("RESULT " + json.dumps({"results": results}))


if __name__ == "__main__":
    main()
