"""C16 dense oracle (always run): the failing-input search on the real code.

Independent NumPy references (own ladder matrices, kron assembly, scipy quad) against
  * BasisSHO: product symbols, commutator, powers, general_xp_power, DVR variant, shifted origin
  * BasisSineDVR: every analytic symbol against quadrature of the analytic basis functions; dvr frame
  * BasisHalfSpin / BasisSimpleElectron / BasisMultiElectron(Vac) / BasisHopsBoson / BasisDummy
  * HolsteinModel schemes 1-4 (shared excitation sectors), SpinBosonModel, TI1DModel (wrap-around),
    heisenberg_ops, construct_j_matrix  --  Mpo(model).todense() against independently assembled matrices.

stdin : {"seed": int, "tier": "quick"|"thorough"}
stdout: RESULT {"checks": {class: count}, "fails": [{"cls":..., "detail": {...}}, ...]}
Each failure class is reported once (first = smallest failing input), with the total count per class.
"""
import itertools
import json
import math
import sys
import warnings

import numpy as np

warnings.filterwarnings("ignore")
import scipy.integrate
from renormalizer.model import basis as B
from renormalizer.model import Op, Model, HolsteinModel, SpinBosonModel, TI1DModel, Mol, Phonon
from renormalizer.model import model as model_mod
from renormalizer.mps import Mpo
from renormalizer.utils import Quantity

TOL = 1e-9
checks = {}
fails = {}
nfail = {}


def ok(cls, cond, detail):
    checks[cls] = checks.get(cls, 0) + 1
    if not cond:
        nfail[cls] = nfail.get(cls, 0) + 1
        if cls not in fails:
            fails[cls] = detail


def first_bad(a, b, tol=TOL, mask=None):
    """first entry where a and b differ by more than tol*(1+scale); None if they agree"""
    a = np.asarray(a)
    b = np.asarray(b)
    if a.shape != b.shape:
        return ("shape", list(a.shape), list(b.shape))
    scale = max(1.0, float(np.max(np.abs(b))) if b.size else 1.0)
    d = np.abs(a - b)
    if mask is not None:
        d = np.where(mask, d, 0.0)
    if d.size == 0 or float(d.max()) <= tol * scale:
        return None
    i = np.unravel_index(int(np.argmax(d > tol * scale)), d.shape)
    return (tuple(int(x) for x in i), complex(a[i]), complex(b[i]))


def cplx(z):
    z = complex(z)
    return [z.real, z.imag]


def bad_detail(bad):
    if bad is None:
        return None
    if bad[0] == "shape":
        return {"shape_impl": bad[1], "shape_expected": bad[2]}
    return {"entry": list(bad[0]), "impl": cplx(bad[1]), "expected": cplx(bad[2])}


# --------------------------------------------------------------------------- own reference matrices
def lad(K):
    return np.diag(np.sqrt(np.arange(1, K)), k=1)


def xref(omega, K, x0=0.0):
    b = lad(K)
    return (b + b.T) / math.sqrt(2 * omega) + x0 * np.eye(K)


def pref(omega, K):
    b = lad(K)
    return 1j * math.sqrt(omega / 2) * (b.T - b)


def refmat(name, omega, K, x0=0.0):
    b = lad(K)
    return {"x": xref(omega, K, x0), "p": pref(omega, K), "dx": 1j * pref(omega, K), "b": b, r"b^\dagger": b.T,
            "I": np.eye(K)}[name]


PAIRS = [("x p", "x", "p"), ("p x", "p", "x"), ("x dx", "x", "dx"), ("dx x", "dx", "x"),
         ("x x", "x", "x"), ("x^2", "x", "x"), ("p p", "p", "p"), ("p^2", "p", "p"),
         ("dx dx", "dx", "dx"), ("dx^2", "dx", "dx"),
         ("b b", "b", "b"), (r"b^\dagger b^\dagger", r"b^\dagger", r"b^\dagger"),
         (r"b^\dagger b", r"b^\dagger", "b"), (r"b b^\dagger", "b", r"b^\dagger"),
         ("x partialx", "x", "dx"), ("partialx x", "dx", "x")]
X0_PRODUCT = ("x p", "p x", "x dx", "dx x", "x partialx", "partialx x")


def sho_checks(omegas, nbas_list):
    for omega in omegas:
        for N in nbas_list:
            bs = B.BasisSHO("v", omega, N)
            big = B.BasisSHO("v", omega, N + 2)
            for sym, fa, fb in PAIRS:
                M = np.asarray(bs.op_mat(sym))
                # (1) against the product of the untruncated reference factors, all levels
                ref = (refmat(fa, omega, N + 2) @ refmat(fb, omega, N + 2))[:N, :N]
                bad = first_bad(M, ref)
                ok("sho-product-symbol", bad is None,
                   {"omega": omega, "nbas": N, "x0": 0.0, "symbol": sym, "factors": [fa, fb], "against": "trunc_N(A_inf @ B_inf), own reference", **(bad_detail(bad) or {})})
                # (2) against the implementation's own larger-basis factors
                own = (np.asarray(big.op_mat(fa)) @ np.asarray(big.op_mat(fb)))[:N, :N]
                bad = first_bad(M, own)
                ok("sho-product-symbol", bad is None,
                   {"omega": omega, "nbas": N, "x0": 0.0, "symbol": sym, "factors": [fa, fb], "against": "op_mat(A) @ op_mat(B) in nbas+2, truncated", **(bad_detail(bad) or {})})
                # (3) against the product of the implementation's truncated factors, except the top level
                if N >= 2:
                    own = np.asarray(bs.op_mat(fa)) @ np.asarray(bs.op_mat(fb))
                    mask = np.ones((N, N), bool)
                    mask[N - 1, N - 1] = False
                    bad = first_bad(M, own, mask=mask)
                    ok("sho-product-symbol", bad is None,
                       {"omega": omega, "nbas": N, "x0": 0.0, "symbol": sym, "factors": [fa, fb], "against": "op_mat(A) @ op_mat(B), levels < nbas-1", **(bad_detail(bad) or {})})
            # the one-factor symbols against their definitions (own matrices)
            for s_, ref in (("x", xref(omega, N)), ("p", pref(omega, N)), ("dx", 1j * pref(omega, N)), ("partialx", 1j * pref(omega, N)),
                            ("b", lad(N)), (r"b^\dagger", lad(N).T)):
                bad = first_bad(bs.op_mat(s_), ref)
                ok("sho-definition", bad is None, {"omega": omega, "nbas": N, "symbol": s_, "against": "x = (b+ + b)/sqrt(2w), p = i sqrt(w/2)(b+ - b), dx = i p", **(bad_detail(bad) or {})})
            # sums, number operator
            ok("sho-sum-symbol", first_bad(bs.op_mat(r"b^\dagger+b"), lad(N) + lad(N).T) is None, {"omega": omega, "nbas": N, "symbol": r"b^\dagger+b"})
            ok("sho-sum-symbol", first_bad(bs.op_mat(r"b^\dagger + b"), lad(N) + lad(N).T) is None, {"omega": omega, "nbas": N, "symbol": r"b^\dagger + b"})
            ok("sho-sum-symbol", first_bad(bs.op_mat(r"b^\dagger-b"), lad(N).T - lad(N)) is None, {"omega": omega, "nbas": N, "symbol": r"b^\dagger-b"})
            ok("sho-sum-symbol", first_bad(bs.op_mat("n"), np.diag(np.arange(N))) is None, {"omega": omega, "nbas": N, "symbol": "n"})
            ok("sho-sum-symbol", first_bad(bs.op_mat("I"), np.eye(N)) is None, {"omega": omega, "nbas": N, "symbol": "I"})
            # commutator
            x, p = np.asarray(bs.op_mat("x")), np.asarray(bs.op_mat("p"))
            c = x @ p - p @ x
            mask = np.ones((N, N), bool)
            mask[N - 1, N - 1] = False
            bad = first_bad(c, 1j * np.eye(N), mask=mask)
            ok("sho-commutator", bad is None, {"omega": omega, "nbas": N, "what": "[x,p] = i on levels < nbas-1", **(bad_detail(bad) or {})})
            bad = first_bad(np.asarray(bs.op_mat("x p")) - np.asarray(bs.op_mat("p x")), 1j * np.eye(N))
            ok("sho-commutator", bad is None, {"omega": omega, "nbas": N, "what": '"x p" - "p x" = i', **(bad_detail(bad) or {})})
            # hermiticity
            for s in ("x", "p", "x^2", "p^2", "x^3", "p^3"):
                M = np.asarray(bs.op_mat(s))
                ok("sho-hermitian", first_bad(M, M.conj().T) is None, {"omega": omega, "nbas": N, "symbol": s})
            # powers
            for x0 in (0.0, 0.5):
                bx = B.BasisSHO("v", omega, N, x0=x0)
                for k in range(0, 7):
                    refk = np.linalg.matrix_power(xref(omega, N + k + 1, x0), k)[:N, :N]
                    bad = first_bad(bx.op_mat("x^%d" % k), refk)
                    ok("sho-power", bad is None, {"omega": omega, "nbas": N, "x0": x0, "symbol": "x^%d" % k, "against": "trunc_N(x_inf^k)", **(bad_detail(bad) or {})})
                    if x0 == 0.0:
                        refk = np.linalg.matrix_power(pref(omega, N + k + 1), k)[:N, :N]
                        bad = first_bad(bx.op_mat("p^%d" % k), refk)
                        ok("sho-power", bad is None, {"omega": omega, "nbas": N, "x0": x0, "symbol": "p^%d" % k, "against": "trunc_N(p_inf^k)", **(bad_detail(bad) or {})})
                        # against the implementation's own larger basis
                        bigk = B.BasisSHO("v", omega, N + k + 1)
                        own = np.linalg.matrix_power(np.asarray(bigk.op_mat("x")), k)[:N, :N]
                        ok("sho-power", first_bad(bx.op_mat("x^%d" % k), own) is None, {"omega": omega, "nbas": N, "symbol": "x^%d" % k, "against": "own x in nbas+k+1"})
                        own = np.linalg.matrix_power(np.asarray(bigk.op_mat("p")), k)[:N, :N]
                        ok("sho-power", first_bad(bx.op_mat("p^%d" % k), own) is None, {"omega": omega, "nbas": N, "symbol": "p^%d" % k, "against": "own p in nbas+k+1"})
                ok("sho-power", first_bad(bx.op_mat("x x x"), bx.op_mat("x^3")) is None, {"omega": omega, "nbas": N, "x0": x0, "symbol": "x x x"})
                ok("sho-power", first_bad(bx.op_mat("p p p"), bx.op_mat("p^3")) is None, {"omega": omega, "nbas": N, "x0": x0, "symbol": "p p p"})
                # general_xp_power
                bg = B.BasisSHO("v", omega, N, x0=x0, general_xp_power=True)
                for s in ("x", "x^2", "p", "p^2"):
                    bad = first_bad(bg.op_mat(s), bx.op_mat(s))
                    ok("sho-general-xp-power", bad is None, {"omega": omega, "nbas": N, "x0": x0, "symbol": s, **(bad_detail(bad) or {})})
            # shifted origin
            x0 = 0.5
            bx = B.BasisSHO("v", omega, N, x0=x0)
            x_0 = np.asarray(bs.op_mat("x"))
            ok("sho-shifted-origin", first_bad(bx.op_mat("x"), x_0 + x0 * np.eye(N)) is None, {"omega": omega, "nbas": N, "x0": x0, "symbol": "x"})
            for k in range(2, 5):
                ref = sum(math.comb(k, j) * x0 ** (k - j) * np.asarray(bs.op_mat("x^%d" % j)) for j in range(k + 1))
                bad = first_bad(bx.op_mat("x^%d" % k), ref)
                ok("sho-shifted-origin", bad is None, {"omega": omega, "nbas": N, "x0": x0, "symbol": "x^%d" % k, **(bad_detail(bad) or {})})
            for s in ("p", "p^2", "p^3", "dx", "dx^2"):
                ok("sho-shifted-origin", first_bad(bx.op_mat(s), bs.op_mat(s)) is None, {"omega": omega, "nbas": N, "x0": x0, "symbol": s})
            # product symbols with a shifted origin: x = y + x0, so "x p" = y p + x0 p
            for sym, fa, fb in PAIRS:
                if sym not in X0_PRODUCT:
                    continue
                ref = (refmat(fa, omega, N + 2, x0) @ refmat(fb, omega, N + 2, x0))[:N, :N]
                bad = first_bad(bx.op_mat(sym), ref)
                ok("sho-x0-product-symbols", bad is None,
                   {"omega": omega, "nbas": N, "x0": x0, "symbol": sym, "factors": [fa, fb], "against": "trunc_N((y+x0)_inf-type product), own reference", **(bad_detail(bad) or {})})
                bigx = B.BasisSHO("v", omega, N + 2, x0=x0)
                own = (np.asarray(bigx.op_mat(fa)) @ np.asarray(bigx.op_mat(fb)))[:N, :N]
                bad = first_bad(bx.op_mat(sym), own)
                ok("sho-x0-product-symbols", bad is None,
                   {"omega": omega, "nbas": N, "x0": x0, "symbol": sym, "factors": [fa, fb], "against": "op_mat(A) @ op_mat(B) in nbas+2 with the same x0, truncated", **(bad_detail(bad) or {})})
            # DVR variant
            for x0 in (0.0, 0.5):
                bd = B.BasisSHO("v", omega, N, x0=x0, dvr=True)
                bp = B.BasisSHO("v", omega, N, x0=x0)
                V = np.asarray(bd.dvr_v)
                ok("sho-dvr", first_bad(V @ V.T, np.eye(N)) is None, {"omega": omega, "nbas": N, "x0": x0, "what": "dvr_v orthogonal"})
                xp_ = np.asarray(bp.op_mat("x"))
                ok("sho-dvr", first_bad(bd.op_mat("x"), V.T @ xp_ @ V) is None, {"omega": omega, "nbas": N, "x0": x0, "symbol": "x", "what": "dvr x = V^T x V"})
                ok("sho-dvr", first_bad(bd.op_mat("x"), np.diag(np.diag(np.asarray(bd.op_mat("x"))))) is None, {"omega": omega, "nbas": N, "x0": x0, "symbol": "x", "what": "dvr x diagonal"})
                for k in (2, 3, 4):
                    # DECISION: the DVR x^k is the k-th power of the TRUNCATED x (rotated): allowed by
                    # "up to the documented truncation at the highest level"; it must agree with the exact
                    # power on all entries that no path through level >= N can reach: m + n + k <= 2N - 2
                    Mk = V @ np.asarray(bd.op_mat("x^%d" % k)) @ V.T
                    bad = first_bad(Mk, np.linalg.matrix_power(xp_, k))
                    ok("sho-dvr", bad is None, {"omega": omega, "nbas": N, "x0": x0, "symbol": "x^%d" % k, "what": "dvr x^k = V^T (x_N)^k V", **(bad_detail(bad) or {})})
                    exact = np.linalg.matrix_power(xref(omega, N + k + 1, x0), k)[:N, :N]
                    mm, nn = np.meshgrid(np.arange(N), np.arange(N), indexing="ij")
                    mask = (mm + nn + k) <= 2 * N - 2
                    bad = first_bad(Mk, exact, mask=mask)
                    ok("sho-dvr", bad is None, {"omega": omega, "nbas": N, "x0": x0, "symbol": "x^%d" % k, "what": "dvr x^k = exact power below the top levels (m+n+k <= 2N-2)", **(bad_detail(bad) or {})})
                for s in ("p", "p^2", "p^3", "dx", "dx^2", "I"):
                    bad = first_bad(bd.op_mat(s), V.T @ np.asarray(bp.op_mat(s)) @ V)
                    ok("sho-dvr", bad is None, {"omega": omega, "nbas": N, "x0": x0, "symbol": s, "what": "dvr op = V^T op V", **(bad_detail(bad) or {})})
                if N >= 2:
                    for s in ("x p", "p x", "x dx", "dx x"):
                        bad = first_bad(bd.op_mat(s), V.T @ np.asarray(bp.op_mat(s)) @ V)
                        ok("sho-dvr-unrotated-symbols", bad is None, {"omega": omega, "nbas": N, "x0": x0, "symbol": s, "what": "with dvr=True the product symbol is not in the frame of op_mat('x'), op_mat('p')", **(bad_detail(bad) or {})})


# --------------------------------------------------------------------------- sine DVR
def sine_checks(cases):
    for nbas, xi, xf, endpoint in cases:
        sb = B.BasisSineDVR("q", nbas, xi, xf, endpoint=endpoint)
        L, a = sb.L, sb.xi

        def psi(j, x):
            return math.sqrt(2 / L) * math.sin(j * math.pi * (x - a) / L)

        def dpsi(j, x):
            return math.sqrt(2 / L) * (j * math.pi / L) * math.cos(j * math.pi * (x - a) / L)

        def d2psi(j, x):
            return -(j * math.pi / L) ** 2 * psi(j, x)

        forms = {
            "I": (lambda j, k, x: psi(j, x) * psi(k, x), 1),
            "x": (lambda j, k, x: psi(j, x) * x * psi(k, x), 1), "x^1": (lambda j, k, x: psi(j, x) * x * psi(k, x), 1),
            "x^2": (lambda j, k, x: psi(j, x) * x ** 2 * psi(k, x), 1), "x x": (lambda j, k, x: psi(j, x) * x ** 2 * psi(k, x), 1),
            "x^3": (lambda j, k, x: psi(j, x) * x ** 3 * psi(k, x), 1), "x x x": (lambda j, k, x: psi(j, x) * x ** 3 * psi(k, x), 1),
            "dx": (lambda j, k, x: psi(j, x) * dpsi(k, x), 1), "partialx": (lambda j, k, x: psi(j, x) * dpsi(k, x), 1),
            "p": (lambda j, k, x: psi(j, x) * dpsi(k, x), -1j),
            "p^2": (lambda j, k, x: -psi(j, x) * d2psi(k, x), 1),
            "dx^2": (lambda j, k, x: psi(j, x) * d2psi(k, x), 1), "dx dx": (lambda j, k, x: psi(j, x) * d2psi(k, x), 1),
            "x dx": (lambda j, k, x: psi(j, x) * x * dpsi(k, x), 1),
            "x^2 dx": (lambda j, k, x: psi(j, x) * x ** 2 * dpsi(k, x), 1),
            "x^2 p^2": (lambda j, k, x: -psi(j, x) * x ** 2 * d2psi(k, x), 1), "x^2 dx^2": (lambda j, k, x: psi(j, x) * x ** 2 * d2psi(k, x), 1),
            "x p^2": (lambda j, k, x: -psi(j, x) * x * d2psi(k, x), 1), "x dx^2": (lambda j, k, x: psi(j, x) * x * d2psi(k, x), 1),
            "x^3 p^2": (lambda j, k, x: -psi(j, x) * x ** 3 * d2psi(k, x), 1), "x^3 dx^2": (lambda j, k, x: psi(j, x) * x ** 3 * d2psi(k, x), 1),
        }
        sbd = B.BasisSineDVR("q", nbas, xi, xf, endpoint=endpoint, dvr=True)
        V = np.asarray(sbd.dvr_v)
        for sym, (f, fac) in forms.items():
            M = np.asarray(sb.op_mat(sym))
            ref = np.zeros((nbas, nbas), dtype=complex)
            for j in range(1, nbas + 1):
                for k in range(1, nbas + 1):
                    val, err = scipy.integrate.quad(lambda x: f(j, k, x), sb.xi, sb.xf, epsabs=1e-13, epsrel=1e-13, limit=200)
                    ref[j - 1, k - 1] = fac * val
            bad = first_bad(M, ref, tol=1e-8)
            ok("sinedvr-integral", bad is None, {"nbas": nbas, "xi": xi, "xf": xf, "endpoint": endpoint, "symbol": sym, **(bad_detail(bad) or {})})
            bad = first_bad(sbd.op_mat(sym), V.T @ M @ V)
            ok("sinedvr-dvr-frame", bad is None, {"nbas": nbas, "xi": xi, "xf": xf, "endpoint": endpoint, "symbol": sym, **(bad_detail(bad) or {})})
        ok("sinedvr-dvr-frame", first_bad(V @ V.T, np.eye(nbas)) is None, {"nbas": nbas, "what": "dvr_v orthogonal"})
        # grid points: x is diagonal in the DVR frame with the documented grid
        xd = np.asarray(sbd.op_mat("x"))
        grid = sb.xi + np.arange(1, nbas + 1) * L / (nbas + 1)
        ok("sinedvr-dvr-frame", first_bad(np.asarray(sbd.dvr_x), grid) is None, {"nbas": nbas, "what": "dvr_x = documented grid"})
        if endpoint:
            ok("sinedvr-dvr-frame", abs(grid[0] - xi) < 1e-12 and abs(grid[-1] - xf) < 1e-12, {"nbas": nbas, "what": "endpoint=True: x_1 = xi, x_N = xf"})


# --------------------------------------------------------------------------- spin / electrons / hops
PX = np.array([[0, 1], [1, 0]], dtype=complex)
PY = np.array([[0, -1j], [1j, 0]])
PZ = np.array([[1, 0], [0, -1]], dtype=complex)
PP = np.array([[0, 1], [0, 0]], dtype=complex)
PM = PP.T.copy()
I2 = np.eye(2, dtype=complex)


def spin_checks():
    hs = B.BasisHalfSpin("s")
    S = {"x": hs.op_mat("sigma_x"), "y": hs.op_mat("sigma_y"), "z": hs.op_mat("sigma_z")}
    S = {k: np.asarray(v, dtype=complex) for k, v in S.items()}
    eps = {("x", "y", "z"): 1, ("y", "z", "x"): 1, ("z", "x", "y"): 1, ("y", "x", "z"): -1, ("z", "y", "x"): -1, ("x", "z", "y"): -1}
    for a in "xyz":
        for b_ in "xyz":
            ref = (I2 if a == b_ else 0 * I2) + 1j * sum(eps.get((a, b_, c), 0) * S[c] for c in "xyz")
            ok("halfspin-pauli", first_bad(S[a] @ S[b_], ref) is None, {"what": "sigma_%s sigma_%s" % (a, b_)})
            ok("halfspin-pauli", first_bad(hs.op_mat("sigma_%s sigma_%s" % (a, b_)), S[a] @ S[b_]) is None, {"what": "symbol 'sigma_%s sigma_%s' = product in written order" % (a, b_)})
    for name, ref in (("sigma_x", PX), ("X", PX), ("x", PX), ("sigma_y", PY), ("Y", PY), ("y", PY), ("sigma_z", PZ), ("Z", PZ), ("z", PZ),
                      ("sigma_+", PP), ("+", PP), ("sigma_-", PM), ("-", PM), ("I", I2), ("isigma_y", 1j * PY), ("iY", 1j * PY), ("iy", 1j * PY)):
        ok("halfspin-pauli", first_bad(hs.op_mat(name), ref) is None, {"symbol": name})
    sp, sm = np.asarray(hs.op_mat("sigma_+")), np.asarray(hs.op_mat("sigma_-"))
    ok("halfspin-pauli", first_bad(sp @ sm - sm @ sp, S["z"]) is None, {"what": "[s+, s-] = sz"})
    ok("halfspin-pauli", first_bad(S["z"] @ sp - sp @ S["z"], 2 * sp) is None, {"what": "[sz, s+] = 2 s+"})
    ok("halfspin-pauli", first_bad(hs.op_mat("sigma_+ sigma_-"), sp @ sm) is None, {"symbol": "sigma_+ sigma_-"})
    ok("halfspin-pauli", first_bad(hs.op_mat("sigma_z sigma_+ sigma_x"), S["z"] @ sp @ S["x"]) is None, {"symbol": "sigma_z sigma_+ sigma_x"})
    ok("halfspin-pauli", first_bad(hs.op_mat(Op("sigma_y", "s", 0.5)), 0.5 * PY) is None, {"what": "factor"})


def electron_checks():
    for n in (1, 2, 3, 4):
        dofs = [("mol", i) for i in range(n)]
        me = B.BasisMultiElectron(dofs, [1] * n)
        mev = B.BasisMultiElectronVac(dofs)
        for i in range(n):
            E = np.zeros((n + 1, n + 1))
            E[i + 1, 0] = 1
            ok("electron-unit", first_bad(mev.op_mat(Op(r"a^\dagger", dofs[i])), E) is None, {"basis": "MultiElectronVac", "n": n, "symbol": "a^dagger", "i": i})
            ok("electron-unit", first_bad(mev.op_mat(Op("a", dofs[i])), E.T) is None, {"basis": "MultiElectronVac", "n": n, "symbol": "a", "i": i})
            for j in range(n):
                E = np.zeros((n, n))
                E[i, j] = 1
                ok("electron-unit", first_bad(me.op_mat(Op(r"a^\dagger a", [dofs[i], dofs[j]])), E) is None, {"basis": "MultiElectron", "n": n, "i": i, "j": j})
                Ev = np.zeros((n + 1, n + 1))
                Ev[i + 1, j + 1] = 1
                M = np.asarray(mev.op_mat(Op(r"a^\dagger a", [dofs[i], dofs[j]])))
                ok("electron-unit", first_bad(M, Ev) is None, {"basis": "MultiElectronVac", "n": n, "i": i, "j": j})
                prod = np.asarray(mev.op_mat(Op(r"a^\dagger", dofs[i]))) @ np.asarray(mev.op_mat(Op("a", dofs[j])))
                ok("electron-unit", first_bad(M, prod) is None, {"basis": "MultiElectronVac", "n": n, "i": i, "j": j, "what": "a+_i a_j = a+_i @ a_j"})
                ok("electron-unit", M.sum() == 1 and (M != 0).sum() == 1, {"basis": "MultiElectronVac", "n": n, "what": "single 1"})
                # "a a^dagger" on (j, i): the single 1 sits at (row of the created state i, column of the annihilated state j)
                ok("electron-unit", first_bad(mev.op_mat(Op(r"a a^\dagger", [dofs[j], dofs[i]])), Ev) is None, {"basis": "MultiElectronVac", "n": n, "symbol": "a a^dagger", "dofs": [j, i], "expected_position": [i + 1, j + 1]})
                ok("electron-unit", first_bad(me.op_mat(Op(r"a a^\dagger", [dofs[j], dofs[i]])), E) is None, {"basis": "MultiElectron", "n": n, "symbol": "a a^dagger", "dofs": [j, i], "expected_position": [i, j]})
        ok("electron-unit", first_bad(me.op_mat(Op("I", dofs[0])), np.eye(n)) is None, {"basis": "MultiElectron", "symbol": "I"})
        ok("electron-unit", first_bad(mev.op_mat(Op("I", dofs[0])), np.eye(n + 1)) is None, {"basis": "MultiElectronVac", "symbol": "I"})
    se = B.BasisSimpleElectron("e")
    ad, a = np.asarray(se.op_mat(r"a^\dagger")), np.asarray(se.op_mat("a"))
    ok("electron-unit", first_bad(ad, np.array([[0, 0], [1, 0]])) is None, {"basis": "SimpleElectron", "symbol": "a^dagger"})
    ok("electron-unit", first_bad(a, ad.T) is None, {"basis": "SimpleElectron", "symbol": "a"})
    ok("electron-unit", first_bad(se.op_mat(r"a^\dagger a"), ad @ a) is None, {"basis": "SimpleElectron", "symbol": "a^dagger a"})
    ok("electron-unit", first_bad(a @ ad + ad @ a, np.eye(2)) is None, {"basis": "SimpleElectron", "what": "anticommutator"})
    ok("electron-unit", first_bad(B.BasisDummy("d").op_mat("I"), np.eye(1)) is None, {"basis": "Dummy"})
    for N in (1, 2, 3, 6):
        hb = B.BasisHopsBoson("h", N)
        bd, b_ = np.asarray(hb.op_mat(r"\tilde{b}^\dagger"), dtype=float), np.asarray(hb.op_mat(r"\tilde{b}"), dtype=float)
        ok("hops-boson", first_bad(bd @ b_, np.diag(np.arange(N))) is None, {"nbas": N, "what": "b~+ b~ = n"})
        ok("hops-boson", first_bad(hb.op_mat(r"b^\dagger b"), np.diag(np.arange(N))) is None, {"nbas": N, "symbol": "b^dagger b"})
        c = b_ @ bd - bd @ b_
        mask = np.ones((N, N), bool)
        mask[N - 1, N - 1] = False
        ok("hops-boson", first_bad(c, np.eye(N), mask=mask) is None, {"nbas": N, "what": "[b~, b~+] = 1 below the top level"})
        for n_ in range(N - 1):
            ok("hops-boson", abs(bd[n_ + 1, n_] - (n_ + 1)) < 1e-14 and abs(b_[n_, n_ + 1] - 1) < 1e-14, {"nbas": N, "what": "documented action on |n>"})


# --------------------------------------------------------------------------- builders
def kron_all(mats):
    out = np.eye(1)
    for m in mats:
        out = np.kron(out, m)
    return out


def embed(dims, ops):
    """ops: {site: matrix}; identity elsewhere"""
    return kron_all([ops.get(i, np.eye(d)) for i, d in enumerate(dims)])


def own_sho(omega, N):
    """x, x^2 (exact truncation), number operator, from own ladder matrices"""
    big = N + 2
    X = xref(omega, big)
    return X[:N, :N], (X @ X)[:N, :N], np.diag(np.arange(N)).astype(float)


def holstein_reference(mols, J):
    """canonical basis: electronic index (0 = vacuum, i+1 = molecule i)  x  phonons in (imol, iph) order.
    H = sum_i (E_i + lambda_i) |i><i| + sum_{i != j} J_ij |i><j|
        + sum_{i,l} [ w0 (n + 1/2) ]_{il}                                   (= 1/2 p^2 + 1/2 w0^2 x^2 exactly)
        + sum_{i,l} |i><i| [ 1/2 (w1^2 - w0^2) x^2 - w1^2 d x ]_{il}"""
    nmol = len(mols)
    pdims = [ph["nbas"] for m in mols for ph in m["phs"]]
    dims = [nmol + 1] + pdims
    D = int(np.prod(dims))
    H = np.zeros((D, D))
    He = np.zeros((nmol + 1, nmol + 1))
    for i in range(nmol):
        lam = sum(0.5 * ph["d"] ** 2 * ph["w1"] ** 2 for ph in mols[i]["phs"])
        for j in range(nmol):
            He[i + 1, j + 1] = (mols[i]["e"] + lam) if i == j else J[i, j]
    H += embed(dims, {0: He})
    site = 1
    for i, m in enumerate(mols):
        for ph in m["phs"]:
            x, x2, n = own_sho(ph["w0"], ph["nbas"])
            H += embed(dims, {site: ph["w0"] * (n + 0.5 * np.eye(ph["nbas"]))})
            Pi = np.zeros((nmol + 1, nmol + 1))
            Pi[i + 1, i + 1] = 1
            H += embed(dims, {0: Pi, site: 0.5 * (ph["w1"] ** 2 - ph["w0"] ** 2) * x2 - ph["w1"] ** 2 * ph["d"] * x})
            site += 1
    return H, dims


def holstein_embedding(mols, scheme):
    """isometry W: canonical basis -> product basis of the given scheme (site order as documented)"""
    nmol = len(mols)
    pd = [[ph["nbas"] for ph in m["phs"]] for m in mols]
    if scheme < 4:
        sdims = []
        for i in range(nmol):
            sdims.append(2)
            sdims += pd[i]
    else:
        nleft = nmol // 2
        sdims = [d for i in range(nleft) for d in pd[i]] + [nmol + 1] + [d for i in range(nleft, nmol) for d in pd[i]]
    cdims = [nmol + 1] + [d for row in pd for d in row]
    W = np.zeros((int(np.prod(sdims)), int(np.prod(cdims))))
    for cidx, conf in enumerate(itertools.product(*[range(d) for d in cdims])):
        E = conf[0]
        ph = list(conf[1:])
        vals = []
        if scheme < 4:
            k = 0
            for i in range(nmol):
                vals.append(1 if E == i + 1 else 0)
                for _ in pd[i]:
                    vals.append(ph[k])
                    k += 1
        else:
            nleft = nmol // 2
            nl = sum(len(pd[i]) for i in range(nleft))
            vals = ph[:nl] + [E] + ph[nl:]
        sidx = 0
        for v, d in zip(vals, sdims):
            sidx = sidx * d + v
        W[sidx, cidx] = 1
    return W


def holstein_checks(rng, ncases):
    for icase in range(ncases):
        nmol = int(rng.integers(1, 4))
        nmodes = int(rng.integers(1, 3))
        nb = int(rng.integers(2, 4))
        if nmol == 3 and nmodes == 2:
            nb = 2
        mols = []
        share = bool(rng.integers(0, 2))
        for i in range(nmol):
            phs = []
            for l in range(nmodes):
                w0 = float(rng.uniform(0.3, 2.0))
                w1 = w0 if rng.integers(0, 3) else float(w0 * rng.uniform(0.7, 1.4))
                phs.append({"w0": w0, "w1": w1, "d": float(rng.uniform(-1.5, 1.5)), "nbas": nb})
            mols.append({"e": float(rng.uniform(-1, 1)), "phs": phs})
            if share and i > 0:
                mols[i] = {"e": mols[0]["e"], "phs": mols[0]["phs"]}
        mode = int(rng.integers(0, 3))      # 0: constant open, 1: constant periodic, 2: explicit matrix
        jc = float(rng.uniform(-1, 1))
        if mode == 2:
            A = rng.uniform(-1, 1, size=(nmol, nmol))
            J = (A + A.T) / 2
            jarg, periodic = J.copy(), False
        else:
            periodic = mode == 1
            J = np.zeros((nmol, nmol))
            for i in range(nmol - 1):
                J[i, i + 1] = J[i + 1, i] = jc
            if periodic and nmol >= 2:
                J[0, nmol - 1] = J[nmol - 1, 0] = jc
            jarg = Quantity(jc)
        if periodic and nmol == 1:
            periodic = False
        mol_list = [Mol(Quantity(m["e"]), [Phonon([Quantity(ph["w0"]), Quantity(ph["w1"])], [Quantity(0), Quantity(ph["d"])], ph["nbas"]) for ph in m["phs"]]) for m in mols]
        Href, cdims = holstein_reference(mols, J)
        info = {"nmol": nmol, "nmodes": nmodes, "nbas": nb, "J": "matrix" if mode == 2 else jc, "periodic": periodic, "mols": mols}
        got = {}
        for scheme in (1, 2, 3, 4):
            try:
                model = HolsteinModel(mol_list, jarg, scheme=scheme, periodic=periodic)
                Hs = np.asarray(Mpo(model).todense())
            except Exception as e:
                ok("holstein-hamiltonian", False, {**info, "scheme": scheme, "exception": repr(e)})
                continue
            W = holstein_embedding(mols, scheme)
            Hc = W.T @ Hs @ W
            leak = float(np.abs(Hs @ W - W @ Hc).max())
            ok("holstein-hamiltonian", leak < 1e-10, {**info, "scheme": scheme, "what": "the <=1-excitation sector is not invariant", "leak": leak})
            bad = first_bad(Hc, Href)
            ok("holstein-hamiltonian", bad is None, {**info, "scheme": scheme, "what": "dense H on the 0/1-excitation sector vs documented Hamiltonian", **(bad_detail(bad) or {})})
            got[scheme] = Hc
        for s in (2, 3, 4):
            if 1 in got and s in got:
                bad = first_bad(got[s], got[1])
                ok("holstein-scheme", bad is None, {**info, "schemes": [1, s], **(bad_detail(bad) or {})})
        # switch_scheme keeps the couplings (incl. periodic ones)
        try:
            m2 = HolsteinModel(mol_list, jarg, scheme=2, periodic=periodic).switch_scheme(4)
            H4 = np.asarray(Mpo(m2).todense())
            W = holstein_embedding(mols, 4)
            ok("holstein-scheme", first_bad(W.T @ H4 @ W, Href) is None, {**info, "what": "switch_scheme(4)"})
        except Exception as e:
            ok("holstein-scheme", False, {**info, "what": "switch_scheme(4)", "exception": repr(e)})
    # j matrix
    for n in range(1, 6):
        for periodic in (False, True):
            if n == 1 and periodic:
                continue
            J = np.asarray(model_mod.construct_j_matrix(n, Quantity(0.37), periodic))
            ref = np.zeros((n, n))
            for i in range(n):
                for j in range(n):
                    if abs(i - j) == 1 or (periodic and n > 1 and {i, j} == {0, n - 1} and i != j):
                        ref[i, j] = 0.37
            ok("j-matrix", first_bad(J, ref) is None, {"mol_num": n, "periodic": periodic, "impl": J.tolist()})


def spinboson_checks(rng, ncases):
    for _ in range(ncases):
        nph = int(rng.integers(1, 4))
        nb = int(rng.integers(2, 4))
        eps, delta = float(rng.uniform(-1, 1)), float(rng.uniform(-1, 1))
        phs = [{"w": float(rng.uniform(0.3, 2.0)), "d": float(rng.uniform(-1.5, 1.5))} for _ in range(nph)]
        ph_list = [Phonon.simple_phonon(Quantity(p["w"]), Quantity(p["d"]), nb) for p in phs]
        info = {"epsilon": eps, "delta": delta, "phonons": phs, "nbas": nb}
        try:
            H = np.asarray(Mpo(SpinBosonModel(Quantity(eps), Quantity(delta), ph_list)).todense())
        except Exception as e:
            ok("spinboson-hamiltonian", False, {**info, "exception": repr(e)})
            continue
        dims = [2] + [nb] * nph
        ref = embed(dims, {0: (eps * PZ + delta * PX).real})
        for i, p in enumerate(phs):
            x, x2, n = own_sho(p["w"], nb)
            ref = ref + embed(dims, {i + 1: p["w"] * (n + 0.5 * np.eye(nb))}) + embed(dims, {0: PZ.real, i + 1: -p["w"] ** 2 * p["d"] * x})
        bad = first_bad(H, ref)
        ok("spinboson-hamiltonian", bad is None, {**info, **(bad_detail(bad) or {})})


def ti1d_checks(rng, ncases):
    # sigma_y is left out on purpose: a complex local matrix with a real factor makes Mpo.__init__ raise (property C01)
    names = {"sigma_x": PX, "sigma_z": PZ, "sigma_+": PP, "sigma_-": PM}
    for icase in range(ncases):
        ncell = int(rng.integers(2, 5))
        kind = int(rng.integers(0, 2))
        if kind == 0:
            # one spin per cell
            basis = [B.BasisHalfSpin("s")]
            cd = [2]
            local = [("sigma_z", ["s"], float(rng.uniform(-1, 1))), ("sigma_x", ["s"], float(rng.uniform(-1, 1)))]
            nonlocal_ = []
            for _ in range(int(rng.integers(1, 4))):
                d1 = int(rng.integers(-1, 2))
                off = int(rng.integers(1, ncell))
                d2 = d1 + off * (1 if rng.integers(0, 2) else -1)
                if (d2 - d1) % ncell == 0:
                    continue
                s1, s2 = [list(names)[int(k)] for k in rng.integers(0, 4, size=2)]
                nonlocal_.append(("%s %s" % (s1, s2), [(d1, "s"), (d2, "s")], float(rng.uniform(-1, 1))))
            loc = {"s": 0}

            def mat(sym, dof):
                return names[sym]
        else:
            w, nb = float(rng.uniform(0.5, 1.5)), 2
            basis = [B.BasisSimpleElectron("e"), B.BasisSHO("v", w, nb)]
            cd = [2, nb]
            x, x2, n = own_sho(w, nb)
            adag = np.array([[0, 0], [1, 0]], dtype=float)
            own = {("a^\\dagger", "e"): adag, ("a", "e"): adag.T, ("x", "v"): x, ("b^\\dagger", "v"): lad(nb).T, ("b", "v"): lad(nb)}
            g, t = float(rng.uniform(-1, 1)), float(rng.uniform(-1, 1))
            local = [("b^\\dagger b", ["v", "v"], w), ("a^\\dagger a x", ["e", "e", "v"], g)]
            d = int(rng.integers(1, ncell))
            nonlocal_ = [("a^\\dagger a", [(0, "e"), (d, "e")], t), ("a^\\dagger a", [(d, "e"), (0, "e")], t),
                         ("x x", [(0, "v"), (-d, "v")], float(rng.uniform(-1, 1)))]
            loc = {"e": 0, "v": 1}

            def mat(sym, dof):
                return own[(sym, dof)]
        info = {"ncell": ncell, "unit_cell": "spin" if kind == 0 else "electron+oscillator", "local": local, "nonlocal": nonlocal_}
        try:
            l_ops = [Op(s, dofs if len(set(dofs)) > 1 else dofs[0], f) for s, dofs, f in local]
            n_ops = [Op(s, dofs, f) for s, dofs, f in nonlocal_]
            model = TI1DModel(basis, l_ops, n_ops, ncell)
            H = np.asarray(Mpo(model).todense())
        except Exception as e:
            ok("ti1d-hamiltonian", False, {**info, "exception": repr(e)})
            continue
        dims = cd * ncell
        ref = np.zeros((int(np.prod(dims)),) * 2, dtype=complex)

        def term(sym, sites_dofs, f):
            syms = sym.split(" ")
            ops = {}
            for s, (site, dof) in zip(syms, sites_dofs):
                m = mat(s, dof)
                ops[site] = ops[site] @ m if site in ops else m
            return f * embed(dims, ops)
        for i in range(ncell):
            for s, dofs, f in local:
                ref += term(s, [(i * len(cd) + loc[dof], dof) for dof in dofs], f)
            for s, dofs, f in nonlocal_:
                ref += term(s, [(((i + dd) % ncell) * len(cd) + loc[dof], dof) for dd, dof in dofs], f)
        bad = first_bad(H, ref)
        ok("ti1d-hamiltonian", bad is None, {**info, **(bad_detail(bad) or {})})
        # dof names of the full model: every cell id in range, each term once per cell
        cells = [[int(dof[0][4:]) for dof in t.dofs] for t in model.ham_terms]
        ok("ti1d-hamiltonian", all(0 <= c < ncell for row in cells for c in row), {**info, "what": "cell index out of range"})
    for n in (2, 3, 4, 5):
        model = Model([B.BasisHalfSpin(i) for i in range(n)], model_mod.heisenberg_ops(n))
        H = np.asarray(Mpo(model).todense())
        dims = [2] * n
        ref = sum(0.25 * embed(dims, {i: P, i + 1: P}) for i in range(n - 1) for P in (PX, PY, PZ))
        ok("heisenberg-ops", first_bad(H, ref) is None, {"nspin": n})


# --------------------------------------------------------------------------- copy(new_dof) returns the same basis
def same_ops(orig, cp, symbols, cls, info, mk=lambda s: s):
    ok(cls, cp.nbas == orig.nbas, {**info, "what": "nbas of the copy", "impl": cp.nbas, "expected": orig.nbas})
    for sym in symbols:
        try:
            A = np.asarray(orig.op_mat(mk(sym)))
        except Exception:
            continue          # symbol not supported by this configuration
        try:
            Bm = np.asarray(cp.op_mat(mk(sym)))
            bad = first_bad(Bm, A)
            ok(cls, bad is None, {**info, "symbol": sym, "what": "b.copy(new_dof).op_mat(symbol) != b.op_mat(symbol)", **(bad_detail(bad) or {})})
        except Exception as e:
            ok(cls, False, {**info, "symbol": sym, "what": "op_mat of the copy raised", "exception": repr(e)})


SHO_COPY_SYMS = ["x", "x^2", "x^3", "x x", "p", "p^2", "x p", "p x", "x dx", "dx x", "dx", "dx^2", "I", "n", "b", r"b^\dagger b"]
SINE_COPY_SYMS = ["I", "x", "x^2", "x^3", "dx", "p", "p^2", "dx^2", "x dx", "x^2 dx", "x^2 p^2", "x p^2", "x^3 p^2"]


def copy_checks(omegas):
    for omega in omegas[:3]:
        for N in (1, 3, 5):
            for x0 in (0.0, 0.7, -3.0):
                for dvr in (False, True):
                    for gxp in (False, True):
                        kw = {"omega": omega, "nbas": N, "x0": x0, "dvr": dvr, "general_xp_power": gxp}
                        b = B.BasisSHO("v", **kw)
                        try:
                            c = b.copy(("Q", "v"))
                        except Exception as e:
                            ok("basis-copy", False, {"basis": "BasisSHO", "kwargs": kw, "what": "copy raised", "exception": repr(e)})
                            continue
                        same_ops(b, c, SHO_COPY_SYMS, "basis-copy", {"basis": "BasisSHO", "kwargs": kw})
    for N in (1, 4):
        b = B.BasisHopsBoson("h", N)
        same_ops(b, b.copy("g"), [r"\tilde{b}^\dagger", r"\tilde{b}", r"b^\dagger b", "I"], "basis-copy", {"basis": "BasisHopsBoson", "kwargs": {"nbas": N}})
    for sq in ([0, 0], [1, -1]):
        b = B.BasisHalfSpin("s", sq)
        c = b.copy("t")
        same_ops(b, c, ["I", "sigma_x", "sigma_y", "sigma_z", "sigma_+", "sigma_-", "sigma_z sigma_x"], "basis-copy", {"basis": "BasisHalfSpin", "kwargs": {"sigmaqn": sq}})
        ok("basis-copy", np.array_equal(b.sigmaqn, c.sigmaqn), {"basis": "BasisHalfSpin", "what": "sigmaqn of the copy"})
    for sq in (None, [0, 2], [[0, 0], [1, 0]]):
        b = B.BasisSimpleElectron("e") if sq is None else B.BasisSimpleElectron("e", sigmaqn=sq)
        c = b.copy("f")
        same_ops(b, c, [r"a^\dagger", "a", r"a^\dagger a", "I"], "basis-copy", {"basis": "BasisSimpleElectron", "kwargs": {} if sq is None else {"sigmaqn": sq}})
        ok("basis-copy-sigmaqn", np.array_equal(b.sigmaqn, c.sigmaqn), {"basis": "BasisSimpleElectron", "kwargs": {"sigmaqn": sq}, "what": "sigmaqn of the copy", "impl": c.sigmaqn.tolist(), "expected": b.sigmaqn.tolist()})
        if sq is not None:
            m_ = TI1DModel([b], [Op(r"a^\dagger a", "e", 1.0)], [], 2)
            ok("basis-copy-sigmaqn", all(np.array_equal(x.sigmaqn, b.sigmaqn) for x in m_.basis), {"basis": "BasisSimpleElectron", "kwargs": {"sigmaqn": sq}, "what": "TI1DModel cells keep the quantum numbers of the unit cell", "impl": [x.sigmaqn.tolist() for x in m_.basis], "expected": b.sigmaqn.tolist()})
    d_ = B.BasisDummy("d", 1, [3])
    ok("basis-copy-sigmaqn", np.array_equal(d_.copy("e").sigmaqn, d_.sigmaqn), {"basis": "BasisDummy", "what": "sigmaqn of the copy"})
    for n in (2, 3):
        dofs, nd = ["e%d" % i for i in range(n)], ["f%d" % i for i in range(n)]
        for cls_ in (B.BasisMultiElectron, B.BasisMultiElectronVac):
            b = cls_(dofs, [0] + [1] * (n - 1)) if cls_ is B.BasisMultiElectron else cls_(dofs)
            c = b.copy(nd)
            for i in range(n):
                for j in range(n):
                    A = np.asarray(b.op_mat(Op(r"a^\dagger a", [dofs[i], dofs[j]])))
                    C = np.asarray(c.op_mat(Op(r"a^\dagger a", [nd[i], nd[j]])))
                    ok("basis-copy", first_bad(C, A) is None, {"basis": cls_.__name__, "n": n, "symbol": "a^dagger a", "i": i, "j": j})
            ok("basis-copy", np.array_equal(b.sigmaqn, c.sigmaqn), {"basis": cls_.__name__, "what": "sigmaqn of the copy"})
    for nbas, xi, xf, endpoint in ((4, 0.0, 1.0, False), (3, -1.3, 2.1, True)):
        for dvr in (False, True):
            kw = {"nbas": nbas, "xi": xi, "xf": xf, "endpoint": endpoint, "dvr": dvr}
            b = B.BasisSineDVR("q", **kw)
            cls = "basis-copy-sinedvr-drops-flags" if dvr else "basis-copy"
            try:
                c = b.copy("r")
            except Exception as e:
                ok(cls, False, {"basis": "BasisSineDVR", "kwargs": kw, "what": "copy raised", "exception": repr(e)})
                continue
            same_ops(b, c, SINE_COPY_SYMS, cls, {"basis": "BasisSineDVR", "kwargs": kw})
            ok(cls, c.dvr == b.dvr, {"basis": "BasisSineDVR", "kwargs": kw, "what": "dvr flag of the copy", "impl": bool(c.dvr), "expected": bool(b.dvr)})
    b = B.BasisSineDVR("q", 3, 0.0, 1.0, quadrature=True)
    c = b.copy("r")
    ok("basis-copy-sinedvr-drops-flags", c.quadrature == b.quadrature, {"basis": "BasisSineDVR", "kwargs": {"nbas": 3, "xi": 0.0, "xf": 1.0, "quadrature": True}, "what": "quadrature flag of the copy (needed by op_mat for non-analytic symbols)", "impl": bool(c.quadrature), "expected": True})
    for kw in ({}, {"nbas": 2}):
        b = B.BasisDummy("d", **kw)
        try:
            c = b.copy("e")
            same_ops(b, c, ["I"], "basis-copy-dummy-raises", {"basis": "BasisDummy", "kwargs": kw})
        except Exception as e:
            ok("basis-copy-dummy-raises", False, {"basis": "BasisDummy", "kwargs": kw, "what": "copy raised", "exception": repr(e)})


def ti1d_shifted_checks():
    """unit cell = one electronic level + one oscillator whose equilibrium sits at x0 (plain and DVR):
       h_i = 1/2 p^2 + 1/2 w^2 (x-x0)^2 + g n (x-x0),  h_ij = t (a+_i a_i+1 + h.c.) + kappa x_i x_i+2 (wraps)"""
    omega, nb, g, t, kappa, ncell = 0.5, 3, 0.3, 0.2, 0.05, 3
    for x0 in (0.0, 1.5, -0.75):
        for dvr in (False, True):
            unit = [B.BasisSimpleElectron("e"), B.BasisSHO("v", omega, nb, x0=x0, dvr=dvr)]
            local = [Op("p^2", "v", 0.5), Op("x^2", "v", 0.5 * omega ** 2), Op("x", "v", -omega ** 2 * x0), Op("I", "v", 0.5 * omega ** 2 * x0 ** 2),
                     Op(r"a^\dagger a", "e") * Op("x", "v") * g, Op(r"a^\dagger a", "e", -g * x0)]
            nonlocal_ = [Op(r"a^\dagger a", [(0, "e"), (1, "e")], t), Op(r"a^\dagger a", [(1, "e"), (0, "e")], t), Op("x x", [(0, "v"), (2, "v")], kappa)]
            info = {"omega": omega, "nbas": nb, "x0": x0, "dvr": dvr, "ncell": ncell}
            try:
                H = np.asarray(Mpo(TI1DModel(unit, local, nonlocal_, ncell)).todense())
            except Exception as e:
                ok("ti1d-shifted-cell", False, {**info, "exception": repr(e)})
                continue
            big = nb + 4
            X = xref(omega, big, x0)
            P = pref(omega, big)
            x, p2 = X[:nb, :nb], (P @ P)[:nb, :nb].real
            x2 = (x @ x) if dvr else (X @ X)[:nb, :nb]       # documented DVR convention: functions of the truncated x
            eye = np.eye(nb)
            up = np.array([[0, 0], [1.0, 0]])
            num = up @ up.T
            dims = [2, nb] * ncell
            ref = np.zeros((int(np.prod(dims)),) * 2)
            for i in range(ncell):
                e, v = 2 * i, 2 * i + 1
                ref += embed(dims, {v: 0.5 * p2 + 0.5 * omega ** 2 * (x2 - 2 * x0 * x + x0 ** 2 * eye)}) + g * embed(dims, {e: num, v: x - x0 * eye})
                j = (i + 1) % ncell
                ref += t * (embed(dims, {e: up, 2 * j: up.T}) + embed(dims, {e: up.T, 2 * j: up}))
                k = (i + 2) % ncell
                ref += kappa * embed(dims, {v: x, 2 * k + 1: x})
            if dvr:
                U = kron_all([np.eye(2), np.asarray(unit[1].dvr_v)] * ncell)
                H = U @ H @ U.T
            bad = first_bad(H, ref)
            ok("ti1d-shifted-cell", bad is None, {**info, "what": "TI1DModel with a shifted-origin unit-cell oscillator vs the documented Hamiltonian", **(bad_detail(bad) or {})})


def tree_aux_checks():
    try:
        from renormalizer.tn import BasisTree
    except Exception as e:
        ok("tree-aux-copy", False, {"what": "renormalizer.tn not importable", "exception": repr(e)})
        return
    blist = [B.BasisSHO("v0", 0.7, 3, x0=0.6), B.BasisHalfSpin("s"), B.BasisSHO("v1", 1.3, 4, x0=-1.1, dvr=True), B.BasisSimpleElectron("e"),
             B.BasisSineDVR("q", 3, 0.0, 2.0, endpoint=True), B.BasisHopsBoson("h", 3)]
    syms = {"BasisSHO": SHO_COPY_SYMS, "BasisHalfSpin": ["sigma_x", "sigma_y", "sigma_z"], "BasisSimpleElectron": [r"a^\dagger", "a"],
            "BasisSineDVR": SINE_COPY_SYMS, "BasisHopsBoson": [r"\tilde{b}^\dagger", r"\tilde{b}"]}
    for shape in ("linear", "binary"):
        try:
            tree2 = getattr(BasisTree, shape)(blist).add_auxiliary_space()
        except Exception as e:
            ok("tree-aux-copy", False, {"tree": shape, "exception": repr(e)})
            continue
        by_dof = {b.dofs: b for b in tree2.basis_list}
        for b in blist:
            q = by_dof.get((("Q", b.dofs),))
            ok("tree-aux-copy", q is not None and b.dofs in by_dof, {"tree": shape, "basis": type(b).__name__, "what": "P / Q pair present"})
            if q is not None:
                same_ops(b, q, syms[type(b).__name__], "tree-aux-copy", {"tree": shape, "basis": type(b).__name__, "dof": str(b.dofs)})


def main():
    pl = json.load(sys.stdin)
    rng = np.random.default_rng(int(pl.get("seed", 0)) + 16)
    thorough = pl.get("tier") == "thorough"
    omegas = [0.25, 1.0, 4.0, 2.25] + [float(x) for x in np.round(rng.uniform(0.002, 3.0, size=4 if thorough else 2), 6)]
    sho_checks(omegas, list(range(1, 13 if thorough else 9)))
    sine_cases = [(4, 0.0, 1.0, False), (5, -1.3, 2.1, False), (3, 0.5, 4.0, True)]
    if thorough:
        sine_cases += [(7, -2.0, 2.0, False), (6, 1.0, 1.5, True)]
    sine_checks(sine_cases)
    spin_checks()
    electron_checks()
    copy_checks(omegas)
    ti1d_shifted_checks()
    tree_aux_checks()
    holstein_checks(rng, 40 if thorough else 12)
    spinboson_checks(rng, 20 if thorough else 6)
    ti1d_checks(rng, 40 if thorough else 12)
    out = {"checks": checks, "nfail": nfail, "fails": [{"cls": k, "detail": v} for k, v in fails.items()], "omegas": omegas}
    print("RESULT " + json.dumps(out, default=lambda o: o.tolist() if hasattr(o, "tolist") else str(o)))


main()
