"""C16 correspondence for the model builders, implementation side: dump ham_terms / basis of the packaged models.

stdin : {"holstein": [{"mols": [{"e":..,"phs":[{"w0","w1","d","nb"}]}], "jmode": "const"|"matrix", "J": float|matrix,
                       "periodic": bool, "scheme": int}], "spinboson": [...], "ti1d": [...], "heisenberg": [n..],
         "jmatrix": [[n, periodic, J]..]}
stdout: RESULT {...}   terms as [symbol, [dof...], factor], dofs as nested lists
"""
import json
import sys
import warnings

import numpy as np

warnings.filterwarnings("ignore")
from renormalizer.model import basis as B
from renormalizer.model import Op, HolsteinModel, SpinBosonModel, TI1DModel, Mol, Phonon
from renormalizer.model import model as model_mod
from renormalizer.utils import Quantity


def jd(x):
    if isinstance(x, tuple):
        return [jd(y) for y in x]
    if isinstance(x, (np.integer,)):
        return int(x)
    return x


def terms(model):
    out = []
    for t in model.ham_terms:
        f = t.factor
        out.append([t.symbol, [jd(d) for d in t.dofs], [float(np.real(f)), float(np.imag(f))]])
    return out


def sites(model):
    out = []
    for b in model.basis:
        rec = {"cls": type(b).__name__, "dofs": [jd(d) for d in b.dofs], "nbas": int(b.nbas)}
        if isinstance(b, B.BasisSHO):
            rec["omega"] = float(b.omega)
        out.append(rec)
    return out


def main():
    pl = json.load(sys.stdin)
    out = {"holstein": [], "spinboson": [], "ti1d": [], "heisenberg": [], "jmatrix": []}
    for c in pl["holstein"]:
        mol_list = [Mol(Quantity(m["e"]), [Phonon([Quantity(p["w0"]), Quantity(p["w1"])], [Quantity(0), Quantity(p["d"])], p["nb"]) for p in m["phs"]])
                    for m in c["mols"]]
        j = Quantity(c["J"]) if c["jmode"] == "const" else np.array(c["J"], dtype=float)
        try:
            m = HolsteinModel(mol_list, j, scheme=c["scheme"], periodic=c["periodic"])
            out["holstein"].append({"terms": terms(m), "sites": sites(m), "j_matrix": np.asarray(m.j_matrix).tolist()})
        except Exception as e:
            out["holstein"].append({"exception": repr(e)})
    for c in pl["spinboson"]:
        ph_list = [Phonon.simple_phonon(Quantity(p["w"]), Quantity(p["d"]), p["nb"]) for p in c["phs"]]
        try:
            m = SpinBosonModel(Quantity(c["eps"]), Quantity(c["delta"]), ph_list)
            out["spinboson"].append({"terms": terms(m), "sites": sites(m)})
        except Exception as e:
            out["spinboson"].append({"exception": repr(e)})
    for c in pl["ti1d"]:
        names = ["d%d" % k for k in range(c["ndof"])]
        basis = [B.BasisHalfSpin(nm) for nm in names]
        # the factor k+1 identifies the k-th input term (local terms first)
        loc = [Op(" ".join(["sigma_x"] * len(ds)), [names[d] for d in ds] if len(ds) > 1 else names[ds[0]], float(k + 1)) for k, ds in enumerate(c["local"])]
        non = [Op(" ".join(["sigma_z"] * len(ds)), [(off, names[d]) for off, d in ds], float(len(loc) + k + 1)) for k, ds in enumerate(c["nonlocal"])]
        try:
            m = TI1DModel(basis, loc, non, c["ncell"])
            rec = []
            for t in m.ham_terms:
                rec.append([int(round(float(t.factor))) - 1, [[int(d[0][4:]), names.index(d[1])] for d in t.dofs], t.symbol])
            out["ti1d"].append({"terms": rec, "site_dofs": [jd(b.dofs[0]) for b in m.basis]})
        except Exception as e:
            out["ti1d"].append({"exception": repr(e)})
    for n in pl["heisenberg"]:
        out["heisenberg"].append([[t.symbol, [jd(d) for d in t.dofs], float(t.factor)] for t in model_mod.heisenberg_ops(n)])
    for n, periodic, J in pl["jmatrix"]:
        out["jmatrix"].append(np.asarray(model_mod.construct_j_matrix(n, Quantity(J), periodic)).tolist())
    print("RESULT " + json.dumps(out))


main()
