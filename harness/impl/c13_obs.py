"""C13 observation harness (runs under /venv/bin/python against the repo on PYTHONPATH).

stdin : {"seed": int, "out": path|absent, "programs": [{"world": "chain"|"tree", "id": str, "steps": [step, ...]}, ...]}
        step = {"op": str, "code": str, "args": [names], "res": name|null, "target": name|null}
stdout: RESULT {"programs": [{"id":..., "steps": [observation...], "error": str|null}]}

Every step's `code` is a python statement executed in the world namespace (see WORLD_SRC: the same text is
the preamble of a replay).  Around each statement every live object is snapshotted:
  * dense value = own NumPy contraction of the raw site buffers (no library call) times the prefactor,
  * per slot: the buffer object (identity), a byte copy of its contents,
  * identity of configuration sub-objects.
The observation of a step lists: which non-target objects changed their dense value (> tol), which slots of
which objects were rebound / had their buffer contents modified, which result buffers share memory with which
buffers of which live objects, which configuration objects the result shares.
"""
import json
import sys
import traceback

WORLD_SRC = r'''
import numpy as np
from renormalizer import Model, Mps, Mpo, Op, BasisHalfSpin, BasisSHO, BasisSimpleElectron
from renormalizer.mps import MpDm
from renormalizer.mps.lib import compressed_sum
from renormalizer.mps.mps import expand_bond_dimension_general
from renormalizer.model import HolsteinModel, Mol, Phonon
from renormalizer.utils import EvolveConfig, EvolveMethod, CompressConfig, CompressCriteria, Quantity
def c13_reload(obj, cls, first):
    """checkpoint / restart: dump to a temporary file and load again"""
    import os, tempfile
    d_ = tempfile.mkdtemp(prefix="c13_dump_")
    f_ = os.path.join(d_, "x.npz")
    obj.dump(f_)
    new = cls.load(first, f_)
    os.remove(f_)
    os.rmdir(d_)
    return new
def chain_world(seed):
    np.random.seed(seed)
    ph = [Phonon.simple_phonon(Quantity(1.0), Quantity(0.7), 3)]
    mols = [Mol(Quantity(0.2 * i), ph) for i in range(2)]
    model = HolsteinModel(mols, Quantity(0.35))
    ns = {"model": model}
    ns["h0"] = Mpo(model)
    ns["h1"] = Mpo(model, offset=Quantity(0.37))
    ns["o1"] = Mpo(model, Op(r"a^\dagger a", 0))
    ns["o2"] = Mpo(model, Op(r"b^\dagger b", (1, 0)))
    def fresh_mps(m, coeff, cplx, tnorm):
        # UN-NORMALISED tensors (norm tnorm) and NON-UNIT prefactors: several in-place slips are no-ops on
        # normalised states with prefactor 1
        s = Mps.random(model, 1, m, percent=1.0)
        s = s.canonicalise().canonicalise()
        s[s.qnidx] = s[s.qnidx].array * tnorm
        if cplx:
            s = s.to_complex()
            for i in range(len(s)):          # element-wise phases: genuinely complex amplitudes (zero pattern kept)
                s[i] = s[i].array * np.exp(1j * np.random.rand(*s[i].shape))
            s = s.canonicalise().canonicalise()
        s.coeff = coeff
        s.compress_config = CompressConfig(CompressCriteria.fixed, max_bonddim=3)
        s.evolve_config = EvolveConfig(EvolveMethod.tdvp_ps)
        return s
    ns["a"] = fresh_mps(4, 0.5, False, 3.0)
    ns["b"] = fresh_mps(3, -1.7, False, 0.6)
    ns["c"] = fresh_mps(4, 0.6 - 0.3j, True, 2.0)
    # provenance dump -> load: attributes come back as arrays / other containers (qn as one ndarray, ...)
    ns["al"] = c13_reload(fresh_mps(3, 0.9, False, 1.4), Mps, model)
    ns["al"].compress_config = CompressConfig(CompressCriteria.fixed, max_bonddim=3)
    ns["al"].evolve_config = EvolveConfig(EvolveMethod.tdvp_ps)
    ns["o3"] = Mpo(model, Op(r"a^\dagger a", [0, 1]))          # non-Hermitian (one-way hopping): complex branches
    d = MpDm.max_entangled_ex(model)
    d[d.qnidx] = d[d.qnidx].array * 1.5
    d.coeff = 0.7
    d.compress_config = CompressConfig(CompressCriteria.fixed, max_bonddim=4)
    d.evolve_config = EvolveConfig(EvolveMethod.tdvp_ps)
    ns["d"] = d
    return ns
def tree_world(seed):
    from renormalizer.tn import TTNS, TTNO, BasisTree
    np.random.seed(seed)
    basis = [BasisSimpleElectron("e0"), BasisSHO("v0", omega=1.0, nbas=3), BasisSimpleElectron("e1"), BasisSHO("v1", omega=1.3, nbas=3)]
    terms = [Op(r"a^\dagger a", "e0", 0.3), Op(r"a^\dagger a", "e1", 0.7), Op(r"a^\dagger a", ["e0", "e1"], 0.2),
             Op(r"a^\dagger a", ["e1", "e0"], 0.2), Op(r"b^\dagger b", "v0", 1.0), Op(r"b^\dagger b", "v1", 1.3),
             Op(r"a^\dagger a x", ["e0", "e0", "v0"], 0.4), Op(r"a^\dagger a x", ["e1", "e1", "v1"], 0.5)]
    tree = BasisTree.binary(basis)
    ns = {"basis_tree": tree}
    ns["h0"] = TTNO(tree, terms)
    ns["o1"] = TTNO(tree, [Op(r"a^\dagger a", "e0")])
    def fresh(m, coeff, cplx, tnorm):
        s = TTNS.random(tree, 1, m)
        s.canonicalise()
        s.root.tensor = s.root.tensor * tnorm
        if cplx:
            s = s.to_complex()
            for nd in s.node_list:           # element-wise phases: genuinely complex amplitudes (zero pattern kept)
                nd.tensor = nd.tensor * np.exp(1j * np.random.rand(*nd.tensor.shape))
            s.canonicalise()
        s.coeff = coeff
        s.compress_config = CompressConfig(CompressCriteria.fixed, max_bonddim=3)
        return s
    ns["a"] = fresh(4, 0.5, False, 3.0)
    ns["b"] = fresh(3, -1.7, False, 0.6)
    ns["c"] = fresh(4, 0.6 - 0.3j, True, 2.0)
    # provenance dump -> load: the prefactor comes back as a 0-d ndarray that metacopy hands on to every derived state
    ns["al"] = c13_reload(fresh(3, 2.5, False, 1.0), TTNS, tree)
    ns["al"].compress_config = CompressConfig(CompressCriteria.fixed, max_bonddim=3)
    ns["cl"] = c13_reload(fresh(3, 0.4 + 0.2j, True, 1.5), TTNS, tree)
    ns["cl"].compress_config = CompressConfig(CompressCriteria.fixed, max_bonddim=3)
    ns["o2"] = TTNO(tree, [Op(r"a^\dagger a", ["e0", "e1"], 0.7)])     # non-Hermitian: complex expectation values
    ns["TTNS"] = TTNS
    return ns
'''

DENSE_SRC = r'''
def c13_dense(o):
    """tensors x prefactor from the raw buffers (no library method is called)"""
    import numpy as np
    coeff = getattr(o, "coeff", 1)
    if hasattr(o, "_mp"):
        res = None
        for mt in o._mp:
            arr = np.asarray(mt.array)
            res = arr if res is None else np.tensordot(res, arr, axes=1)
        return np.asarray(res) * coeff
    def rec(node):
        t = np.asarray(node.tensor)
        k = len(node.children)
        nphys = t.ndim - k - 1
        for i in reversed(range(k)):
            t = np.tensordot(t, rec(node.children[i]), axes=([i], [-1]))
        # axes now: own physical, parent, then the physical axes of the subtrees
        return np.moveaxis(t, nphys, -1)
    return np.asarray(rec(o.root)) * coeff
def c13_scale(o):
    """backward-error scale of the representation: |prefactor| x product of the Frobenius norms of the tensors (an
    upper bound of the norm of the dense object; gauge changes are exact only up to rounding relative to THIS)"""
    import numpy as np
    ts = [np.asarray(mt.array) for mt in o._mp] if hasattr(o, "_mp") else [np.asarray(n.tensor) for n in o.node_list]
    sc = abs(getattr(o, "coeff", 1))
    for t in ts:
        sc = sc * float(np.linalg.norm(t.ravel()))
    return float(sc)
'''

exec(DENSE_SRC)

TOL = 1e-12
STEP_LIMIT = 15          # seconds per executed statement (adaptive schemes may reject steps for ever on a poked state)


def is_obj(v):
    return hasattr(v, "_mp") or (hasattr(v, "root") and hasattr(v, "node_list") and hasattr(v.root, "tensor"))


def slots(o):
    """[(field, key, buffer)] ; buffer = ndarray or immutable python value"""
    import numpy as np
    out = []
    if hasattr(o, "_mp"):
        for i, mt in enumerate(o._mp):
            out.append(("site", "mp%d" % i, None if mt is None else (mt.array if hasattr(mt, "array") else mt)))
        qn = o.qn if o.qn is not None else []
        for i, q in enumerate(qn):
            out.append(("label", "qn%d" % i, q))
        out.append(("qntot", "qntot", o.qntot))
        if hasattr(o, "coeff"):
            out.append(("coeff", "coeff", o.coeff))
        out.append(("meta", "qnidx", o.qnidx))
        out.append(("meta", "to_right", o.to_right))
        out.append(("meta", "dtype", str(o.dtype)))
    else:
        for i, nd in enumerate(o.node_list):
            out.append(("site", "t%d" % i, nd.tensor))
            out.append(("label", "qn%d" % i, nd.qn))
        if hasattr(o, "coeff"):
            out.append(("coeff", "coeff", o.coeff))
        # topology: parent / children of every node (the root's parent must stay None)
        idx = {id(nd): i for i, nd in enumerate(o.node_list)}
        for i, nd in enumerate(o.node_list):
            par = "None" if nd.parent is None else str(idx.get(id(nd.parent), "FOREIGN"))
            out.append(("meta", "link%d" % i, par + "|" + ",".join(str(idx.get(id(c), "FOREIGN")) for c in nd.children)))
    for a in ("model", "basis"):
        if hasattr(o, a):
            out.append(("meta", a + "_id", "id%d" % id(getattr(o, a))))
    return out


CFG = ["compress_config", "evolve_config", "optimize_config", "model", "basis"]


def snapshot(o):
    import numpy as np
    sl = slots(o)
    snap = {"slots": [], "dense": None, "dense_err": None, "cfg": {a: id(getattr(o, a)) for a in CFG if hasattr(o, a)}}
    for f, k, b in sl:
        if isinstance(b, np.ndarray):
            snap["slots"].append((f, k, b, b.tobytes(), b.dtype.str, b.shape))
        else:
            snap["slots"].append((f, k, b, repr(b), None, None))
    try:
        snap["dense"] = np.array(c13_dense(o), dtype=complex)
        snap["scale"] = c13_scale(o)
        snap["usable"] = usable(o) is None
    except Exception as e:          # an object whose sites are not filled yet
        snap["dense_err"] = repr(e)[:100]
    return snap


def usable(o):
    """USABILITY probe: the library's own todense() of the object, and of a copy, must work (None) -- else the error"""
    import warnings
    try:
        with warnings.catch_warnings():
            warnings.simplefilter("ignore")
            o.todense()
            if hasattr(o, "copy") and not type(o).__name__.endswith("TTNO"):
                o.copy().todense()
        return None
    except Exception as e:
        return (type(e).__name__ + ": " + str(e))[:120]


def same_value(x, y, scale=1.0):
    """1e-12 relative to max(1, |x|_max, representation scale): rounding of a gauge change / fold is relative to the
    product of the tensor norms, which exceeds the dense norm when the represented vector is a near-cancelling sum"""
    import numpy as np
    if x is None or y is None:
        return x is None and y is None
    if x.shape != y.shape:
        return False
    sc = max(1.0, float(np.abs(x).max()) if x.size else 1.0, float(scale or 1.0))
    return bool(np.abs(x - y).max() <= TOL * sc) if x.size else True


def diff_obj(before, o):
    """fields of o whose slots were rebound or whose buffers were modified in place, relative to `before`"""
    import numpy as np
    now = slots(o)
    rebound, modified = set(), set()
    bmap = {k: (f, b, raw, dt, sh) for f, k, b, raw, dt, sh in before["slots"]}
    nkeys = set()
    for f, k, b in now:
        nkeys.add(k)
        if k not in bmap:
            rebound.add(f)
            continue
        f0, b0, raw0, dt0, sh0 = bmap[k]
        if isinstance(b0, np.ndarray):
            if b is not b0:
                # Matrix.astype may replace mt.array by an equal view: identity of the memory decides
                if not (isinstance(b, np.ndarray) and b.shape == b0.shape and b.dtype == b0.dtype
                        and b.__array_interface__["data"][0] == b0.__array_interface__["data"][0]):
                    rebound.add(f)
            if b0.tobytes() != raw0 or b0.dtype.str != dt0:
                modified.add(f)
        else:
            if repr(b) != raw0:
                rebound.add(f)
    for k in bmap:
        if k not in nkeys:
            rebound.add(bmap[k][0])
    # buffers still held before whose bytes changed although the slot was rebound
    return sorted(rebound), sorted(modified)


def shares(res, others):
    """[(res_field, other_name, other_field, res_slot)] for every pair of array buffers that share memory"""
    import numpy as np
    out = set()
    rs = [(f, k, b) for f, k, b in slots(res) if isinstance(b, np.ndarray)]
    for name, o in others.items():
        for f2, k2, b2 in slots(o):
            if not isinstance(b2, np.ndarray):
                continue
            for f, k, b in rs:
                if b is b2 or np.shares_memory(b, b2):
                    out.add((f, name, f2, k))
    return sorted(out)


def run_program(prog, seed):
    import numpy as np
    ns = {}
    exec(WORLD_SRC, ns)
    world = ns["chain_world" if prog["world"] == "chain" else "tree_world"](seed)
    ns.update(world)
    obs = []
    for st in prog["steps"]:
        live = {k: v for k, v in ns.items() if is_obj(v) and not k.startswith("_")}
        before = {k: snapshot(v) for k, v in live.items()}
        ids_before = {k: id(v) for k, v in live.items()}
        ob = {"op": st["op"], "raised": None}
        np.random.seed((seed * 7919 + len(obs) * 104729) % (2 ** 31))
        import time as _time, signal as _signal
        _t0 = _time.time()
        def _alarm(signum, frame):
            raise TimeoutError("step exceeded %d s" % STEP_LIMIT)
        _signal.signal(_signal.SIGALRM, _alarm)
        _signal.alarm(STEP_LIMIT)
        try:
            exec(st["code"], ns)
        except Exception as e:
            ob["raised"] = (type(e).__name__ + ": " + str(e))[:200]
        finally:
            _signal.alarm(0)
        ob["t"] = round(_time.time() - _t0, 3)
        tgt = st.get("target")
        args = [a for a in st.get("args", []) if a != tgt]
        val_changed, arg_rw, by_rw, tgt_w = [], {}, {}, []
        for k, o in live.items():
            if ns.get(k) is not o:
                continue                       # the name was rebound by the step (only result names are)
            after_dense = None
            try:
                after_dense = np.array(c13_dense(o), dtype=complex)
            except Exception:
                pass
            changed = not same_value(before[k]["dense"], after_dense, before[k].get("scale", 1.0))
            rb, md = diff_obj(before[k], o)
            fields = sorted(set(rb) | set(md))
            if k == tgt:
                tgt_w = fields
                ob["target_value_changed"] = changed
                ob["target_modified_in_place"] = md
                continue
            if changed:
                err = None
                if before[k]["dense"] is not None and after_dense is not None and before[k]["dense"].shape == after_dense.shape:
                    err = float(np.abs(before[k]["dense"] - after_dense).max())
                val_changed.append({"name": k, "max_abs_diff": err})
            if fields:
                (arg_rw if k in args else by_rw)[k] = {"rebound": rb, "modified": md}
        # usability of every live object afterwards (todense of the object and of a copy), if it was usable before
        unusable = []
        for k, o in live.items():
            if ns.get(k) is o and before[k].get("usable"):
                err = usable(o)
                if err is not None:
                    unusable.append({"name": k, "error": err})
        ob["unusable"] = unusable
        ob["value_changed"] = val_changed
        ob["arg_rewritten"] = arg_rw
        ob["bystander_rewritten"] = by_rw
        ob["target_written"] = tgt_w
        res = st.get("res")
        ob["result_shares"] = []
        ob["cfg_shared"] = []
        if res and ob["raised"] is None and is_obj(ns.get(res)):
            r = ns[res]
            others = {k: v for k, v in ns.items() if is_obj(v) and v is not r and not k.startswith("_")}
            ob["result_shares"] = shares(r, others)
            for a in CFG:
                if hasattr(r, a):
                    for k, v in others.items():
                        if hasattr(v, a) and getattr(v, a) is getattr(r, a):
                            ob["cfg_shared"].append([a, k])
            ob["result_is_input"] = [k for k, v in ns.items() if k != res and not k.startswith("_") and v is r]
            ob["result_kind"] = type(r).__name__
            ob["result_complex"] = bool(np.iscomplexobj(c13_dense(r))) if snapshot(r)["dense"] is not None else None
        obs.append(ob)
    return obs


def main():
    import warnings
    warnings.simplefilter("ignore")
    payload = json.load(sys.stdin)
    out = []
    for prog in payload["programs"]:
        try:
            o = run_program(prog, int(payload.get("seed", 0)) + int(prog.get("seed", 0)))
            out.append({"id": prog["id"], "steps": o, "error": None})
        except Exception:
            out.append({"id": prog["id"], "steps": [], "error": traceback.format_exc()[-1500:]})
    # the result can exceed the pipe buffer (the parent reads only after exit): hand it over through a file
    if payload.get("out"):
        with open(payload["out"], "w") as f:
            json.dump(out, f)
        print("RESULT " + json.dumps({"file": payload["out"], "programs": len(out)}))
    else:
        print("RESULT " + json.dumps(out))


if __name__ == "__main__":
    main()
