"""C04 (variational clause, observed only): mps.variational_compress(mpo) vs dense(mpo @ mps) with a bond
limit not below the exact bounds.  stdin {"specs":[[i,spec],...]}; spec as in c04_gen (kind "mps")."""
import json
import random
import sys
import traceback

import renormalizer  # noqa: F401
import numpy as np

from renormalizer.mps import Mpo
from renormalizer.utils import CompressConfig, CompressCriteria

import c04_gen as G


def one(spec):
    rng = random.Random(spec["seed"] + 7)
    model, mps = G.build(spec)
    basis = model.basis
    terms = G.make_terms(rng, basis, spec["qn"], rng.randint(1, 3), False, bool(spec.get("complex")))
    mpo = Mpo(model, terms)
    ref_mp = mpo.apply(mps)
    ref = G.dense(ref_mp)
    if np.linalg.norm(ref) < 1e-8:
        return None
    bound = max(G.exact_bounds(mps))
    res = {}
    for method in ("2site", "1site"):
        x = mps.copy()
        x.compress_config = CompressConfig(CompressCriteria.fixed, max_bonddim=bound, vmethod=method, vrtol=1e-10)
        y = x.variational_compress(mpo)
        res[method] = float(np.linalg.norm(G.dense(y) - ref) / np.linalg.norm(ref))
        res[method + "_dims_ok"] = bool(all(int(d) <= bound for d in y.bond_dims))
    return res


def main():
    payload = json.load(sys.stdin)
    out = {"cases": [], "errors": []}
    for ci, spec in payload["specs"]:
        try:
            r = one(spec)
            if r is not None:
                out["cases"].append({"case": ci, "spec": spec, "res": r})
        except G.GenFail:
            pass
        except Exception as e:
            out["errors"].append({"case": ci, "spec": spec, "exc": repr(e), "tb": traceback.format_exc(limit=5)[-800:]})
    path = payload.get("out")
    if path:
        json.dump(out, open(path, "w"))
        print("RESULT " + json.dumps({"file": path}))
    else:
        print("RESULT " + json.dumps(out))


def replay(spec, tol):
    r = one(spec)
    print(r)
    return 1 if r and max(r["2site"], r["1site"]) > tol else 0


if __name__ == "__main__":
    main()
