"""C04 (variational clause, observed only): mps.variational_compress(mpo) vs dense(mpo @ mps) with a bond
limit not below the exact bounds.  stdin {"specs":[[i,spec],...]}; spec as in c04_gen (kind "mps")."""
import json
import random
import sys
import traceback

import renormalizer  # noqa: F401
import numpy as np

from renormalizer.mps import Mpo
from renormalizer.utils import CompressConfig, CompressCriteria

import c04_gen as G


def one(spec):
    rng = random.Random(spec["seed"] + 7)
    model, mps = G.build(spec)
    basis = model.basis
    terms = G.make_terms(rng, basis, spec["qn"], rng.randint(1, 3), False, bool(spec.get("complex")))
    mpo = Mpo(model, terms)
    if spec.get("scale"):              # SCALE stream: the norm of the state / operator moved into the tensors
        mps = mps.scale(spec["scale"][0])
        mpo = mpo.scale(spec["scale"][1])
    ref_mp = mpo.apply(mps)
    ref = G.dense(ref_mp)
    if not np.linalg.norm(ref) > 1e-8 * np.linalg.norm(G.dense(mpo)) * np.linalg.norm(G.dense(mps)) / np.sqrt(len(ref)):
        return None                    # (numerically) annihilated state: relative comparison ill-conditioned
    bound = max(G.exact_bounds(mps))
    res = {}
    for method in ("2site", "1site"):
        x = mps.copy()
        x.compress_config = CompressConfig(CompressCriteria.fixed, max_bonddim=bound, vmethod=method, vrtol=1e-10)
        if spec.get("fault") is not None:
            # FAULT stream: every site tensor is spilled to disk and numpy.save fails from the k-th call on
            import errno, shutil, tempfile
            from unittest import mock
            dump_dir = tempfile.mkdtemp(prefix="c04_vfault_")
            calls = {"n": 0}
            real_save = np.save

            def flaky(fname, arr, *a, **kw):
                calls["n"] += 1
                if calls["n"] > spec["fault"]:
                    raise OSError(errno.ENOSPC, "No space left on device (simulated)")
                return real_save(fname, arr, *a, **kw)
            x.compress_config = CompressConfig(CompressCriteria.fixed, max_bonddim=bound, vmethod=method, vrtol=1e-10,
                                               dump_matrix_size=1, dump_matrix_dir=dump_dir)
            try:
                with mock.patch("numpy.save", side_effect=flaky):
                    y = x.variational_compress(mpo)
                    res[method] = float(np.linalg.norm(G.dense(y) - ref) / np.linalg.norm(ref))
                    res[method + "_dims_ok"] = bool(all(int(d) <= bound for d in y.bond_dims))
            finally:
                y = None
                shutil.rmtree(dump_dir, ignore_errors=True)
            continue
        y = x.variational_compress(mpo)
        res[method] = float(np.linalg.norm(G.dense(y) - ref) / np.linalg.norm(ref))
        res[method + "_dims_ok"] = bool(all(int(d) <= bound for d in y.bond_dims))
    return res


# ---------------------------------------------------------------------------------------------------
# hard cases: zero-percent sweeps from the start, an explicit low-dimensional start guess (bond dimension
# 1 or 2, which can grow by at most the local physical dimension per sweep), long chains.  The routine
# must really iterate to convergence; a vacuous convergence test stops after the second sweep.
def dense_operator(mpo):
    res = np.ones((1, 1, 1), dtype=complex)
    for mt in mpo:
        a = np.asarray(mt.array)
        res = np.einsum("xyl,ludr->xuydr", res, a)
        res = res.reshape(res.shape[0] * res.shape[1], res.shape[2] * res.shape[3], res.shape[4])
    return res[:, :, 0]


def dense_state(mps):
    res = np.ones((1, 1), dtype=complex)
    for mt in mps:
        a = np.asarray(mt.array)
        res = np.tensordot(res, a, axes=1).reshape(-1, a.shape[-1])
    return res[:, 0] * getattr(mps, "coeff", 1)


def hard_model(chain, n, rng):
    from renormalizer.model import Model, Op
    from renormalizer.model.basis import BasisHalfSpin, BasisSimpleElectron
    terms = []
    if chain == "spin":                       # no symmetry
        for i in range(n - 1):
            terms.append(Op("sigma_x sigma_x", [i, i + 1], round(rng.uniform(0.2, 0.8), 3)))
            terms.append(Op("sigma_z sigma_x", [i, i + 1], round(rng.uniform(0.1, 0.4), 3)))
        for i in range(n):
            terms.append(Op("sigma_z", i, round(rng.uniform(0.1, 1.0), 3)))
        return Model([BasisHalfSpin(i) for i in range(n)], terms), 0
    for i in range(n - 1):                    # particle-number conserving hopping chain
        t = round(rng.uniform(0.2, 0.8), 3)
        terms.append(Op(r"a^\dagger a", [i, i + 1], t))
        terms.append(Op(r"a^\dagger a", [i + 1, i], t))
    for i in range(n):
        terms.append(Op(r"a^\dagger a", [i, i], round(rng.uniform(0.1, 1.0), 3)))
    return Model([BasisSimpleElectron(i) for i in range(n)], terms), n // 2


def one_hard(spec):
    """spec: {"hard":1,"seed","chain":"spin"|"hop","nsite","method","guess_m","mrule":"rank"|"full","nsweep"}"""
    from renormalizer.mps import Mps
    rng = random.Random(spec["seed"])
    np.random.seed(spec["seed"] % (2 ** 32 - 1))
    n = spec["nsite"]
    model, q = hard_model(spec["chain"], n, rng)
    mpo = Mpo(model)
    try:
        with np.errstate(all="raise"):
            mps = Mps.random(model, q, 3, percent=1.0)
            guess = Mps.random(model, q, spec["guess_m"], percent=1.0)
    except (FloatingPointError, ZeroDivisionError):
        raise G.GenFail("Mps.random")
    ref = dense_operator(mpo) @ dense_state(mps)
    if not np.linalg.norm(ref) > 1e-8 * np.linalg.norm(dense_operator(mpo)) * np.linalg.norm(dense_state(mps)) / 2 ** (n / 2):
        raise G.GenFail("zero product")
    ranks = []
    for i in range(1, n):
        sv = np.linalg.svd(ref.reshape(2 ** i, -1), compute_uv=False)
        ranks.append(int((sv > 1e-11 * sv[0]).sum()))
    M = max(ranks) if spec["mrule"] == "rank" else 2 ** (n // 2)
    vrtol = spec.get("vrtol", 1e-10)

    def run(state, g):
        g = g.copy()
        g.compress_config = CompressConfig(CompressCriteria.fixed, max_bonddim=M, vmethod=spec["method"],
                                           vprocedure=[[M, 0]] * spec.get("nsweep", 30), vrtol=vrtol)
        return state.variational_compress(mpo, guess=g)
    res = {"M": M, "ranks": ranks}
    if spec.get("scale"):
        # SCALE stream: the same problem with the state multiplied by c (the result has norm ~ |c|); the stopping
        # test must not depend on it: result = c * dense(mpo @ psi) relatively, and = c * result(psi) (homogeneity)
        cval = spec["scale"]
        out1 = run(mps, guess)
        outc = run(mps.scale(cval), guess)
        e_c = float(np.linalg.norm(dense_state(outc) - cval * ref) / np.linalg.norm(cval * ref))
        e_h = float(np.linalg.norm(dense_state(outc) - cval * dense_state(out1)) / np.linalg.norm(cval * dense_state(out1)))
        res.update({"err": max(e_c, e_h), "err_dense": e_c, "err_homogeneity": e_h, "err_unscaled": float(np.linalg.norm(dense_state(out1) - ref) / np.linalg.norm(ref)),
                    "dims": [int(x) for x in outc.bond_dims]})
        return res
    out = run(mps, guess)
    res.update({"err": float(np.linalg.norm(dense_state(out) - ref) / np.linalg.norm(ref)), "dims": [int(x) for x in out.bond_dims]})
    return res


def main():
    payload = json.load(sys.stdin)
    out = {"cases": [], "errors": []}
    for ci, spec in payload["specs"]:
        try:
            if spec.get("hard"):
                try:
                    res = one_hard(spec)
                except G.GenFail:
                    continue
                except Exception as e:
                    if spec["chain"] != "hop":
                        raise
                    res = {"err": 1e9, "exc": repr(e)[:200]}      # measured-only class: recorded, not demanded
                out.setdefault("hard", []).append({"case": ci, "spec": spec, "res": res})
                continue
            r = one(spec)
            if r is not None:
                out["cases"].append({"case": ci, "spec": spec, "res": r})
        except G.GenFail:
            pass
        except Exception as e:
            out["errors"].append({"case": ci, "spec": spec, "exc": repr(e), "tb": traceback.format_exc(limit=5)[-800:]})
    path = payload.get("out")
    if path:
        json.dump(out, open(path, "w"))
        print("RESULT " + json.dumps({"file": path}))
    else:
        print("RESULT " + json.dumps(out))


def replay(spec, tol):
    if spec.get("hard"):
        r = one_hard(spec)
        print(r)
        return 1 if r["err"] > tol else 0
    r = one(spec)
    print(r)
    return 1 if r and max(r["2site"], r["1site"]) > tol else 0


if __name__ == "__main__":
    main()
