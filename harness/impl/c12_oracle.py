"""C12 dense oracle (failing-input search): every tree evolution scheme against scipy.linalg.expm.

payload: {"seed": s, "cases": [case, ...]};  case["kind"] in
  "exact"  all requested schemes with sufficient bond dimension vs the dense propagator (steps over a decade,
           real / imaginary time, multi-step history, sector, input unchanged, tdrk4 = Taylor polynomial)
  "small"  one-site projector splitting at SMALL bond dimension: norm and energy drift, sector; sector for ps2 / pc
  "chain"  linear tree vs the Mps chain implementation, same scheme and step
  "aux"    purified state (auxiliary space): propagator acts on the physical space only
Each case returns {"fails": [...], "stats": {...}}; a failure is a dict with the numbers that broke a bound.
"""
import json
import sys
import warnings

import c12_lib as L   # imports renormalizer before numpy
import numpy as np
import scipy.linalg

warnings.filterwarnings("ignore")

TOL_EXACT = {"ps": 1e-7, "ps2": 1e-7, "vmf": 5e-7}   # local Krylov kernel stops at allclose(rtol 1e-5, atol 1e-8); ODE tolerances 1e-10/1e-12
TOL_INPUT = 0.0
TOL_SECTOR = 1e-9
TOL_DRIFT = 1e-8
TOL_CHAIN = 1e-7
TOL_POLY = 1e-9


def number_mask(order, qntot):
    """boolean mask over the dense basis: True where the total quantum number equals qntot"""
    qn = np.zeros((1,), dtype=int)
    for b in order:
        s = np.asarray(b.sigmaqn).reshape(len(b.sigmaqn), -1)[:, 0]
        qn = np.add.outer(qn, s).reshape(-1)
    return qn == int(qntot)


def tau_of(step, imag):
    return -1j * step if imag else float(step)


def snapshot(ttns):
    return [np.array(n.tensor, copy=True) for n in ttns.node_list], [np.array(n.qn, copy=True) for n in ttns.node_list], ttns.coeff


def same_as(ttns, snap):
    ts, qs, c = snap
    if ttns.coeff != c:
        return False
    for n, t, q in zip(ttns.node_list, ts, qs):
        if n.tensor.shape != t.shape or not np.array_equal(n.tensor, t) or not np.array_equal(n.qn, q):
            return False
    return True


def setup(case, rng, m):
    bt, order = L.build_basis(case["tree"])
    ttno = L.TTNO(bt, L.build_terms(case["terms"]))
    H = np.asarray(ttno.todense(order))
    np.random.seed(int(rng.integers(0, 2**31 - 1)))
    ttns = L.random_state(bt, case.get("qntot", 0), m)
    return bt, order, ttno, H, ttns


def check_exact(case, rng):
    fails, stats = [], {"errs": {}}
    bt, order, ttno, H, ttns = setup(case, rng, 256)
    psi0 = L.dense(ttns, order)
    hn = float(np.linalg.norm(H, 2))
    mask = number_mask(order, case.get("qntot", 0)) if case.get("sector") else None
    if mask is not None and np.linalg.norm(psi0[~mask]) > 1e-12:
        fails.append({"what": "initial state outside its sector", "amp": float(np.linalg.norm(psi0[~mask]))})
    herm = float(np.linalg.norm(H - H.conj().T))
    if herm > 1e-12:
        fails.append({"what": "TTNO dense matrix not Hermitian", "dev": herm})
    for method in case["methods"]:
        for imag in case["imag"]:
            errs = []
            shrunk = False
            steps = case["steps"] if method != "vmf" else case.get("vmf_steps", case["steps"])
            for step in steps:
                t = L.config(ttns.copy(), method)
                snap = snapshot(t)
                tau = tau_of(step, imag)
                new = t.evolve(ttno, tau)
                if not same_as(t, snap):
                    fails.append({"what": "input state modified by evolve", "method": method, "imag": imag, "step": step,
                                  "moved": float(np.linalg.norm(L.dense(t, order) - psi0))})
                v = L.dense(new, order)
                ref = L.exact(H, psi0, tau)
                err = float(np.linalg.norm(v - ref))
                errs.append(err)
                if method == "pc":
                    c = (1.0 if imag else -1j) * ((-step) if imag else step)   # coeff * tau of TTNS.evolve
                    poly = np.zeros_like(ref, dtype=complex)
                    term = psi0.astype(complex)
                    for k in range(5):
                        poly = poly + term
                        term = (c / (k + 1)) * (H @ term)
                    # TTNS.evolve normalises the tensor part in both cases (the random initial state has norm 1)
                    poly = poly / np.linalg.norm(poly)
                    dev = float(np.linalg.norm(v - poly))
                    if dev > TOL_POLY:
                        fails.append({"what": "tdrk4 result differs from the 4th-order Taylor polynomial", "imag": imag,
                                      "step": step, "dev": dev})
                    x = hn * step
                    bound = 2.0 * x**5 / 120.0 * np.exp(x) + 1e-9
                    if err > bound:
                        fails.append({"what": "tdrk4 error above the Taylor remainder bound", "imag": imag, "step": step,
                                      "err": err, "bound": bound})
                elif method in ("ps", "ps2") and (list(new.bond_dims) != list(ttns.bond_dims) or case.get("second_order_only")):
                    # the QR moves shrank an over-complete bond below the subtree dimension: the one-site tangent
                    # projector is then incomplete and the scheme is second order (local error O(step^3)), not exact
                    shrunk = True
                    x = hn * step
                    if err > x**3 + 1e-8:
                        fails.append({"what": "projector-splitting scheme above its second-order error bound", "method": method,
                                      "imag": imag, "step": step, "err": err, "bound": x**3 + 1e-8})
                else:
                    if err > TOL_EXACT[method]:
                        fails.append({"what": "scheme differs from the dense propagator at sufficient bond dimension",
                                      "method": method, "imag": imag, "step": step, "err": err})
                if mask is not None:
                    amp = float(np.linalg.norm(v[~mask]))
                    if amp > TOL_SECTOR:
                        fails.append({"what": "amplitude outside the symmetry sector", "method": method, "imag": imag,
                                      "step": step, "amp": amp})
                if not imag:
                    nd = abs(float(np.linalg.norm(v)) - float(np.linalg.norm(psi0)))
                    if nd > 1e-9 and method != "pc":
                        fails.append({"what": "norm changed in real time", "method": method, "step": step, "dev": nd})
            stats["errs"]["%s/%s" % (method, "imag" if imag else "real")] = errs
            if method in ("ps", "ps2") and shrunk:
                stats["ps_shrunk"] = True
                # both schemes are symmetric compositions (C12_ps_symmetric, C12_ps2_symmetric): local error O(step^3), i.e. a
                # factor 8 on halving; demand 5.5 where the errors are well above the solver tolerance (fix 036c1e3: before it
                # the one-site scheme gave 4 on branching trees)
                for a, b, s1, s2 in zip(errs, errs[1:], steps, steps[1:]):
                    if abs(s1 / s2 - 2.0) < 1e-12 and a > 1e-7:
                        stats.setdefault("halving_ratios", {}).setdefault(method, []).append(a / max(b, 1e-300))
                    # the two-site result depends on LAPACK null-space vectors (not smooth in the step): order test for ps only;
                    # 5.5 in the asymptotic regime (step <= 0.1), 4 for the coarsest pair
                    if method == "ps" and abs(s1 / s2 - 2.0) < 1e-12 and a > 1e-6 and b > a / (5.5 if s1 <= 0.1 + 1e-12 else 4.0):
                        fails.append({"what": "projector-splitting error does not decrease with its order", "method": method,
                                      "imag": imag, "steps": [s1, s2], "errs": [a, b]})
            if method == "pc":
                # order: halving the step divides the one-step error by ~32; demand at least 8 above the rounding floor
                for a, b, s1, s2 in zip(errs, errs[1:], steps, steps[1:]):
                    if abs(s1 / s2 - 2.0) < 1e-12 and a > 1e-9 and b > a / 8.0:
                        fails.append({"what": "tdrk4 error does not decrease with its order", "imag": imag, "steps": [s1, s2],
                                      "errs": [a, b]})
            # multi-step history
            ns = int(case.get("nsteps", 0))
            if ns:
                step = steps[len(steps) // 2]
                tau = tau_of(step, imag)
                cur = L.config(ttns.copy(), method)
                ref = psi0
                worst = 0.0
                for k in range(ns):
                    snap = snapshot(cur)
                    nxt = cur.evolve(ttno, tau)
                    if not same_as(cur, snap):
                        fails.append({"what": "input state modified by evolve (history)", "method": method, "imag": imag, "k": k})
                    cur = nxt
                    ref = L.exact(H, ref, tau)
                    worst = max(worst, float(np.linalg.norm(L.dense(cur, order) - ref)))
                if method == "pc":
                    x = hn * step
                    tol = ns * (2.0 * x**5 / 120.0 * np.exp(x) + 1e-9) * (np.exp(ns * x) if imag else 1.0)
                elif method in ("ps", "ps2") and shrunk:
                    x = hn * step
                    tol = ns * (x**3 + 1e-8) * (np.exp(2 * ns * x) if imag else 1.0)
                else:
                    tol = ns * TOL_EXACT[method] * (np.exp(2 * ns * hn * step) if imag else 1.0)
                stats["errs"]["%s/%s/history" % (method, "imag" if imag else "real")] = worst
                if worst > tol:
                    fails.append({"what": "multi-step history differs from the dense propagator", "method": method,
                                  "imag": imag, "step": step, "nsteps": ns, "err": worst, "tol": tol})
                if mask is not None:
                    amp = float(np.linalg.norm(L.dense(cur, order)[~mask]))
                    if amp > TOL_SECTOR:
                        fails.append({"what": "amplitude outside the symmetry sector (history)", "method": method, "amp": amp})
    stats["bond_dims"] = [int(x) for x in ttns.bond_dims]
    stats["dim"] = int(H.shape[0])
    return fails, stats


def check_small(case, rng):
    fails, stats = [], {}
    m = int(case["m"])
    bt, order, ttno, H, ttns = setup(case, rng, m)
    psi0 = L.dense(ttns, order)
    mask = number_mask(order, case.get("qntot", 0)) if case.get("sector") else None
    step = float(case["step"])
    ns = int(case["nsteps"])
    # one-site projector splitting: norm and energy at any bond dimension (no normalisation applied)
    cur = L.config(ttns.copy(), "ps", m=m)
    n0 = float(np.linalg.norm(psi0))
    e0 = float(np.real(np.vdot(psi0, H @ psi0)))
    worst_n = worst_e = 0.0
    for k in range(ns):
        snap = snapshot(cur)
        nxt = cur.evolve(ttno, step, normalize=False)
        if not same_as(cur, snap):
            fails.append({"what": "input state modified by evolve", "method": "ps", "k": k})
        cur = nxt
        v = L.dense(cur, order)
        worst_n = max(worst_n, abs(float(np.linalg.norm(v)) - n0))
        worst_e = max(worst_e, abs(float(np.real(np.vdot(v, H @ v))) - e0))
        if mask is not None and np.linalg.norm(v[~mask]) > TOL_SECTOR:
            fails.append({"what": "amplitude outside the symmetry sector", "method": "ps", "m": m, "k": k,
                          "amp": float(np.linalg.norm(v[~mask]))})
    stats["norm_drift"], stats["energy_drift"] = worst_n, worst_e
    stats["bond_dims"] = [int(x) for x in cur.bond_dims]
    escale = max(1.0, abs(e0), float(np.linalg.norm(H, 2)))
    if worst_n > TOL_DRIFT:
        fails.append({"what": "one-site projector splitting does not conserve the norm", "m": m, "drift": worst_n})
    if worst_e > TOL_DRIFT * escale:
        fails.append({"what": "one-site projector splitting does not conserve the energy", "m": m, "drift": worst_e, "scale": escale})
    if max(cur.bond_dims) > m:
        fails.append({"what": "one-site scheme changed the bond dimension", "bond_dims": stats["bond_dims"], "m": m})
    # time reversal: on a chain the one-site step is a symmetric composition (C12_ps_symmetric_linear), so a step
    # followed by a step with -tau restores the state at ANY bond dimension; on a branching tree it is not symmetric
    # (C12_ps_symmetric_iff_linear) and the deviation is only recorded
    def is_chain(d):
        return len(d["c"]) <= 1 and all(is_chain(x) for x in d["c"])
    a = L.config(ttns.copy(), "ps", m=m).evolve(ttno, step, normalize=False)
    b = L.config(a, "ps", m=m).evolve(ttno, -step, normalize=False)
    back = float(np.linalg.norm(L.dense(b, order) - psi0))
    stats["reversal_dev"] = back
    stats["chain"] = bool(is_chain(case["tree"]))
    if stats["chain"] and back > TOL_DRIFT:
        fails.append({"what": "one-site step on a chain is not undone by the step with -tau", "m": m, "dev": back})
    # the state really is truncated (otherwise the check says nothing about 'any bond dimension')
    full = L.TTNS.random(bt, int(case.get("qntot", 0)), 256)
    stats["truncated"] = bool(sum(ttns.bond_dims) < sum(full.bond_dims))
    # sector for the truncating schemes, real and imaginary time
    if mask is not None:
        for method in ("ps2", "pc", "ps"):
            for imag in (False, True):
                cur = L.config(ttns.copy(), method, m=m)
                for k in range(2):
                    cur = cur.evolve(ttno, tau_of(step, imag))
                v = L.dense(cur, order)
                amp = float(np.linalg.norm(v[~mask]))
                if amp > TOL_SECTOR:
                    fails.append({"what": "amplitude outside the symmetry sector", "method": method, "m": m, "imag": imag, "amp": amp})
    return fails, stats


def check_chain(case, rng):
    from renormalizer.mps import Mps, Mpo
    from renormalizer.model import Model
    from renormalizer.tn.tree import from_mps
    from renormalizer.utils import EvolveConfig, EvolveMethod, CompressConfig, CompressCriteria
    fails, stats = [], {"diffs": {}}
    n = int(case["n"])
    basis = [L.make_basis_set(case["kinds"][i], i) for i in range(n)]
    model = Model(basis, L.build_terms(case["terms"]))
    mpo = Mpo(model)
    H = np.asarray(mpo.todense())
    np.random.seed(int(rng.integers(0, 2**31 - 1)))
    m = int(case["m"])
    mps0 = Mps.random(model, int(case.get("qntot", 0)), m, percent=1.0)
    mps0 = mps0.canonicalise().canonicalise()
    mps0.ensure_right_canonical()          # centre at site 0, to_right: the chain then sweeps in the tree's order
    mps0 = mps0.normalize("mps_and_coeff")
    chain_method = {"ps": EvolveMethod.tdvp_ps, "ps2": EvolveMethod.tdvp_ps2, "pc": EvolveMethod.prop_and_compress_tdrk4,
                    "vmf": EvolveMethod.tdvp_vmf}
    for method in case["methods"]:
        for imag in case["imag"]:
            for step in case["steps"]:
                tau = tau_of(step, imag)
                mps = mps0.copy()
                mps.evolve_config = EvolveConfig(chain_method[method], ivp_rtol=1e-10, ivp_atol=1e-12)
                mps.compress_config = CompressConfig(CompressCriteria.fixed, max_bonddim=m)
                a = mps.evolve(mpo, tau)
                va = np.asarray(a.todense()).ravel() * a.coeff
                _, ttns, ttno = from_mps(mps0)
                ttns.coeff = mps0.coeff
                L.config(ttns, method, m=m)
                b = ttns.evolve(ttno, tau)
                vb = np.asarray(b.todense(list(model.basis))).ravel() * b.coeff
                d = float(np.linalg.norm(va - vb))
                stats["diffs"]["%s/%s/%g" % (method, "imag" if imag else "real", step)] = d
                tol = TOL_CHAIN if method != "vmf" else 1e-6
                ref = L.exact(H, np.asarray(mps0.todense()).ravel() * mps0.coeff, tau)
                ea, eb = float(np.linalg.norm(va - ref)), float(np.linalg.norm(vb - ref))
                if method == "ps2":
                    # the two-site update keeps up to max_bonddim vectors: beyond the rank these are arbitrary LAPACK
                    # null-space vectors, so two implementations agree only within the scheme's (second) order unless
                    # both are exact; each must be within its order bound of the dense result
                    x = float(np.linalg.norm(H, 2)) * step
                    for who, e in (("chain", ea), ("tree", eb)):
                        if e > x**3 + 1e-8:
                            fails.append({"what": "two-site scheme above its second-order error bound (%s)" % who, "method": method,
                                          "imag": imag, "step": step, "err": e, "bound": x**3 + 1e-8})
                    tol = tol + ea + eb
                if d > tol:
                    fails.append({"what": "linear tree differs from the chain implementation", "method": method, "imag": imag,
                                  "step": step, "m": m, "diff": d, "chain_err": ea, "tree_err": eb})
    stats["bonds"] = [int(x) for x in mps0.bond_dims]
    return fails, stats


def check_aux(case, rng):
    fails, stats = [], {"errs": {}}
    bt, order = L.build_basis(case["tree"])
    bt2 = bt.add_auxiliary_space()
    order2 = [b for b in bt2.basis_list if not isinstance(b, L.BasisDummy)]
    ttno = L.TTNO(bt, L.build_terms(case["terms"]))
    H = np.asarray(ttno.todense(order))
    np.random.seed(int(rng.integers(0, 2**31 - 1)))
    ttns = L.TTNS.random(bt2, int(case.get("qntot", 0)), int(case.get("m", 256)))
    dims = [b.nbas for b in order2]
    pidx = [i for i, b in enumerate(order2) if not (isinstance(b.dof, tuple) and len(b.dof) == 2 and b.dof[0] == "Q")]
    qidx = [i for i in range(len(order2)) if i not in pidx]
    if [order2[i].dof for i in pidx] != [b.dof for b in order]:
        fails.append({"what": "auxiliary basis order unexpected"})
        return fails, stats
    psi0 = np.asarray(ttns.todense(order2)) * ttns.coeff

    def apply(U, psi):
        t = np.transpose(psi.reshape(dims), pidx + qidx)
        shp = t.shape
        t = (U @ t.reshape(H.shape[0], -1)).reshape(shp)
        return np.transpose(t, np.argsort(pidx + qidx))

    for method in case["methods"]:
        for imag in case["imag"]:
            step = float(case["step"])
            tau = tau_of(step, imag)
            t = L.config(ttns.copy(), method, m=case.get("m"))
            snap = snapshot(t)
            try:
                new = t.evolve(ttno, tau)
            except Exception as e:
                import traceback
                fails.append({"what": "exception on a purified state", "method": method, "imag": imag, "error": repr(e),
                              "tb": traceback.format_exc()[-900:]})
                continue
            if not same_as(t, snap):
                fails.append({"what": "input state modified by evolve (auxiliary space)", "method": method, "imag": imag})
            v = np.asarray(new.todense(order2)) * new.coeff
            if imag:
                ref = apply(scipy.linalg.expm(-step * H), psi0)
                ref = ref / np.linalg.norm(ref)
            else:
                ref = apply(scipy.linalg.expm(-1j * step * H), psi0)
            err = float(np.linalg.norm(v - ref))
            stats["errs"]["%s/%s" % (method, "imag" if imag else "real")] = err
            x = float(np.linalg.norm(H, 2)) * step
            if method == "pc":
                tol = 2.0 * x**5 / 120.0 * np.exp(x) + 1e-9
            elif method in ("ps", "ps2") and list(new.bond_dims) != list(ttns.bond_dims):
                tol = x**3 + 1e-8
            else:
                tol = TOL_EXACT[method]
            if err > tol:
                fails.append({"what": "purified state: scheme differs from the dense propagator on the physical space",
                              "method": method, "imag": imag, "err": err, "tol": tol})
    stats["bond_dims"] = [int(x) for x in ttns.bond_dims]
    return fails, stats


def check_coeff(case, rng):
    """states whose prefactor (coeff) is not 1: real time must carry it through, imaginary time normalises it"""
    fails, stats = [], {"errs": {}}
    bt, order, ttno, H, ttns0 = setup(case, rng, 256)
    hn = float(np.linalg.norm(H, 2))
    step = float(case["step"])
    for c in case["coeffs"]:
        c = complex(c[0], c[1]) if c[1] else float(c[0])
        for method in case["methods"]:
            for imag in case["imag"]:
                t = L.config(ttns0.copy(), method)
                t.coeff = c
                psi0 = L.dense(t, order)
                tau = tau_of(step, imag)
                new = t.evolve(ttno, tau)
                v = L.dense(new, order)
                ref = L.exact(H, psi0, tau)
                err = float(np.linalg.norm(v - ref))
                x = hn * step
                tol = (2.0 * x**5 / 120.0 * np.exp(x) + 1e-9) if method == "pc" else \
                      (x**3 + 1e-8 if list(new.bond_dims) != list(ttns0.bond_dims) else TOL_EXACT[method])
                tol *= max(1.0, abs(c))
                stats["errs"]["%s/%s/%r" % (method, "imag" if imag else "real", c)] = err
                if err > tol:
                    fails.append({"what": "prefactor not carried through evolve", "method": method, "imag": imag, "coeff": repr(c),
                                  "coeff_out": repr(new.coeff), "norm_in": float(np.linalg.norm(psi0)),
                                  "norm_out": float(np.linalg.norm(v)), "err": err, "tol": tol})
    return fails, stats


def check_run(case, rng):
    """the evolution of a random state with bond limit m must not raise (replay of an event-trace case that raised)"""
    fails, stats = [], {}
    bt, order = L.build_basis(case["tree"])
    ttno = L.TTNO(bt, L.build_terms(case["terms"]))
    bts = bt.add_auxiliary_space() if case.get("aux") else bt
    seeds = ([int(case["np_seed"])] if case.get("np_seed") is not None else []) + list(range(int(case.get("tries", 5))))
    for seed in seeds:
        np.random.seed(seed)
        ttns = L.random_state(bts, case.get("qntot", 0), int(case.get("m", 3)))
        L.config(ttns, case["method"], m=case.get("m", 3))
        tau = complex(case["tau"][0], case["tau"][1]) if case["tau"][1] != 0 else float(case["tau"][0])
        try:
            ttns.evolve(ttno, tau)
        except Exception as e:
            import traceback
            fails.append({"what": "evolve raised", "method": case["method"], "error": repr(e), "tb": traceback.format_exc()[-900:]})
            break
    return fails, stats


def check_caps(case, rng):
    """two-site and propagate-and-compress schemes with NON-uniform per-bond limits (compress_config.max_dims):
    every bond must be capped by ITS OWN limit; with limits >= the exact bond dimensions nothing may be truncated"""
    fails, stats = [], {"errs": {}}
    bt, order = L.build_basis(case["tree"])
    ttno = L.TTNO(bt, L.build_terms(case["terms"]))
    H = np.asarray(ttno.todense(order))
    hn = float(np.linalg.norm(H, 2))
    np.random.seed(int(rng.integers(0, 2**31 - 1)))
    full = L.TTNS.random(bt, int(case.get("qntot", 0)), 256)

    def sub_dim(b):
        d = int(np.prod([x.nbas for x in b.basis_sets]))
        for c in b.children:
            d *= sub_dim(c)
        return d

    total = sub_dim(bt.root)
    exact_dims = [1 if b.parent is None else min(sub_dim(b), total // sub_dim(b), fd)
                  for b, fd in zip(bt.node_list, full.bond_dims)]
    extra = case.get("extra")                       # None: exact limits; list: per-bond slack added to the exact limits
    caps = list(exact_dims) if extra is None else [d if i == 0 else d + int(e) for i, (d, e) in enumerate(zip(exact_dims, extra))]
    ttns = L.TTNS.random(bt, int(case.get("qntot", 0)), list(exact_dims))
    stats["exact_dims"], stats["caps"], stats["start"] = exact_dims, caps, [int(x) for x in ttns.bond_dims]
    psi0 = L.dense(ttns, order)
    step, ns = float(case["step"]), int(case["nsteps"])
    crit = {"fixed": L.CompressCriteria.fixed, "both": L.CompressCriteria.both}
    for method in case["methods"]:
        for cname in case["criteria"]:
            for imag in case["imag"]:
                cur = ttns.copy()
                cur.evolve_config = L.EvolveConfig(L.METHODS[method], ivp_rtol=1e-10, ivp_atol=1e-12, force_ovlp=False)
                cur.compress_config = L.CompressConfig(crit[cname], threshold=1e-14, max_bonddim=max(caps))
                cur.compress_config.max_dims = np.array(caps + [1], dtype=int)   # convention of set_bonddim: one entry per node + 1
                tau = tau_of(step, imag)
                ref = psi0
                for k in range(ns):
                    cur = cur.evolve(ttno, tau)
                    ref = L.exact(H, ref, tau)
                bd = [int(x) for x in cur.bond_dims]
                err = float(np.linalg.norm(L.dense(cur, order) - ref))
                key = "%s/%s/%s" % (method, cname, "imag" if imag else "real")
                stats["errs"][key] = err
                over = [i for i, (b, c) in enumerate(zip(bd, caps)) if b > c]
                if over:
                    fails.append({"what": "bond exceeds its own limit", "method": method, "criteria": cname, "imag": imag,
                                  "bond_dims": bd, "caps": caps})
                collapsed = [i for i, (b, d) in enumerate(zip(bd, exact_dims)) if b < d]
                x = hn * step
                if method == "pc":
                    tol = ns * (2.0 * x**5 / 120.0 * np.exp(x) + 1e-9) * (np.exp(ns * x) if imag else 1.0)
                else:
                    tol = ns * (x**3 + 1e-8) * (np.exp(2 * ns * x) if imag else 1.0)
                if err > tol or (collapsed and err > 1e-6):
                    fails.append({"what": "per-bond limits not honoured (truncated below the exact bond dimension)", "method": method,
                                  "criteria": cname, "imag": imag, "err": err, "tol": tol, "bond_dims": bd, "caps": caps,
                                  "exact_dims": exact_dims})
    return fails, stats


def check_scale(case, rng):
    """homogeneity: evolve(c * psi) = c * evolve(psi) = c * exp(..) psi in RELATIVE terms, whatever the norm of the state and
    wherever it sits (in the tensors via scale(c, inplace=True), or in coeff); normalize=False; full bond dimension.
    Steps: a large one (step * ||H|| = xbig, local problems need more than 7 Krylov vectors) and a small one."""
    fails, stats = [], {"rel": {}, "hom": {}}
    bt, order, ttno, H, base = setup(case, rng, 256)
    hn = float(np.linalg.norm(H, 2))
    steps = [float(case["xbig"]) / hn, float(case["small"])] if case.get("xbig") else [float(case["small"])]
    stats["hn"], stats["steps"] = hn, steps
    for method in case["methods"]:
        for imag in case["imag"]:
            for step in (steps if method not in ("pc",) else steps[-1:]):
                tau = tau_of(step, imag)
                U = scipy.linalg.expm((-step if imag else -1j * step) * H)
                v1 = rel1 = None
                for where, c in case["scales"]:
                    c = complex(c[0], c[1]) if c[1] else float(c[0])
                    if method == "vmf" and where == "tensor" and abs(c) < 1e-3:
                        continue        # documented residual: reg_epsilon and ivp_atol of the mean-field scheme are absolute
                    t = L.config(base.copy(), method)
                    if where == "tensor":
                        t.scale(c, inplace=True)
                    else:
                        t.coeff = c
                    psi0 = L.dense(t, order)
                    try:
                        new = t.evolve(ttno, tau, normalize=False)
                    except Exception as e:
                        import traceback
                        fails.append({"what": "evolve raised on a rescaled state", "method": method, "imag": imag, "step": step,
                                      "where": where, "scale": repr(c), "error": repr(e), "tb": traceback.format_exc()[-600:]})
                        continue
                    v = L.dense(new, order)
                    ref = U @ psi0
                    rel = float(np.linalg.norm(v - ref) / np.linalg.norm(ref))
                    key = "%s/%s/%.3g" % (method, "imag" if imag else "real", step)
                    stats["rel"].setdefault(key, []).append(rel)
                    if v1 is None:            # the first entry of case["scales"] is c = 1
                        v1, rel1 = v / c, rel
                        continue
                    hom = float(np.linalg.norm(v / c - v1) / np.linalg.norm(v1))
                    stats["hom"][key] = max(stats["hom"].get(key, 0.0), hom)
                    # purely relative bounds (no absolute floor): the same accuracy as at c = 1, and the same result up to c
                    if hom > 1e-7 or rel > 2.0 * rel1 + 1e-7:
                        fails.append({"what": "propagation is not homogeneous in the norm of the state", "method": method, "imag": imag,
                                      "step": step, "step_times_normH": step * hn, "where": where, "scale": repr(c),
                                      "rel_err_vs_dense": rel, "rel_err_at_scale_1": rel1, "rel_dev_from_scaled_result": hom})
    stats["bond_dims"] = [int(x) for x in base.bond_dims]
    return fails, stats


def check_bond1(case, rng):
    """states with bonds of dimension exactly 1: an all-product state under a non-interacting H, or a state in which only one
    parent-child pair is entangled while the other subtrees are uncoupled spectators; non-zero <H>.  Every scheme, real and
    imaginary time, multi-step, compared PHASE-SENSITIVELY (norm of the state difference) with dense expm."""
    from renormalizer import Op
    fails, stats = [], {"errs": {}}
    bt, order = L.build_basis(case["tree"])
    ttno = L.TTNO(bt, L.build_terms(case["terms"]))
    H = np.asarray(ttno.todense(order))
    hn = float(np.linalg.norm(H, 2))
    psi = L.TTNS(bt, {})
    if case.get("pair"):
        a, b = case["pair"]
        ent = L.TTNO(bt, [bt.identity_op, Op("sigma_x sigma_x", [a, b], 0.625), Op("sigma_z sigma_z", [a, b], -0.375),
                          Op("sigma_x", a, 0.25)])
        psi = ent.apply(psi, canonicalise=True)
        psi.normalize("ttns_and_coeff")
    stats["bond_dims"] = [int(x) for x in psi.bond_dims]
    if sum(1 for x in psi.bond_dims[1:] if x == 1) == 0:
        fails.append({"what": "set-up: no non-root bond of dimension 1", "bond_dims": stats["bond_dims"]})
    psi0 = L.dense(psi, order)
    stats["energy"] = float(np.real(np.vdot(psi0, H @ psi0)))
    step, ns = float(case["step"]), int(case["nsteps"])
    for method in case["methods"]:
        for imag in case["imag"]:
            tau = tau_of(step, imag)
            cur = L.config(psi.copy(), method)
            ref, worst = psi0, 0.0
            for k in range(ns):
                cur = cur.evolve(ttno, tau)
                ref = L.exact(H, ref, tau)
                v = L.dense(cur, order)
                worst = max(worst, float(np.linalg.norm(v - ref)))
            ovl = complex(np.vdot(ref, v))
            x = hn * step
            tol = ns * (2.0 * x**5 / 120.0 * np.exp(x) + 1e-9) * (np.exp(ns * x) if imag else 1.0) if method == "pc" \
                else ns * TOL_EXACT[method] * (np.exp(2 * ns * x) if imag else 1.0)
            stats["errs"]["%s/%s" % (method, "imag" if imag else "real")] = worst
            if worst > tol:
                fails.append({"what": "state with bonds of dimension 1 differs from the dense propagator (phase-sensitive)",
                              "method": method, "imag": imag, "err": worst, "tol": tol, "overlap_with_exact": [ovl.real, ovl.imag],
                              "bond_dims": stats["bond_dims"], "energy": stats["energy"]})
    return fails, stats


CHECKS = {"bond1": check_bond1, "scale": check_scale, "caps": check_caps, "exact": check_exact, "small": check_small, "chain": check_chain, "aux": check_aux, "coeff": check_coeff, "run": check_run}


def check_case(case, seed=0):
    rng = np.random.default_rng([int(seed), int(case.get("id", 0))])
    try:
        fails, stats = CHECKS[case["kind"]](case, rng)
    except Exception as e:  # an exception on an input the API accepts counts as a failure of the property
        import traceback
        fails, stats = [{"what": "exception", "error": repr(e), "tb": traceback.format_exc()[-1200:]}], {}
    return {"id": case.get("id"), "kind": case["kind"], "fails": fails, "stats": stats}


def main():
    payload = json.load(sys.stdin)
    out = [check_case(c, payload.get("seed", 0)) for c in payload["cases"]]
    print("RESULT " + json.dumps(out))


if __name__ == "__main__":
    main()
