"""C02 implementation-side runner (executed by /venv/bin/python with PYTHONPATH=/repo:/verif/pylib).

stdin : {"seed": int, "cases": [case, ...], "out": path | absent}
case  : {"id", "tree": node | null, "builder": {...} | null, "basis": [bspec...] (builder cases),
         "terms": [{"ops": [[symbol, dof], ...], "num": int, "exp": int}], "algo": str, "dense": bool,
         "qr_dense": bool}
node  : {"b": [bspec, ...], "ch": [node, ...]}        bspec: ["spin"|"sho"|"el"|"dummy", dof, nbas] (+ omega, x0 for "sho")
stdout: RESULT {"cases": [...]}   (everything exact: floats are exported as [numerator, log2(denominator)])

Per case the script runs construct_symbolic_ttno with wrappers around
  symbolic_ttno._construct_symbolic_mpo_one_site  (the columns every node consumes, in/out tables)
  symbolic_mpo._decompose_graph                   (term_row / term_col: the keys of the selected vertices)
  symbolic_mpo.bipartite_vertex_cover             (the cover itself = the witness)
and exports out-operators, bond labels, the composed symbolic tensors read as a coefficient function
on a list of operator strings, and (if asked) the dense comparison TTNO vs sum of krons vs chain MPO.
"""
import json
import sys
import random
import itertools
from fractions import Fraction

import renormalizer  # noqa: F401  (before numpy)
import numpy as np
from renormalizer import Op, Model, Mpo, BasisHalfSpin, BasisSHO, BasisSimpleElectron
from renormalizer.model.basis import BasisDummy
from renormalizer.tn import BasisTree, TTNO, TreeNodeBasis
from renormalizer.tn import symbolic_ttno as st
from renormalizer.mps import symbolic_mpo as sm


def dy(x):
    """exact dyadic export of a float: [numerator, exponent] with x = numerator / 2**exponent"""
    x = float(x)
    n, d = x.as_integer_ratio()
    return [n, d.bit_length() - 1]


def mk_basis(spec):
    kind, dof, nbas = spec[:3]
    if kind == "spin":
        return BasisHalfSpin(dof)
    if kind == "sho":
        return BasisSHO(dof, omega=(spec[3] if len(spec) > 3 else 1.0), nbas=nbas, x0=(spec[4] if len(spec) > 4 else 0.0))
    if kind == "el":
        return BasisSimpleElectron(dof)
    if kind == "dummy":
        return BasisDummy(("dummy", dof))
    raise ValueError(kind)


def build_tree(node, reg):
    bs = [mk_basis(s) for s in node["b"]]
    for b, s in zip(bs, node["b"]):
        reg.append((b, s))
    n = TreeNodeBasis(bs)
    for c in node["ch"]:
        n.add_child(build_tree(c, reg))
    return n


def build(case):
    reg = []
    if case.get("tree") is not None:
        root = build_tree(case["tree"], reg)
        return BasisTree(root), [b for b, s in reg if s[0] != "dummy"]
    bl = [mk_basis(s) for s in case["basis"]]
    bd = case["builder"]
    name = bd["name"]
    if name == "linear":
        t = BasisTree.linear(bl)
    elif name == "binary":
        t = BasisTree.binary(bl)
    elif name == "mctdh":
        t = BasisTree.general_mctdh(bl, bd["order"], contract_primitive=bd.get("contract", False),
                                    contract_label=bd.get("label"))
    elif name == "t3ns":
        t = BasisTree.t3ns(bl)
    else:
        raise ValueError(name)
    return t, bl


def mk_terms(case):
    out = []
    for t in case["terms"]:
        sym = " ".join(s for s, d in t["ops"])
        dofs = [d for s, d in t["ops"]]
        out.append(Op(sym, dofs, t["num"] / 2.0 ** t["exp"]))
    return out


# ------------------------------------------------------------------ wrappers
LOG = {}
_orig_one_site = sm._construct_symbolic_mpo_one_site
_orig_graph = sm._decompose_graph
_orig_cover = sm.bipartite_vertex_cover


def one_site_wrapper(table_row, table_col, in_ops_list, factor, primary_ops, algo, k=1):
    rec = {"trow": np.array(table_row).tolist(), "tcol": np.array(table_col).tolist(),
           "factor": [dy(f) for f in factor], "n_in": [len(x) for x in in_ops_list], "k": int(k)}
    LOG["steps"].append(rec)
    LOG["cur"] = rec
    out_ops, table, nfactor = _orig_one_site(table_row, table_col, in_ops_list, factor, primary_ops, algo, k)
    rec["out_ops"] = [[[[int(x) for x in o.symbol], dy(o.factor), [int(q) for q in np.atleast_1d(o.qn)]] for o in oo] for oo in out_ops]
    rec["new_table"] = np.array(table).tolist()
    rec["new_factor"] = [dy(f) for f in np.atleast_1d(nfactor)]
    return out_ops, table, nfactor


def log_unique(rec, term_row, term_col, non_red):
    """the unique-rows step as the decomposition sees it: term_row, term_col and, recovered from the incidence matrix
    (entry = term number + 1 at (row index, column index)), the row / column index every term was given"""
    rec["term_row"] = np.array(term_row).tolist()
    rec["term_col"] = [np.array(c).tolist() for c in term_col]
    coo = non_red.tocoo()
    nt = len(rec["trow"])
    rinv, cinv = [None] * nt, [None] * nt
    ok = True
    for i, j, v in zip(coo.row.tolist(), coo.col.tolist(), coo.data.tolist()):
        t = int(v) - 1
        if 0 <= t < nt and rinv[t] is None:
            rinv[t], cinv[t] = int(i), int(j)
        else:
            ok = False           # two terms fell on one incidence entry (their numbers were added) or an index is out of range
    rec["row_inverse"] = rinv
    rec["col_inverse"] = cinv
    rec["incidence_ok"] = ok and all(x is not None for x in rinv)


def graph_wrapper(term_row, term_col, non_red, in_ops_list, factor, primary_ops, algo, k=1):
    rec = LOG["cur"]
    log_unique(rec, term_row, term_col, non_red)
    rec["rows_lt_cols"] = bool(non_red.shape[0] < non_red.shape[1])
    indptr = non_red.indptr.copy()
    rec["degree"] = [int(indptr[i + 1] - indptr[i]) for i in range(non_red.shape[0])]
    return _orig_graph(term_row, term_col, non_red, in_ops_list, factor, primary_ops, algo, k)


_orig_qr = sm._decompose_qr


def qr_wrapper(term_row, term_col, non_red, in_ops_list, factor, primary_ops, algo, k=1):
    rec = LOG.get("cur")
    if rec is not None:
        log_unique(rec, term_row, term_col, non_red)
    return _orig_qr(term_row, term_col, non_red, in_ops_list, factor, primary_ops, algo, k)


def cover_wrapper(bigraph, algo="Hopcroft-Karp"):
    res = _orig_cover(bigraph, algo=algo)
    rec = LOG.get("cur")
    if rec is not None:
        rec["cover"] = [[bool(x) for x in res[0]], [bool(x) for x in res[1]]]
        rec["bigraph"] = [[int(v) for v in adj] for adj in bigraph]
    return res


st._construct_symbolic_mpo_one_site = one_site_wrapper
sm._decompose_graph = graph_wrapper
sm._decompose_qr = qr_wrapper
sm.bipartite_vertex_cover = cover_wrapper


# ------------------------------------------------------------------ per case
def merged_terms(terms):
    """identical operator products merged with EXACT rational coefficients (so that the reference does not suffer from
    the cancellation of large duplicates: 1*A - 3e-9*A - 1*A); returns [(Fraction, {dof: symbol string})]"""
    acc = {}
    for t in terms:
        per = {}
        for s_, d in t["ops"]:
            per.setdefault(d, []).append(s_)
        key = tuple(sorted((str(d), d, " ".join(ss)) for d, ss in per.items()))
        c = Fraction(t["num"]) / (Fraction(2) ** t["exp"]) if t["exp"] >= 0 else Fraction(t["num"]) * 2 ** (-t["exp"])
        acc[key] = acc.get(key, Fraction(0)) + c
    return [(c, {d: sym for _, d, sym in key}) for key, c in acc.items() if c != 0]


def dense_sum(order, case):
    """sum_k c_k kron_i (local matrix of term k on DoF i), built without Op/Model/split_elementary."""
    dims = [b.nbas for b in order]
    dim = int(np.prod(dims)) if dims else 1
    tot = np.zeros((dim, dim))
    for c, per in merged_terms(case["terms"]):
        full = np.eye(1)
        for b in order:
            # the local matrix of the site's elementary operator, as the basis set defines it
            full = np.kron(full, np.asarray(b.op_mat(per[b.dof])) if b.dof in per else np.eye(b.nbas))
        tot = tot + float(c) * full
    return tot


def relerr(a, b):
    """relative to the operator's OWN scale (never an absolute floor: the property is scale covariant)"""
    scale = float(np.abs(b).max()) if b.size else 0.0
    if scale == 0.0:
        return float(np.abs(a).max()) if a.size else 0.0
    return float(np.abs(a - b).max() / scale) if a.size else 0.0


def run_case(case, rng):
    res = {"id": case["id"]}
    tree, real_order = build(case)
    terms = mk_terms(case)
    nodes = tree.postorder_list()
    res["pmk"] = [[len(n.children), n.n_sets] for n in nodes]
    res["pre_mk"] = [[len(n.children), n.n_sets] for n in tree.node_list]
    res["children_idx"] = [[nodes.index(c) for c in n.children] for n in nodes]
    basis_po = list(itertools.chain(*[n.basis_sets for n in nodes]))
    res["dummy_cols"] = [isinstance(b, BasisDummy) for b in basis_po]
    res["col_dof"] = [str(b.dof) for b in basis_po]
    model = Model(basis_po, [])
    table, primary_ops, factor = sm._terms_to_table(model, terms, 0)
    res["table"] = np.array(table).tolist()
    res["factor"] = [dy(f) for f in factor]
    res["qn_size"] = int(model.qn_size)
    prim_site = []
    for op in primary_ops:
        prim_site.append(int(model.dof_to_siteidx[op.dofs[0]]))
    res["prim_site"] = prim_site
    res["prim_qn"] = [[int(q) for q in np.atleast_1d(op.qn)] for op in primary_ops]
    res["prim_str"] = [[op.symbol, [str(d) for d in op.dofs]] for op in primary_ops]
    algo = case.get("algo", "Hopcroft-Karp")
    LOG.clear()
    LOG["steps"] = []
    if len(table) == 0:
        res["empty_table"] = True
    try:
        mpo, mpoqn = st.construct_symbolic_ttno(tree, terms, algo=algo)
    except Exception as e:  # reported to the harness, which decides whether it was expected
        res["error"] = "%s: %s" % (type(e).__name__, e)
        return res
    steps = LOG["steps"]
    LOG["steps"] = []          # later constructions (dense oracle) log elsewhere
    if steps:
        res["root_cover"] = {"rows_lt_cols": steps[-1].get("rows_lt_cols"), "cover": steps[-1].get("cover"),
                             "n_rows": len(steps[-1].get("term_row") or []), "n_cols": len(steps[-1].get("term_col") or [])}
    for rec in steps:
        rec.pop("bigraph", None)
        cov = rec.pop("cover", None)
        tr, tc = rec.get("term_row"), rec.get("term_col")
        if cov is None or tr is None:
            rec["witness"] = None
            continue
        if rec["rows_lt_cols"]:
            rowbool, colbool = cov
        else:
            colbool, rowbool = cov
        rsel_idx = [i for i, b in enumerate(rowbool) if b]
        rsel_idx = sorted(rsel_idx, key=lambda i: rec["degree"][i], reverse=True)   # "largest cover first"
        csel_idx = [j for j, b in enumerate(colbool) if b]
        rec["witness"] = {"rsel": [tr[i] for i in rsel_idx], "csel": [tc[j] for j in csel_idx]}
    res["steps"] = steps
    res["mpoqn"] = [np.array(q).reshape(len(q), -1).astype(int).tolist() for q in mpoqn]
    # ---- coefficient function of the composed symbolic tensors on a list of operator strings
    prim_idx = {op: i for i, op in enumerate(primary_ops)}
    offs = np.cumsum([0] + [n.n_sets for n in nodes]).tolist()

    def make_coeff(mpo_):
        node_tabs = []
        for inode, (node, mo) in enumerate(zip(nodes, mpo_)):
            local = Model(node.basis_sets, [])
            tab = {}
            for idx, ops in np.ndenumerate(mo):
                for op in ops:
                    split, f = op.split_elementary(local.dof_to_siteidx)
                    key = tuple(prim_idx.get(o, -1) for o in split)
                    if len(node.children) == 0:
                        full = ((), int(idx[0]), key)
                    else:
                        full = (tuple(int(i) for i in idx[:-1]), int(idx[-1]), key)
                    tab[full] = tab.get(full, Fraction(0)) + Fraction(float(f))
            node_tabs.append(tab)
        bdims = [int(mo.shape[-1]) for mo in mpo_]

        def coeff_of(s):
            vecs = [None] * len(nodes)
            for i, node in enumerate(nodes):
                own = tuple(s[offs[i]:offs[i + 1]])
                ch = res["children_idx"][i]
                v = [Fraction(0)] * bdims[i]
                for (ins, j, key), f in node_tabs[i].items():
                    if key != own:
                        continue
                    p = f
                    for c, ic in zip(ch, ins):
                        p = p * vecs[c][ic]
                    v[j] += p
                vecs[i] = v
            return vecs[-1][0] if len(vecs[-1]) == 1 else None
        return coeff_of, bdims

    coeff_of, bond_dims = make_coeff(mpo)
    res["bond_dims"] = bond_dims

    strings = [list(r) for r in res["table"]]
    by_site = {}
    for p, sidx in enumerate(prim_site):
        by_site.setdefault(sidx, []).append(p)
    ncol = len(basis_po)
    extra = []
    for r in list(strings)[:12]:
        for _ in range(2):
            s = list(r)
            c = rng.randrange(ncol)
            s[c] = rng.choice(by_site[c])
            extra.append(s)
    if ncol:
        extra.append([by_site[c][0] for c in range(ncol)])       # the identity string
    seen = set()
    allstr = []
    for s in strings + extra:
        if tuple(s) not in seen:
            seen.add(tuple(s))
            allstr.append([int(x) for x in s])
    res["strings"] = allstr
    cf = []
    for s in allstr:
        c = coeff_of(s)
        cf.append(None if c is None else [c.numerator, c.denominator])
    res["mo_coeff"] = cf
    # ---- the same construction with algo="qr": the logged factors are the witness of ttno_sound_qr
    if case.get("qr_sym") and not case.get("wide"):
        LOG["steps"] = []
        try:
            mpo_q, mpoqn_q = st.construct_symbolic_ttno(tree, terms, algo="qr")
            qsteps = LOG["steps"]
            LOG["steps"] = []
            coeff_q, _ = make_coeff(mpo_q)
            qc = []
            for s_ in allstr:
                c = coeff_q(s_)
                qc.append(None if c is None else [c.numerator, c.denominator.bit_length() - 1])
            res["qr"] = {"steps": [{k: st_.get(k) for k in ("trow", "tcol", "factor", "out_ops", "new_table", "new_factor", "term_row", "term_col", "row_inverse", "col_inverse", "incidence_ok")} for st_ in qsteps],
                         "mo_coeff": qc}
        except Exception as e:
            res["qr"] = {"error": "%s: %s" % (type(e).__name__, e)}
    # ---- dense oracle
    if case.get("dense"):
        d = {}
        ref = dense_sum(real_order, case)
        ttno = TTNO(tree, terms, algo=algo)
        d["ttno_vs_sum"] = relerr(ttno.todense(real_order), ref)
        perm = list(real_order)
        rng.shuffle(perm)
        d["ttno_perm_vs_sum"] = relerr(ttno.todense(perm), dense_sum(perm, case))
        wide = bool(case.get("wide"))
        # the default algo="qr" of Mpo filters with an absolute 1e-10 (known finding of C01); wide-range lists use a graph algorithm
        mpo_chain = Mpo(Model(real_order, terms), algo="Hopcroft-Karp") if wide else Mpo(Model(real_order, terms))
        d["mpo_vs_sum"] = relerr(mpo_chain.todense(), ref)
        if wide:
            cmin = min(abs(t["num"] / 2.0 ** t["exp"]) for t in case["terms"])
            # weak couplings next to strong fields: the error measured against the SMALLEST coefficient
            d["ttno_vs_sum_rel_smallest"] = float(np.abs(ttno.todense(real_order) - ref).max() / cmin)
            d["ttno_vs_mpo_rel_smallest"] = float(np.abs(ttno.todense(real_order) - mpo_chain.todense()).max() / cmin)
        d["ttno_vs_mpo"] = relerr(ttno.todense(real_order), mpo_chain.todense())
        lin = TTNO(BasisTree.linear(list(real_order)), terms, algo=algo)
        d["linear_ttno_vs_mpo"] = relerr(lin.todense(real_order), mpo_chain.todense())
        if case.get("qr_dense") and not wide:
            tq = TTNO(tree, terms, algo="qr")
            d["ttno_qr_vs_sum"] = relerr(tq.todense(real_order), ref)
        d["dim"] = int(ref.shape[0])
        res["dense"] = d
    return res


def main():
    payload = json.load(sys.stdin)
    rng = random.Random(payload.get("seed", 0))
    np.random.seed(payload.get("seed", 0) % (2 ** 32))
    out = []
    for case in payload["cases"]:
        try:
            out.append(run_case(case, random.Random((payload.get("seed", 0), case["id"]).__repr__())))
        except Exception as e:
            import traceback
            out.append({"id": case["id"], "crash": traceback.format_exc()[-1500:]})
    # impl_par reads stdout only after exit: keep stdout tiny, hand the bulk over in a file
    if payload.get("out"):
        with open(payload["out"], "w") as f:
            json.dump({"cases": out}, f)
        print("RESULT " + json.dumps({"file": payload["out"]}))
    else:
        print("RESULT " + json.dumps({"cases": out}))


if __name__ == "__main__":
    main()
