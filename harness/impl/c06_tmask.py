"""C06 tree masks: TTNS.get_qnmask(node, include_parent) for random trees and label patterns (labels of TTNS.random
states and the same with integer noise), exported flattened (ndarray.ravel()) for the exact correspondence with
Model/TtnsQn.v (tmask1_flat / tmask2_flat).   stdin {"seed", "ncases", "out"}"""
import json
import random
import sys
import traceback

import numpy as np

import c11_lib as T
import c06_tree as N
from renormalizer.tn import TTNS


def labs(node):
    return np.asarray(node.qn).astype(int).reshape(len(node.qn), -1).tolist()


def sig(ttns, node):
    return [np.asarray(b.sigmaqn).reshape(b.nbas, -1).tolist() for b in ttns.tn2bn[node].basis_sets]


def main():
    payload = json.loads(sys.stdin.read() or "{}")
    seed = int(payload.get("seed", 0))
    ncases = int(payload.get("ncases", 20))
    cases, errors = [], []
    for k in range(ncases):
        cs = seed * 100069 + k
        rng = random.Random(cs)
        try:
            spec = N.gen_spec(rng)
            if spec is None:
                continue
            bt, nodes, _ = T.build_basis_tree(spec)
            np.random.seed(cs % (2 ** 31))
            try:
                st = TTNS.random(bt, T.qntot_of(spec), rng.randint(2, 4))
            except Exception:
                continue
            ncomp = T.qn_size(spec)
            if rng.random() < 0.5:
                for nd in st.node_list:
                    nd.qn = np.asarray(nd.qn) + np.array([[rng.randint(-1, 1) for _ in range(ncomp)] for _ in range(len(nd.qn))])
            node = rng.choice(st.node_list)
            two = node.parent is not None and rng.random() < 0.5
            mask = np.asarray(st.get_qnmask(node, include_parent=two))
            if mask.size > 4000:
                continue
            c = {"two": two, "ncomp": ncomp, "qtot": [int(v) for v in np.asarray(st.qntot).reshape(-1)],
                 "sgn": sig(st, node), "qn": labs(node), "gsn": [labs(ch) for ch in node.children],
                 "mask": mask.ravel().tolist(), "shape": list(mask.shape), "true_entries": int(mask.sum()), "entries": int(mask.size)}
            if two:
                par = node.parent
                c["sgp"] = sig(st, par)
                c["qp"] = labs(par)
                c["gso"] = [labs(ch) for ch in par.children if ch is not node]
            cases.append(c)
        except Exception as ex:
            errors.append({"case": cs, "exception": repr(ex), "tb": traceback.format_exc()[-600:]})
    res = {"cases": cases, "errors": errors}
    if payload.get("out"):
        with open(payload["out"], "w") as f:
            json.dump(res, f)
        print("RESULT " + json.dumps({"file": payload["out"]}))
    else:
        print("RESULT " + json.dumps(res))


main()
