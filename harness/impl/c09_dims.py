"""C09 bond-limit tie: bond_dims of the state returned by each propagate-and-compress scheme and by the two-site sweep,
together with the input's and the operator's interior bond dimensions and the configured limit.  harness/c09.py evaluates
the abstract interpreter of Model/Dims.v (dbound ... (taylor_dexp N | tdrk4_dexp | rk_dexp tab_k)) in Coq and checks
bond_dims <= bound (<= limit) bond by bond.
payload: {seed, n}
"""
import numpy as np
from c09_lib import *
from renormalizer.utils import rk as RK

P = read_payload()
rs = np.random.RandomState(P["seed"] % (2 ** 31))
cases = []
for k in range(int(P.get("n", 3))):
    if k % 2 == 0:
        model, h, dims = spin_model(int(rs.choice([4, 5])), rs)
        qn = 0
    else:
        model, h, dims, info = holstein_model(2, int(rs.choice([2, 3])), rs)
        qn = 1
    mpo = Mpo(model)
    dop = [int(x) for x in mpo.bond_dims][1:-1]
    for m_in, m_lim, crit in [(2, 2, "fixed"), (2, 3, "both"), (3, 64, "fixed"), (4, 3, "fixed")]:
        st = rand_state(model, rs, qn, m_in)
        st.compress_config = CompressConfig(CompressCriteria.fixed, max_bonddim=m_in)
        st.canonicalise().compress()
        st.normalize("mps_and_coeff")
        din = [int(x) for x in st.bond_dims][1:-1]
        dt = 0.05
        jobs = [("taylor", N, "prop_and_compress", {"taylor_order": N}) for N in (1, 2, 4, 6)]
        jobs.append(("tdrk4", 0, "prop_and_compress_tdrk4", {}))
        for i, name in enumerate(RK.method_list):
            cfg = {"rk_solver": name}
            if name in ("RKF45", "Cash-Karp45"):
                cfg.update(adaptive=True, adaptive_rtol=1e300, guess_dt=dt)
            jobs.append(("rk", i, "prop_and_compress_tdrk", cfg))
        jobs.append(("adaptive-taylor", 5, "prop_and_compress", {"adaptive": True, "guess_dt": 0.02, "adaptive_rtol": 1e-4}))
        jobs.append(("adaptive-rk", RK.method_list.index("RKF45"), "prop_and_compress_tdrk", {"rk_solver": "RKF45", "adaptive": True, "guess_dt": 0.02, "adaptive_rtol": 1e-4}))
        jobs.append(("ps2", 0, "tdvp_ps2", {}))
        for kind, arg, method, cfg in jobs:
            a = st.copy()
            set_cfg(a, method, m_max=m_lim, criteria=crit, **cfg)
            try:
                out = a.evolve(mpo, dt if not kind.startswith("adaptive") else 0.1)
                od, exc = [int(x) for x in out.bond_dims][1:-1], None
            except Exception as e:
                od, exc = None, repr(e)[:200]
            cases.append({"kind": kind, "arg": arg, "criteria": crit, "din": din, "dop": dop, "limit": m_lim, "out": od, "exc": exc})
emit({"cases": cases})
