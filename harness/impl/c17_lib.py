"""Shared helpers of the C17 implementation-side scripts (run under /venv/bin/python against /repo)."""
import itertools
import numpy as np


def make_integrals(nsp, seed, kind):
    """Spatial integrals with the full 8-fold symmetry, integer or dyadic valued (exact in binary64).
    kind: dense | sparse | block (a vanishing orbital block) | diag (only h, J-type integrals) | float"""
    rng = np.random.default_rng(seed)
    if kind == "zero":
        return np.zeros((nsp, nsp)), np.zeros((nsp,) * 4)
    if kind == "float":
        h = rng.integers(-64, 65, (nsp, nsp)) / 16.0
        eri = rng.integers(-64, 65, (nsp,) * 4) / 16.0
    else:
        h = rng.integers(-3, 4, (nsp, nsp)).astype(float)
        eri = rng.integers(-2, 3, (nsp,) * 4).astype(float)
    if kind == "sparse":
        h = h * (rng.random((nsp, nsp)) < 0.5)
        eri = eri * (rng.random((nsp,) * 4) < 0.25)
    if kind == "diag":
        h = np.diag(np.diag(h))
        m = np.zeros((nsp,) * 4)
        for p in range(nsp):
            for q in range(nsp):
                m[p, p, q, q] = 1
        eri = eri * m
    h = h + h.T
    eri = eri + eri.transpose(1, 0, 2, 3)
    eri = eri + eri.transpose(0, 1, 3, 2)
    eri = eri + eri.transpose(2, 3, 0, 1)
    if kind == "block" and nsp >= 2:
        k = int(rng.integers(0, nsp))          # orbital k decoupled from everything, all its integrals vanish
        h[k, :] = 0
        h[:, k] = 0
        for ax in range(4):
            idx = [slice(None)] * 4
            idx[ax] = k
            eri[tuple(idx)] = 0
    return h, eri


def jw_ops(n):
    """a_j (annihilation) as explicit 2^n matrices, site 0 = most significant factor; level 1 = occupied."""
    I = np.eye(2)
    Z = np.diag([1.0, -1.0])
    sp = np.array([[0.0, 1.0], [0.0, 0.0]])
    ops = []
    for j in range(n):
        m = np.ones((1, 1))
        for l in range(n):
            m = np.kron(m, Z if l < j else (sp if l == j else I))
        ops.append(m)
    return ops


def fermionic_h(h, eri):
    """H = sum h_PQ a+_Ps a_Qs + 1/2 sum (PQ|RS) a+_Ps a+_Rt a_St a_Qs  from the SPATIAL integrals;
    spin orbital index 2P+s (s=0 alpha).  Independent of int_to_h / qc_model."""
    nsp = h.shape[0]
    n = 2 * nsp
    a = jw_ops(n)
    ad = [x.T for x in a]
    H = np.zeros((2 ** n, 2 ** n))
    for P, Q in itertools.product(range(nsp), repeat=2):
        if h[P, Q] != 0:
            for s in (0, 1):
                H += h[P, Q] * ad[2 * P + s] @ a[2 * Q + s]
    for P, Q, R, S in itertools.product(range(nsp), repeat=4):
        v = eri[P, Q, R, S]
        if v != 0:
            for s in (0, 1):
                for t in (0, 1):
                    H += 0.5 * v * ad[2 * P + s] @ ad[2 * R + t] @ a[2 * S + t] @ a[2 * Q + s]
    return H


def number_ops(n):
    a = jw_ops(n)
    na = sum(a[j].T @ a[j] for j in range(0, n, 2))
    nb = sum(a[j].T @ a[j] for j in range(1, n, 2))
    return na, nb


def swap_mats(n, i):
    """(S, F): plain exchange of sites i,i+1 and the fermionic one F = S . diag(.., -1 on |11>)"""
    d = 2 ** n
    S = np.zeros((d, d))
    D = np.ones(d)
    for idx in range(d):
        bits = [(idx >> (n - 1 - k)) & 1 for k in range(n)]
        if bits[i] == 1 and bits[i + 1] == 1:
            D[idx] = -1
        bits[i], bits[i + 1] = bits[i + 1], bits[i]
        S[sum(b << (n - 1 - k) for k, b in enumerate(bits)), idx] = 1
    return S, S @ np.diag(D)


RENAME = {"+": "sigma_+", "-": "sigma_-", "Z": "sigma_z"}


def rename_terms(terms):
    """the same operators written with the long spin symbol names"""
    from renormalizer.model import Op
    out = []
    for t in terms:
        out.append(Op(" ".join(RENAME.get(s, s) for s in t.split_symbol), t.dofs, t.factor, t.qn_list))
    return out


def flat_terms(terms):
    return [t for grp in terms for t in grp] if terms and isinstance(terms[0], list) else list(terms)


def dense_of_terms(basis, terms):
    from renormalizer.model import Model
    from renormalizer.mps import Mpo
    if terms and isinstance(terms[0], list):
        return sum(Mpo(Model(basis, grp)).todense() for grp in terms)
    return Mpo(Model(basis, terms)).todense()


_SYM = {"I": np.eye(2), "Z": np.diag([1.0, -1.0]), "sigma_z": np.diag([1.0, -1.0]), "+": np.array([[0.0, 1.0], [0.0, 0.0]]),
        "sigma_+": np.array([[0.0, 1.0], [0.0, 0.0]]), "-": np.array([[0.0, 0.0], [1.0, 0.0]]), "sigma_-": np.array([[0.0, 0.0], [1.0, 0.0]])}


def term_dense(t, n):
    """dense matrix of one Op over spin sites 0..n-1 from its symbols (textbook matrices), factor included"""
    mats = [np.eye(2) for _ in range(n)]
    for s, d in zip(t.split_symbol, t.dofs):
        mats[d] = mats[d] @ _SYM[s]
    m = np.ones((1, 1))
    for x in mats:
        m = np.kron(m, x)
    return t.factor * m


def apply_probe(mpo, qntot, seed=0):
    """use a (swapped) operator: mpo.apply(mps), mpo @ mps, mpo.apply(mpo2), mpo.contract(mps) against dense algebra.
    -> {"raised": text} or the four relative deviations"""
    import traceback
    from renormalizer.mps import Mps, Mpo
    from renormalizer.utils import CompressConfig
    out = {}
    try:
        np.random.seed(seed)
        mps = Mps.random(mpo.model, qntot, 16, percent=1.0)
        H = np.asarray(mpo.todense())
        v = np.asarray(mps.todense()).ravel()
        ref = H @ v
        scale = max(1.0, float(np.abs(ref).max()))
        out["apply"] = float(np.abs(np.asarray(mpo.apply(mps).todense()).ravel() - ref).max() / scale)
        out["matmul"] = float(np.abs(np.asarray((mpo @ mps).todense()).ravel() - ref).max() / scale)
        mpo2 = Mpo(mpo.model)
        H2 = np.asarray(mpo2.todense())
        out["apply_mpo"] = float(np.abs(np.asarray(mpo.apply(mpo2).todense()) - H @ H2).max() / max(1.0, float(np.abs(H @ H2).max())))
        mps.compress_config = CompressConfig(threshold=1e-13)
        if float(np.abs(ref).max()) < 1e-8:          # H|psi> = 0: compressing the zero state is not a question about the exchange
            out["contract"] = 0.0
            return out
        out["contract"] = float(np.abs(np.asarray(mpo.contract(mps).todense()).ravel() - ref).max() / scale)
    except Exception:
        out["raised"] = traceback.format_exc()[-700:]
    return out
