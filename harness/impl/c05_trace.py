"""C05 trace correspondence: run Mps.compress / TTNS.compress of the real code with loggers wrapped around
svd_qn, CompressConfig.compute_m_trunc, MatrixProduct._update_ms, TTNS.compress_node, truncate_tensors,
TTNS.push_cano_to_parent and around the limit containers (max_dims array / temp_m_trunc list), and report
the executed schedule: which site/node, which limit entry was read, how many states were kept, the exact
singular values seen (as integer ratios), and the bond dimensions before/after.

stdin : {"cases": [case, ...]}   (same descriptors as c05_oracle.py)
stdout: RESULT {"traces": [...]}
"""
import json
import sys

import numpy as np

import c05_oracle as orc


class LogList(list):
    log = None

    def __getitem__(self, i):
        if isinstance(i, (int, np.integer)) and LogList.log is not None:
            LogList.log.append(int(i))
        return list.__getitem__(self, i)


class LogArr(np.ndarray):
    log = None

    def __getitem__(self, i):
        if isinstance(i, (int, np.integer)) and LogArr.log is not None:
            LogArr.log.append(int(i))
        return np.ndarray.__getitem__(self, i)


def ratio(x):
    p, q = float(x).as_integer_ratio()
    return [p, q]


def trace_case(case):
    import renormalizer.mps.svd_qn as svdmod
    import renormalizer.mps.mp as mpmod
    import renormalizer.tn.tree as treemod
    from renormalizer.utils.configs import CompressConfig
    from renormalizer.tn.tree import TTNS
    try:
        if case["kind"] == "mps":
            obj = orc.make_mps(case)
            nb = case["n"] + 1
        else:
            seed = int(case["seed"])
            np.random.seed(seed)
            basis, bl = orc.build_tree(case["parents"], case["qn"], case.get("nb", 3))
            n = len(case["parents"])
            obj = TTNS.random(basis, n // 2 if case["qn"] else 0, case["m_max"])
            if case["complex"]:
                o = TTNS.random(basis, n // 2 if case["qn"] else 0, case["m_max"])
                obj = obj.to_complex().add(o.scale(0.7j))
            obj.canonicalise()
            nb = n + 1
    except Exception as e:
        return {"case": case, "skipped": "state construction failed: %s" % type(e).__name__}
    cfg = case["cfg"]
    new = obj.copy()
    orc.install_config(new, cfg, nb)
    cc = new.compress_config
    reads = []
    LogList.log = reads
    LogArr.log = reads
    if cc.max_dims is not None:
        cc.max_dims = np.asarray(cc.max_dims).view(LogArr)
    temp = cfg.get("temp")
    temp_arg = LogList(temp) if isinstance(temp, list) else temp
    events = []          # chronological
    sig_box = {}

    orig_svd_mp = svdmod.svd_qn
    orig_svd_tree = treemod.svd_qn
    orig_cmt = CompressConfig.compute_m_trunc
    orig_set = CompressConfig.set_bonddim
    orig_upd = mpmod.MatrixProduct._update_ms
    orig_node = TTNS.compress_node
    orig_trunc = treemod.truncate_tensors
    orig_push = TTNS.push_cano_to_parent

    def svd_wrap(orig):
        def f(*a, **k):
            r = orig(*a, **k)
            if not k.get("QR", False) and len(r) == 6:
                sig_box["sigma"] = np.asarray(r[1], dtype=float).copy()
            return r
        return f

    def cmt(self, sigma, idx, left):
        n0 = len(reads)
        m = orig_cmt(self, sigma, idx, left)
        events.append({"ev": "compute", "idx": int(idx), "left": bool(left), "len": int(len(sigma)), "m": int(m),
                       "read": reads[n0:]})
        return m

    def setb(self, length):
        was = self.max_dims is None
        orig_set(self, length)
        events.append({"ev": "set_bonddim", "length": int(length)})
        if was and self.max_dims is not None:
            self.max_dims = np.asarray(self.max_dims).view(LogArr)

    def upd(self, idx, u, vt, sigma=None, qnlset=None, qnrset=None, m_trunc=None):
        if sigma is not None:
            events.append({"ev": "update", "idx": int(idx), "m": int(m_trunc), "to_right": bool(self.to_right),
                           "sigma": [ratio(x) for x in np.asarray(sigma, dtype=float)], "nread": len(reads)})
        return orig_upd(self, idx, u, vt, sigma, qnlset, qnrset, m_trunc)

    def node(self, nd, ichild, temp_m_trunc=None, cano_child=True):
        e = {"ev": "node", "parent": int(self.node_idx[nd]), "child": int(self.node_idx[nd.children[ichild]]),
             "cano_child": bool(cano_child), "nread": len(reads)}
        events.append(e)
        r = orig_node(self, nd, ichild, temp_m_trunc, cano_child)
        e["dim_after"] = int(nd.children[ichild].tensor.shape[-1])
        return r

    def trunc(u, s, v, qnl, qnr, m):
        events.append({"ev": "trunc", "m": int(m), "sigma": [ratio(x) for x in np.asarray(s, dtype=float)], "nread": len(reads)})
        return orig_trunc(u, s, v, qnl, qnr, m)

    def push(self, nd):
        before = int(nd.tensor.shape[-1])
        r = orig_push(self, nd)
        events.append({"ev": "push", "child": int(self.node_idx[nd]), "before": before, "after": int(nd.tensor.shape[-1])})
        return r

    dims_before = [int(x) for x in new.bond_dims]
    old_md = None if cc.max_dims is None else [int(x) for x in np.asarray(cc.max_dims)]
    info = {"case": case, "kind": case["kind"], "dims_before": dims_before, "old_max_dims": old_md, "M": int(cc.bond_dim_max_value),
            "thr": ratio(cc.threshold), "crit": cfg["crit"], "temp": temp}
    if case["kind"] == "mps":
        info["n"] = case["n"]
        info["to_right"] = bool(new.to_right)
    else:
        idx = new.node_idx
        def enc(nd):
            return [int(idx[nd]), [enc(c) for c in nd.children]]
        info["tree"] = enc(new.root)
    try:
        svdmod.svd_qn = svd_wrap(orig_svd_mp)
        treemod.svd_qn = svd_wrap(orig_svd_tree)
        CompressConfig.compute_m_trunc = cmt
        CompressConfig.set_bonddim = setb
        mpmod.MatrixProduct._update_ms = upd
        TTNS.compress_node = node
        treemod.truncate_tensors = trunc
        TTNS.push_cano_to_parent = push
        new.compress(temp_m_trunc=temp_arg)
    except Exception as e:
        info["error"] = "%s: %s" % (type(e).__name__, str(e)[:200])
    finally:
        svdmod.svd_qn = orig_svd_mp
        treemod.svd_qn = orig_svd_tree
        CompressConfig.compute_m_trunc = orig_cmt
        CompressConfig.set_bonddim = orig_set
        mpmod.MatrixProduct._update_ms = orig_upd
        TTNS.compress_node = orig_node
        treemod.truncate_tensors = orig_trunc
        TTNS.push_cano_to_parent = orig_push
        LogList.log = None
        LogArr.log = None
    info["events"] = events
    info["reads"] = reads
    info["dims_after"] = [int(x) for x in new.bond_dims]
    md = new.compress_config.max_dims
    info["max_dims_after"] = None if md is None else [int(x) for x in np.asarray(md)]
    return info


if __name__ == "__main__":
    payload = json.load(sys.stdin)
    print("RESULT " + json.dumps({"traces": [trace_case(c) for c in payload["cases"]]}))
