"""Shared generators for the C03 / C06 implementation-side scripts (run under /venv/bin/python on VERIF_REPO).

Everything random is derived from a python `random.Random` passed in (seeded from the payload) and from
NumPy's global generator, which callers seed from the same payload seed (Mps.random uses it)."""
import itertools
import numpy as np

from renormalizer import Model, Mps, Mpo, Op
from renormalizer import BasisHalfSpin, BasisSimpleElectron, BasisSHO, BasisMultiElectron
from renormalizer.mps import MpDm
from renormalizer.utils import CompressConfig, CompressCriteria


# ----------------------------------------------------------------------------------------- models
def _sig_choices(ncomp, trivial):
    if trivial:
        z = [0] * ncomp if ncomp > 1 else 0
        return [[z, z]]
    if ncomp == 1:
        return [[0, 1], [0, 1], [0, 1], [1, 0], [0, 0], [0, 2]]
    return [[[0, 0], [1, 0]], [[0, 0], [0, 1]], [[0, 0], [1, 1]], [[0, 0], [1, 0]], [[0, 0], [0, 1]], [[0, 0], [0, 0]], [[0, 1], [1, 0]]]


def build_model(rng, nsite, ncomp, trivial=False, kinds=("spin", "elec", "sho", "multi")):
    """Returns (model, sites) where sites[i] = dict(kind, dofs, ops) and ops is a list of
    (symbol, dofs, matrix, charge vector, qn_list for Op) with a unique charge under the site's sigmaqn."""
    basis = []
    sites = []
    for i in range(nsite):
        kind = rng.choice(kinds)
        if kind == "spin":
            b = BasisHalfSpin("s%d" % i, sigmaqn=rng.choice(_sig_choices(ncomp, trivial)))
            cand = [("I", ["s%d" % i]), ("sigma_z", ["s%d" % i]), ("sigma_+", ["s%d" % i]), ("sigma_-", ["s%d" % i]),
                    ("sigma_x", ["s%d" % i]), ("sigma_y", ["s%d" % i])]
        elif kind == "elec":
            b = BasisSimpleElectron("e%d" % i, sigmaqn=rng.choice(_sig_choices(ncomp, trivial)))
            cand = [("I", ["e%d" % i]), (r"a^\dagger", ["e%d" % i]), ("a", ["e%d" % i]), (r"a^\dagger a", ["e%d" % i, "e%d" % i])]
        elif kind == "sho":
            nb = rng.choice([2, 3, 3, 4])
            b = BasisSHO("v%d" % i, 1.0, nb)
            if ncomp > 1:
                b.sigmaqn = np.zeros((nb, ncomp), dtype=int)
            cand = [("I", ["v%d" % i]), (r"b^\dagger b", ["v%d" % i])]
        else:
            dofs = ["m%d_%d" % (i, k) for k in range(3)]
            if trivial:
                sq = [[0] * ncomp] * 3 if ncomp > 1 else [0, 0, 0]
            elif ncomp == 1:
                sq = rng.choice([[0, 1, 1], [0, 1, 2], [0, 0, 1], [1, 1, 1]])
            else:
                sq = rng.choice([[[0, 0], [1, 0], [0, 1]], [[0, 0], [1, 0], [1, 1]], [[1, 0], [1, 0], [0, 1]]])
            b = BasisMultiElectron(dofs, sq)
            cand = [("I", [dofs[0]])] + [(r"a^\dagger a", [x, y]) for x in dofs for y in dofs]
        basis.append(b)
        sig = np.array(b.sigmaqn).reshape(b.nbas, -1)
        ops = []
        for sym, dofs in cand:
            try:
                mat = np.asarray(b.op_mat(Op(sym, dofs)))
            except Exception:
                continue
            ch = set()
            for r in range(b.nbas):
                for c in range(b.nbas):
                    if mat[r, c] != 0:
                        ch.add(tuple((sig[r] - sig[c]).tolist()))
            if len(ch) != 1:
                continue
            ch = list(ch.pop())
            nsym = len(sym.split(" "))
            # split the charge over the simple symbols: everything on the first one
            qn_list = [ch if ncomp > 1 else ch[0]] + [([0] * ncomp if ncomp > 1 else 0)] * (nsym - 1)
            if kind == "multi" and nsym == 2:
                ix, iy = b.dofs.index(dofs[0]), b.dofs.index(dofs[1])
                qx, qy = sig[ix].tolist(), (-sig[iy]).tolist()
                qn_list = [qx if ncomp > 1 else qx[0], qy if ncomp > 1 else qy[0]]
            ops.append({"symbol": sym, "dofs": dofs, "mat": mat, "charge": ch, "qn": qn_list,
                        "integer": bool(np.all(np.real(mat) == np.round(np.real(mat))) and np.all(np.imag(mat) == np.round(np.imag(mat)))),
                        "complex": bool(np.iscomplexobj(mat) and np.any(np.imag(mat) != 0))})
        sites.append({"kind": kind, "nbas": b.nbas, "sigmaqn": sig.tolist(), "ops": ops})
    model = Model(basis, [])
    return model, sites


def random_sector(rng, sites, mode="any"):
    """A reachable sector: the charge of a random basis configuration (mode 'full' = all sites in their last
    state, 'empty' = all in the first, 'adjacent' = one away from full)."""
    n = len(sites)
    if mode == "full":
        cfg = [s["nbas"] - 1 for s in sites]
    elif mode == "empty":
        cfg = [0] * n
    elif mode == "adjacent":
        cfg = [s["nbas"] - 1 for s in sites]
        k = rng.randrange(n)
        cfg[k] = 0
    else:
        cfg = [rng.randrange(s["nbas"]) for s in sites]
    q = np.zeros(len(sites[0]["sigmaqn"][0]), dtype=int)
    for s, c in zip(sites, cfg):
        q += np.array(s["sigmaqn"][c])
    return q, cfg


def sector_dim(sites, q):
    cnt = 0
    for cfg in itertools.product(*[range(s["nbas"]) for s in sites]):
        t = np.zeros(len(q), dtype=int)
        for s, c in zip(sites, cfg):
            t += np.array(s["sigmaqn"][c])
        if np.all(t == q):
            cnt += 1
    return cnt


def config_charges(sites):
    """array (prod nbas, ncomp): total charge of each basis configuration in todense() order."""
    res = []
    for cfg in itertools.product(*[range(s["nbas"]) for s in sites]):
        t = np.zeros(len(sites[0]["sigmaqn"][0]), dtype=int)
        for s, c in zip(sites, cfg):
            t += np.array(s["sigmaqn"][c])
        res.append(t)
    return np.array(res)


# ----------------------------------------------------------------------------------------- operators
def random_terms(rng, sites, integer, allow_complex, nterm_max=3, want_charge=None):
    """A list of Op with one common total charge.  Returns (terms, charge)."""
    n = len(sites)
    ncomp = len(sites[0]["sigmaqn"][0])

    def one():
        k = rng.randint(1, min(3, n))
        where = sorted(rng.sample(range(n), k))
        syms, dofs, qns = [], [], []
        ch = np.zeros(ncomp, dtype=int)
        cpx = False
        for w in where:
            cands = [o for o in sites[w]["ops"] if (o["integer"] or not integer) and (allow_complex or not o["complex"])]
            o = rng.choice(cands)
            syms.append(o["symbol"])
            dofs += o["dofs"]
            qns += o["qn"]
            ch += np.array(o["charge"])
            cpx = cpx or o["complex"]
        return " ".join(syms), dofs, qns, ch, cpx

    target = None if want_charge is None else np.array(want_charge)
    terms = []
    nterm = rng.randint(1, nterm_max)
    tries = 0
    any_cpx = False
    while len(terms) < nterm and tries < 200:
        tries += 1
        sym, dofs, qns, ch, cpx = one()
        if target is None:
            target = ch
        if not np.all(ch == target):
            continue
        if integer:
            f = rng.choice([1, 1, 2, -1, -2, 3])
            if allow_complex and rng.random() < 0.3:
                f = complex(f, rng.choice([1, -1, 2]))
        else:
            f = rng.uniform(-1.5, 1.5)
            if allow_complex and rng.random() < 0.4:
                f = complex(f, rng.uniform(-1, 1))
        if cpx or isinstance(f, complex):
            f = complex(f)           # a complex local matrix needs a complex factor (dtype is taken from the factors)
            any_cpx = True
        terms.append((sym, dofs, f, qns))
    if any_cpx:
        terms = [(s, d, complex(f), q) for (s, d, f, q) in terms]
    ops = [Op(s, d, f, qn=q) for (s, d, f, q) in terms]
    return ops, (None if target is None else target.tolist()), [(s, d, (f if not isinstance(f, complex) else [f.real, f.imag]), q) for (s, d, f, q) in terms]


def dense_of_terms(sites, terms_desc):
    """Independent dense matrix of sum_k f_k prod (local matrices) via kron."""
    dims = [s["nbas"] for s in sites]
    dof_site = {}
    mats = {}
    for i, s in enumerate(sites):
        for o in s["ops"]:
            for d in o["dofs"]:
                dof_site[d] = i
            mats[(i, o["symbol"], tuple(o["dofs"]))] = o["mat"]
    total = None
    for sym, dofs, f, qn in terms_desc:
        if isinstance(f, list):
            f = complex(f[0], f[1])
        loc = [np.eye(d) for d in dims]
        syms = sym.split(" ")
        pos = 0
        # re-group the simple symbols per site in the order they were emitted (each site contributes one op entry)
        while pos < len(syms):
            i = dof_site[dofs[pos]]
            # find the op entry of site i whose symbol matches the next symbols
            done = False
            for o in sites[i]["ops"]:
                k = len(o["symbol"].split(" "))
                if " ".join(syms[pos:pos + k]) == o["symbol"] and list(dofs[pos:pos + k]) == list(o["dofs"]):
                    loc[i] = loc[i] @ o["mat"]
                    pos += k
                    done = True
                    break
            assert done, (sym, dofs)
        m = np.array([[1.0]])
        for x in loc:
            m = np.kron(m, x)
        total = f * m if total is None else total + f * m
    return total


# ----------------------------------------------------------------------------------------- dense references
def dense_state(mp):
    """tensor part only (no coeff), by explicit contraction"""
    res = np.ones((1, 1))
    for mt in mp:
        a = np.asarray(mt.array)
        res = np.einsum("xl,lpr->xpr", res, a).reshape(-1, a.shape[2])
    return res[:, 0]


def dense_op(mp):
    res = np.ones((1, 1, 1))          # rows, cols, bond
    for mt in mp:
        a = np.asarray(mt.array)
        res = np.einsum("uvl,lpqr->upvqr", res, a)
        res = res.reshape(res.shape[0] * res.shape[1], res.shape[2] * res.shape[3], a.shape[3])
    return res[:, :, 0]


def lossless(mp):
    mp.compress_config = CompressConfig(CompressCriteria.fixed, max_bonddim=4096)
    return mp
