"""C16 correspondence, implementation side: evaluate the local matrices of the basis classes of /repo.

stdin : {"omegas": [...], "x0s": [...], "nbas": [...], "sho_symbols": [...], "sho_symbols_x0": [...],
         "gxp_symbols": [...], "spin_words": [[...], ...], "sine": [[nbas, xi, xf], ...], "nel": n, "hops_nbas": n}
stdout: RESULT {"sho": [[gxp, omega, x0, nbas, symbol, re_rows, im_rows|null], ...], "spin": {...}, ...}
"""
import json
import sys
import warnings

import numpy as np

warnings.filterwarnings("ignore")
from renormalizer.model import basis as B
from renormalizer.model import Op


def rows(m):
    m = np.asarray(m)
    re = [[float(x) for x in r] for r in np.real(m)]
    im = [[float(x) for x in r] for r in np.imag(m)] if np.iscomplexobj(m) else None
    return re, im


def main():
    pl = json.load(sys.stdin)
    out = {"sho": [], "errors": []}
    for gxp in (False, True):
        for omega in pl["omegas"]:
            for x0 in pl["x0s"]:
                for nbas in pl["nbas"]:
                    bs = B.BasisSHO("v", omega=omega, nbas=nbas, x0=x0, general_xp_power=gxp)
                    if gxp:
                        syms = pl["gxp_symbols"]
                    elif x0 == 0:
                        syms = pl["sho_symbols"]
                    else:
                        syms = pl["sho_symbols_x0"]
                    for s in syms:
                        try:
                            re, im = rows(bs.op_mat(s))
                            out["sho"].append([gxp, omega, x0, nbas, s, re, im])
                        except Exception as e:
                            out["errors"].append(["sho", gxp, omega, x0, nbas, s, repr(e)])
    # op_factor is applied linearly
    bs = B.BasisSHO("v", omega=1.0, nbas=4)
    fac = []
    for s in ("x", "p", "x p", "b^\\dagger b"):
        a = bs.op_mat(Op(s, "v", 2.5))
        b_ = bs.op_mat(s) * 2.5
        fac.append(bool(np.allclose(a, b_, rtol=0, atol=1e-14)))
    out["factor_linear"] = fac
    # the general power helper
    xp = []
    for k in range(0, 7):
        xp.append([[float(B.x_power_k(k, m, n)) for n in range(10)] for m in range(10)])
    out["x_power_k"] = xp
    # spin
    hs = B.BasisHalfSpin("s")
    spin = []
    for w in pl["spin_words"]:
        try:
            re, im = rows(hs.op_mat(" ".join(w)))
            spin.append([w, re, im])
        except Exception as e:
            out["errors"].append(["spin", w, repr(e)])
    out["spin"] = spin
    # electrons
    n = pl["nel"]
    dofs = ["e%d" % i for i in range(n)]
    me = B.BasisMultiElectron(dofs, [1] * n)
    mev = B.BasisMultiElectronVac(dofs)
    el = {"me_hop": [], "me_hop_rev": [], "mev_hop": [], "mev_hop_rev": [], "mev_create": [], "mev_annih": []}
    for i in range(n):
        el["mev_create"].append(rows(mev.op_mat(Op(r"a^\dagger", dofs[i])))[0])
        el["mev_annih"].append(rows(mev.op_mat(Op("a", dofs[i])))[0])
        for j in range(n):
            el["me_hop"].append(rows(me.op_mat(Op(r"a^\dagger a", [dofs[i], dofs[j]])))[0])
            el["me_hop_rev"].append(rows(me.op_mat(Op(r"a a^\dagger", [dofs[j], dofs[i]])))[0])
            el["mev_hop"].append(rows(mev.op_mat(Op(r"a^\dagger a", [dofs[i], dofs[j]])))[0])
            el["mev_hop_rev"].append(rows(mev.op_mat(Op(r"a a^\dagger", [dofs[j], dofs[i]])))[0])
    el["me_I"] = rows(me.op_mat(Op("I", dofs[0])))[0]
    el["mev_I"] = rows(mev.op_mat(Op("I", dofs[0])))[0]
    se = B.BasisSimpleElectron("e")
    el["se"] = {s: rows(se.op_mat(s))[0] for s in (r"a^\dagger", "a", r"a^\dagger a", "I")}
    el["dummy"] = rows(B.BasisDummy("d").op_mat("I"))[0]
    out["electron"] = el
    # hops boson
    hb = B.BasisHopsBoson("h", pl["hops_nbas"])
    out["hops"] = {s: rows(hb.op_mat(s))[0] for s in (r"\tilde{b}^\dagger", r"\tilde{b}", r"b^\dagger b", "I")}
    # sine DVR helper matrices (closed forms)
    sine = []
    for nbas, xi, xf in pl["sine"]:
        sb = B.BasisSineDVR("q", nbas, xi, xf)
        sine.append({"nbas": nbas, "xi": xi, "xf": xf, "L": float(sb.L),
                     "du": rows(sb._du())[0], "u": rows(sb._u())[0], "uu": rows(sb._uu())[0],
                     "udu": rows(sb._udu())[0], "uudu": rows(sb._uudu())[0], "p2": rows(sb.op_mat("p^2"))[0]})
    out["sine"] = sine
    print("RESULT " + json.dumps(out))


main()
