"""C08 implementation-side runner (tree DMRG, renormalizer.tn.gs.optimize_ttns).
stdin {"cases": [...]}; stdout RESULT {"results": [...]}.  Per case: a small spin / electron-phonon model on a
tree topology, optimize_ttns with a hook on optimize_2site (every local solve is checked to be a Rayleigh
pair of the dense Hamiltonian at the dense vector obtained by putting the solved two-site tensor back into
the tree), exact diagonalisation per sector from an independent dense Hamiltonian."""
import json
import sys
import time
import traceback

import renormalizer  # noqa: F401
import numpy as np

from renormalizer.model import Model, Op
from renormalizer.model.basis import BasisHalfSpin, BasisSHO, BasisSimpleElectron
from renormalizer.tn import gs as TG
from renormalizer.tn.node import TreeNodeBasis
from renormalizer.tn.tree import TTNO, TTNS
from renormalizer.tn.treebase import BasisTree

sys.path.insert(0, __file__.rsplit("/", 1)[0])
from c08_run import dense_from_terms, model_spin, model_holstein, total_qn  # noqa: E402


def make_tree(basis_list, topo, rng):
    n = len(basis_list)
    if topo == "linear":
        return BasisTree.linear(basis_list)
    if topo == "binary":
        return BasisTree.binary(basis_list)
    if topo == "star":
        # root = site 0; the others hang on it in chains of length <= 2
        nodes = [TreeNodeBasis([b]) for b in basis_list]
        i = 1
        while i < n:
            nodes[0].add_child(nodes[i])
            if i + 1 < n:
                nodes[i].add_child(nodes[i + 1])
            i += 2
        return BasisTree(nodes[0])
    if topo == "multi":
        # first two degrees of freedom share a node; random attachment of the rest
        nodes = [TreeNodeBasis([basis_list[0], basis_list[1]])] + [TreeNodeBasis([b]) for b in basis_list[2:]]
        for k in range(1, len(nodes)):
            nodes[int(rng.integers(k))].add_child(nodes[k])
        return BasisTree(nodes[0])
    if topo == "random":
        nodes = [TreeNodeBasis([b]) for b in basis_list]
        for k in range(1, n):
            nodes[int(rng.integers(k))].add_child(nodes[k])
        return BasisTree(nodes[0])
    raise ValueError(topo)


SOLVES = []
CTX = {}


def install():
    orig = TG.optimize_2site

    def hook(snode, ttns, ttno, ttne):
        e, c = orig(snode, ttns, ttno, ttne)
        rec = {"e": float(e)}
        try:
            hd, sector, order = CTX["hd"], CTX["sector"], CTX["order"]
            trial = ttns.copy()
            idx = ttns.node_idx[snode]
            tnode = trial.node_list[idx]
            # put the solved two-site tensor back exactly (no truncation): m = everything
            trial.update_2site(tnode, np.asarray(c), m=10 ** 6, percent=0, cano_parent=True)
            psi = np.asarray(trial.todense(order)).reshape(-1)
            n2 = float(np.real(np.vdot(psi, psi)))
            rec["norm2"] = n2
            rec["ray_dense_err"] = abs(float(np.real(np.vdot(psi, hd @ psi)) / n2) - float(e)) / max(1.0, abs(float(e)))
            rec["out_of_sector"] = float(np.linalg.norm(psi[~sector])) / np.sqrt(n2)
            rec["mask_dim"] = int(np.sum(ttns.get_qnmask(snode, include_parent=True)))
        except Exception:
            rec["hook_error"] = traceback.format_exc()[-1200:]
        SOLVES.append(rec)
        return e, c
    TG.optimize_2site = hook


def run_case(case):
    out = {"id": case["id"]}
    rng = np.random.default_rng(case["seed"])
    np.random.seed(case["seed"] % (2 ** 32))
    t0 = time.time()
    try:
        if case["kind"] == "spin":
            model = model_spin(case["n"], case.get("qn", True), rng, case.get("enc", "01"))
        else:
            model = model_holstein(case["nmol"], case["nbas"], rng)
        basis_list = list(model.basis)
        tree = make_tree(basis_list, case["topo"], rng)
        hd = dense_from_terms(model)
        tot = total_qn(model)
        if case.get("sector") == "rand":
            qn = [abs(int(x)) for x in tot[int(rng.integers(len(tot)))].tolist()]
        elif case.get("sector") is None:
            qn = [0] * tot.shape[1]
        else:
            qn = list(case["sector"])
        sector = np.all(tot == np.array(qn)[None, :], axis=1)
        if not sector.any():
            out["skip"] = "empty sector"
            return out
        w = np.linalg.eigvalsh(hd[np.ix_(sector, sector)])
        out["exact"] = w[:4].tolist()
        out["sector_dim"] = int(sector.sum())
        out["hilbert_dim"] = int(len(hd))
        out["qn"] = qn
        ttno = TTNO(tree, model.ham_terms)
        out["ttno_dense_err"] = float(np.abs(np.asarray(ttno.todense(basis_list)) - hd).max())
        ttns = TTNS.random(tree, qntot=qn if len(qn) > 1 else qn[0], m_max=case.get("m_init", 8))
        ttns.optimize_config.algo = case.get("algo", "davidson")
        out["nnodes"] = len(ttns.node_list)
        if len(ttns.node_list) < 2:
            out["skip"] = "single node"
            return out
    except Exception:
        out["skip"] = "setup: " + traceback.format_exc()[-800:]
        return out
    SOLVES.clear()
    CTX.update(hd=hd, sector=sector, order=basis_list)
    try:
        es = TG.optimize_ttns(ttns, ttno, [[int(m), float(p)] for m, p in case["procedure"]])
        out["ok"] = True
        out["macro"] = [float(x) for x in es]
    except Exception:
        out["ok"] = False
        out["crash"] = traceback.format_exc()[-1500:]
    out["solves"] = list(SOLVES)
    if out.get("ok"):
        try:
            psi = np.asarray(ttns.todense(basis_list)).reshape(-1)
            n2 = float(np.real(np.vdot(psi, psi)))
            out["final"] = {"norm": float(np.sqrt(n2)), "out_of_sector": float(np.linalg.norm(psi[~sector])),
                            "dense_energy": float(np.real(np.vdot(psi, hd @ psi)) / n2),
                            "expectation_H": float(np.real(ttns.expectation(ttno))),
                            "bond_dims": [int(x) for x in ttns.bond_dims]}
        except Exception:
            out["final"] = {"error": traceback.format_exc()[-800:]}
    out["wall"] = round(time.time() - t0, 3)
    return out


def main():
    payload = json.loads(sys.stdin.read())
    install()
    res = []
    for case in payload["cases"]:
        try:
            res.append(run_case(case))
        except Exception:
            res.append({"id": case.get("id"), "skip": "runner: " + traceback.format_exc()[-800:]})
    # the orchestrator reads stdout only after exit (pipe buffer): large results go through a file
    if payload.get("out"):
        with open(payload["out"], "w") as f:
            json.dump({"results": res}, f)
        print("RESULT " + json.dumps({"file": payload["out"], "n": len(res)}))
    else:
        print("RESULT " + json.dumps({"results": res}))


if __name__ == "__main__":
    main()
