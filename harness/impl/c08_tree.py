"""C08 implementation-side runner (tree DMRG, renormalizer.tn.gs.optimize_ttns).
stdin {"cases": [...]}; stdout RESULT {"results": [...]}.  Per case: a small spin / electron-phonon model on a
tree topology, optimize_ttns with a hook on optimize_2site (every local solve is checked to be a Rayleigh
pair of the dense Hamiltonian at the dense vector obtained by putting the solved two-site tensor back into
the tree), exact diagonalisation per sector from an independent dense Hamiltonian."""
import json
import sys
import time
import traceback

import renormalizer  # noqa: F401
import numpy as np

from renormalizer.model import Model, Op
from renormalizer.model.basis import BasisHalfSpin, BasisSHO, BasisSimpleElectron
from renormalizer.tn import gs as TG
from renormalizer.tn.node import TreeNodeBasis
from renormalizer.tn.tree import TTNO, TTNS
from renormalizer.tn.treebase import BasisTree

sys.path.insert(0, __file__.rsplit("/", 1)[0])
from c08_run import dense_from_terms, model_spin, model_holstein, model_qc, total_qn, extra_terms  # noqa: E402


def model_two_species(n, rng):
    """two conserved particle species on alternating sites (hard-core bosons): labels (n_A, n_B); hops within a species, density
    interactions between them: a generic two-component quantum number"""
    basis = [BasisHalfSpin(i, sigmaqn=np.array([[0, 0], [1, 0]]) if i % 2 == 0 else np.array([[0, 0], [0, 1]])) for i in range(n)]
    terms = [Op("sigma_z", i, float(rng.uniform(-0.8, 0.8))) for i in range(n)]
    for i in range(n - 2):
        t = float(rng.uniform(0.4, 1.2))
        terms += [Op("sigma_+ sigma_-", [i, i + 2], t), Op("sigma_- sigma_+", [i, i + 2], t)]
    for i in range(n - 1):
        terms.append(Op("sigma_z sigma_z", [i, i + 1], float(rng.uniform(-0.9, 0.9))))
    return Model(basis, terms)


def model_sho_spin(ns, nbas, rng):
    """the input of fix a4feae3: an oscillator (no label) at the root and spins with two-component labels below it"""
    basis = [BasisSHO("v", omega=float(rng.uniform(0.5, 1.5)), nbas=nbas, ) ]
    basis[0].sigmaqn = np.zeros((nbas, 2), dtype=int)
    terms = [Op(r"b^\dagger b", "v", float(basis[0].omega))]
    for i in range(ns):
        basis.append(BasisHalfSpin(i, sigmaqn=np.array([[0, 0], [1, 0]]) if i % 2 == 0 else np.array([[0, 0], [0, 1]])))
        terms.append(Op("sigma_z", i, float(rng.uniform(-0.8, 0.8))))
        terms.append(Op("sigma_z", i) * Op(r"b^\dagger+b", "v") * float(rng.uniform(0.2, 0.8)))
    for i in range(ns - 2):
        t = float(rng.uniform(0.4, 1.2))
        terms += [Op("sigma_+ sigma_-", [i, i + 2], t), Op("sigma_- sigma_+", [i, i + 2], t)]
    return Model(basis, terms)


def make_tree(basis_list, topo, rng):
    n = len(basis_list)
    if topo == "linear":
        return BasisTree.linear(basis_list)
    if topo == "binary":
        return BasisTree.binary(basis_list)
    if topo == "star":
        # root = site 0; the others hang on it in chains of length <= 2
        nodes = [TreeNodeBasis([b]) for b in basis_list]
        i = 1
        while i < n:
            nodes[0].add_child(nodes[i])
            if i + 1 < n:
                nodes[i].add_child(nodes[i + 1])
            i += 2
        return BasisTree(nodes[0])
    if topo == "multi":
        # first two degrees of freedom share a node; random attachment of the rest
        nodes = [TreeNodeBasis([basis_list[0], basis_list[1]])] + [TreeNodeBasis([b]) for b in basis_list[2:]]
        for k in range(1, len(nodes)):
            nodes[int(rng.integers(k))].add_child(nodes[k])
        return BasisTree(nodes[0])
    if topo == "random":
        nodes = [TreeNodeBasis([b]) for b in basis_list]
        for k in range(1, n):
            nodes[int(rng.integers(k))].add_child(nodes[k])
        return BasisTree(nodes[0])
    raise ValueError(topo)


SOLVES = []
CTX = {}
EVENTS = []
REG = {}            # id(array) -> (key, current?)   key = (path tuple, slot) with slot -1 = environ_parent, g = environ_children[g]
KEEP = []           # keeps every registered array alive so that ids are never reused
TR = {"on": False, "ttns": None, "ttne": None, "paths": None, "in_build": False}


def node_paths(ttns):
    out = {}

    def rec(node, path):
        out[ttns.node_idx[node]] = tuple(path)
        for i, c in enumerate(node.children):
            rec(c, path + [i])
    rec(ttns.root, [])
    return out


def _register(arr, key):
    for k, (kk, cur) in list(REG.items()):
        if kk == key and cur:
            REG[k] = (kk, False)
    REG[id(arr)] = (key, True)
    KEEP.append(arr)


def _emit(kind, second, path):
    EVENTS.extend([kind, second, len(path)] + list(path))


def _log_reads(args):
    for a in args:
        if isinstance(a, np.ndarray) and id(a) in REG:
            (path, slot), cur = REG[id(a)]
            if cur:
                _emit(1, slot, path)
            else:
                EVENTS.extend([9, 9, 0])        # a tensor that is no longer in the cache was used


def install_trace():
    import renormalizer.tn.tree as TT
    import renormalizer.tn.hop_expr as HE
    o_bc, o_bp, o_bce = TT.TTNEnviron.build_children_environ_node, TT.TTNEnviron.build_parent_environ_node, TT.TTNEnviron.build_children_environ
    o_args, o_ce, o_upd = TT.asxp_oe_args, HE._contract_expression, TT.TTNS.update_2site

    def bce(self, ttns, ttno):
        if TR["on"] and TR["ttne"] is None:        # the cache optimize_ttns builds; later ones (norm, expectation) are not traced
            TR["ttne"] = self
            TR["ttns"] = ttns
            TR["paths"] = node_paths(ttns)
            _register(self.root.environ_parent, ((), -1))
        return o_bce(self, ttns, ttno)

    def bc(self, snode, ttns, ttno):
        if not TR["on"] or snode.parent is None or self is not TR["ttne"]:
            return o_bc(self, snode, ttns, ttno)
        TR["in_build"] = True
        try:
            res = o_bc(self, snode, ttns, ttno)
        finally:
            TR["in_build"] = False
        enode = self.node_list[ttns.node_idx[snode]]
        ich = snode.parent.children.index(snode)
        ppath = TR["paths"][ttns.node_idx[snode.parent]]
        if len(enode.parent.environ_children) > ich:
            _register(enode.parent.environ_children[ich], (ppath, ich))
            _emit(2, ich, ppath)
        else:
            EVENTS.extend([9, 8, 0])
        return res

    def bp(self, snode, ichild, ttns, ttno):
        if not TR["on"] or self is not TR["ttne"]:
            return o_bp(self, snode, ichild, ttns, ttno)
        TR["in_build"] = True
        try:
            res = o_bp(self, snode, ichild, ttns, ttno)
        finally:
            TR["in_build"] = False
        enode = self.node_list[ttns.node_idx[snode]]
        cpath = TR["paths"][ttns.node_idx[snode.children[ichild]]]
        _register(enode.children[ichild].environ_parent, (cpath, -1))
        _emit(2, -1, cpath)
        return res

    def args_hook(args):
        if TR["on"] and TR["in_build"]:
            _log_reads(args)
        return o_args(args)

    def ce(args, x_shape, x_indices, y_indices):
        if TR["on"]:
            _log_reads(args)
        return o_ce(args, x_shape, x_indices, y_indices)

    def upd(self, node, tensor, m=None, percent=0, cano_parent=True):
        if TR["on"] and self is TR["ttns"]:
            _emit(4, 1 if cano_parent else 0, TR["paths"][self.node_idx[node]])
        return o_upd(self, node, tensor, m, percent, cano_parent)

    TT.TTNEnviron.build_children_environ_node, TT.TTNEnviron.build_parent_environ_node, TT.TTNEnviron.build_children_environ = bc, bp, bce
    TT.asxp_oe_args, HE._contract_expression, TT.TTNS.update_2site = args_hook, ce, upd


def install():
    install_trace()
    orig = TG.optimize_2site

    def hook(snode, ttns, ttno, ttne):
        e, c = orig(snode, ttns, ttno, ttne)
        rec = {"e": float(e)}
        try:
            hd, sector, order = CTX["hd"], CTX["sector"], CTX["order"]
            was = TR["on"]
            TR["on"] = False
            trial = ttns.copy()
            idx = ttns.node_idx[snode]
            tnode = trial.node_list[idx]
            # put the solved two-site tensor back exactly (no truncation): m = everything
            trial.update_2site(tnode, np.asarray(c), m=10 ** 6, percent=0, cano_parent=True)
            psi = np.asarray(trial.todense(order)).reshape(-1)
            n2 = float(np.real(np.vdot(psi, psi)))
            rec["norm2"] = n2
            rec["ray_dense_err"] = abs(float(np.real(np.vdot(psi, hd @ psi)) / n2) - float(e)) / max(1.0, abs(float(e)))
            rec["out_of_sector"] = float(np.linalg.norm(psi[~sector])) / np.sqrt(n2)
            rec["mask_dim"] = int(np.sum(ttns.get_qnmask(snode, include_parent=True)))
            rec["algo"] = ttns.optimize_config.algo
        except Exception:
            rec["hook_error"] = traceback.format_exc()[-1200:]
        finally:
            TR["on"] = was
        SOLVES.append(rec)
        if TR["on"] and ttns is TR["ttns"]:
            _emit(3, 0, TR["paths"][ttns.node_idx[snode]])
        return e, c
    TG.optimize_2site = hook


def run_case(case):
    out = {"id": case["id"]}
    rng = np.random.default_rng(case.get("model_seed", case["seed"]))
    np.random.seed(case["seed"] % (2 ** 32))
    t0 = time.time()
    try:
        if case["kind"] == "qc":
            model = model_qc(case["norb"], rng)
        elif case["kind"] == "two_species":
            model = model_two_species(case["n"], rng)
        elif case["kind"] == "sho_spin":
            model = model_sho_spin(case["ns"], case["nbas"], rng)
        elif case["kind"] == "spin":
            model = model_spin(case["n"], case.get("qn", True), rng, case.get("enc", "01"), False, bool(case.get("lr")))
        else:
            model = model_holstein(case["nmol"], case["nbas"], rng, case.get("qn", True))
        basis_list = list(model.basis)
        tree = make_tree(basis_list, case["topo"], rng)
        terms = list(model.ham_terms)
        if case.get("hvar") == "terms":          # the operator handed to the optimiser is not the model's own Hamiltonian
            terms = terms + extra_terms(model, rng)
        hd = dense_from_terms(model, terms)
        tot = total_qn(model)
        if case.get("sector") == "rand":
            qn = [abs(int(x)) for x in tot[int(rng.integers(len(tot)))].tolist()]
        elif case.get("sector") == "mid":
            vals, cnt = np.unique(tot, axis=0, return_counts=True)
            qn = [int(x) for x in vals[int(np.argmax(cnt))]]
        elif case.get("sector") is None:
            qn = [0] * tot.shape[1]
        else:
            qn = list(case["sector"])
        sector = np.all(tot == np.array(qn)[None, :], axis=1)
        if not sector.any():
            out["skip"] = "empty sector"
            return out
        w = np.linalg.eigvalsh(hd[np.ix_(sector, sector)])
        out["exact"] = w[:4].tolist()
        out["sector_dim"] = int(sector.sum())
        out["hilbert_dim"] = int(len(hd))
        out["qn"] = qn
        ttno = TTNO(tree, terms)
        out["ttno_dense_err"] = float(np.abs(np.asarray(ttno.todense(basis_list)) - hd).max())
        ttns = TTNS.random(tree, qntot=qn if len(qn) > 1 else qn[0], m_max=case.get("m_init", 8))
        ttns.optimize_config.algo = case.get("algo", "davidson")
        out["nnodes"] = len(ttns.node_list)
        if len(ttns.node_list) < 2:
            out["skip"] = "single node"
            return out
    except Exception:
        out["skip"] = "setup: " + traceback.format_exc()[-800:]
        return out
    SOLVES.clear()
    EVENTS.clear()
    REG.clear()
    KEEP.clear()
    CTX.update(hd=hd, sector=sector, order=basis_list)
    out["shape"] = [len(nd.children) for nd in ttns.node_list]          # preorder child counts
    TR.update(on=True, ttns=None, ttne=None, paths=None, in_build=False)
    try:
        es = TG.optimize_ttns(ttns, ttno, [[int(m), float(p)] for m, p in case["procedure"]])
        out["ok"] = True
        out["macro"] = [float(x) for x in es]
    except Exception:
        tb = traceback.format_exc()
        if case.get("algo") == "arpack" and "Cannot use scipy.linalg.eigh for LinearOperator" in tb:
            # ARPACK needs k < N: a local problem of dimension 1 (tiny symmetry sector) is outside what this branch can do
            out["skip"] = "arpack not applicable: a local problem has dimension 1 (k >= N)"
            return out
        out["ok"] = False
        out["crash"] = tb[-1500:]
    TR["on"] = False
    out["trace"] = list(EVENTS)
    out["solves"] = list(SOLVES)
    if out.get("ok"):
        try:
            psi = np.asarray(ttns.todense(basis_list)).reshape(-1)
            n2 = float(np.real(np.vdot(psi, psi)))
            out["final"] = {"norm": float(np.sqrt(n2)), "out_of_sector": float(np.linalg.norm(psi[~sector])),
                            "dense_energy": float(np.real(np.vdot(psi, hd @ psi)) / n2),
                            "expectation_H": float(np.real(ttns.expectation(ttno))),
                            "bond_dims": [int(x) for x in ttns.bond_dims]}
        except Exception:
            out["final"] = {"error": traceback.format_exc()[-800:]}
    out["wall"] = round(time.time() - t0, 3)
    return out


def main():
    payload = json.loads(sys.stdin.read())
    install()
    res = []
    for case in payload["cases"]:
        try:
            res.append(run_case(case))
        except Exception:
            res.append({"id": case.get("id"), "skip": "runner: " + traceback.format_exc()[-800:]})
    # the orchestrator reads stdout only after exit (pipe buffer): large results go through a file
    if payload.get("out"):
        with open(payload["out"], "w") as f:
            json.dump({"results": res}, f)
        print("RESULT " + json.dumps({"file": payload["out"], "n": len(res)}))
    else:
        print("RESULT " + json.dumps({"results": res}))


if __name__ == "__main__":
    main()
