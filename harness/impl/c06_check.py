"""Python twin of the Coq checker qn_validb (Model/Qn.v), used only inside repro snippets:
labels_describe_blocks(mps, sites) -> 0 if every entry above 1e-12*max of every site tensor satisfies
Llab_i(l) + sigma_i(p) = Llab_{i+1}(r) and the boundary labels are 0 / qntot, else 1."""
import numpy as np


def labels_describe_blocks(mp, sites, verbose=True):
    n = len(mp)
    tot = np.asarray(mp.qntot).reshape(-1)
    L = []
    for i, q in enumerate(mp.qn):
        q = np.asarray(q).reshape(len(q), -1)
        L.append(q if i <= mp.qnidx else tot - q)
    bad = 0
    if len(mp.qn) != n + 1 or len(L[0]) != 1 or len(L[-1]) != 1 or np.any(L[0][0] != 0) or np.any(L[-1][0] != tot) or not (mp.qnidx < n):
        if verbose:
            print("boundary labels / shape wrong:", [x.tolist() for x in mp.qn], mp.qnidx, tot)
        return 1
    for i, mt in enumerate(mp):
        a = np.abs(np.asarray(mt.array))
        sig = np.array(sites[i]["sigmaqn"])
        if a.shape[0] != len(L[i]) or a.shape[2] != len(L[i + 1]):
            if verbose:
                print("site", i, "label list length does not match the bond dimension")
            return 1
        thr = 1e-12 * max(a.max(), 1e-300)
        for l, p, r in zip(*np.nonzero(a > thr)):
            if np.any(L[i][l] + sig[p] != L[i + 1][r]):
                if verbose and not bad:
                    print("site %d entry (%d,%d,%d) = %g violates %s + %s = %s" % (i, l, p, r, a[l, p, r], L[i][l], sig[p], L[i + 1][r]))
                bad = 1
    return bad


def tree_labels_describe_blocks(ttns, verbose=True):
    """tree twin of ttns_validb: every entry above 1e-12*max of every node tensor satisfies
    sum_i qn_child_i[k_i] + sum_j sigma_j(ph_j) = qn_node[p]; the root bond has dimension 1"""
    bad = 0
    for node in ttns.node_list:
        t = np.abs(np.asarray(node.tensor))
        nc = len(node.children)
        bs = ttns.tn2bn[node].basis_sets
        q = np.asarray(node.qn).reshape(len(node.qn), -1)
        if len(q) != t.shape[-1]:
            if verbose:
                print("label list length does not match the parent bond dimension", t.shape, len(q))
            return 1
        thr = 1e-12 * max(t.max(), 1e-300)
        for idx in np.argwhere(t > thr):
            tot = 0
            for i in range(nc):
                tot = tot + np.asarray(node.children[i].qn).reshape(len(node.children[i].qn), -1)[idx[i]]
            for j, b in enumerate(bs):
                tot = tot + np.asarray(b.sigmaqn).reshape(b.nbas, -1)[idx[nc + j]]
            if np.any(np.asarray(tot).reshape(-1) != q[idx[-1]]):
                if verbose and not bad:
                    print("node entry", idx.tolist(), "violates the label equation:", np.asarray(tot).reshape(-1), "!=", q[idx[-1]])
                bad = 1
    if ttns.root.tensor.shape[-1] != 1:
        bad = 1
    return bad


def op_labels_describe_blocks(mpo, verbose=True, sigmas=None):
    """Operator label invariant, decided with dense NumPy only: for every bond i, every non-zero entry of the dense
    contraction of sites 0..i-1 (rows = configurations (up, down) of those sites, column = bond index r) carries exactly the
    stored left-block label: sum_j (sigma_j(up_j) - sigma_j(down_j)) = Llab_i[r]; the boundary labels are 0 / qntot.
    Returns 0 if it holds, 1 otherwise."""
    import itertools
    n = len(mpo)
    tot = np.asarray(mpo.qntot).reshape(-1)
    L = []
    for i, q in enumerate(mpo.qn):
        q = np.asarray(q).reshape(len(q), -1)
        L.append(q if i <= mpo.qnidx else tot - q)
    if len(mpo.qn) != n + 1 or len(L[0]) != 1 or len(L[-1]) != 1 or np.any(L[0][0] != 0) or np.any(L[-1][0] != tot):
        if verbose:
            print("operator boundary labels wrong", [np.asarray(x).tolist() for x in mpo.qn], mpo.qnidx, tot)
        return 1
    # charges of the physical states: from the operator's model, or first-principles charges supplied by the caller
    sig = [np.asarray(b.sigmaqn).reshape(b.nbas, -1) for b in mpo.model.basis] if sigmas is None else [np.asarray(x).reshape(len(x), -1) for x in sigmas]
    left = np.ones((1, 1))                 # (configurations, bond)
    charges = np.zeros((1, len(tot)), dtype=int)
    for i, mt in enumerate(mpo):
        a = np.asarray(mt.array)
        if a.shape[0] != len(L[i]) or a.shape[3] != len(L[i + 1]):
            if verbose:
                print("operator site", i, ": label list length does not match the bond dimension")
            return 1
        left = np.einsum("xl,lpqr->xpqr", left, a).reshape(-1, a.shape[3])
        d = a.shape[1]
        ch = np.array([sig[i][pu] - sig[i][pd] for pu in range(d) for pd in range(a.shape[2])])
        charges = (charges[:, None, :] + ch[None, :, :]).reshape(-1, len(tot))
        thr = 1e-12 * max(np.abs(left).max(), 1e-300)
        rows, cols = np.nonzero(np.abs(left) > thr)
        bad = np.any(charges[rows] != L[i + 1][cols], axis=1)
        if np.any(bad):
            if verbose:
                k = int(np.nonzero(bad)[0][0])
                print("bond %d: a non-zero block of the left part has charge %s but the stored label of index %d is %s"
                      % (i + 1, charges[rows[k]].tolist(), int(cols[k]), L[i + 1][cols[k]].tolist()))
            return 1
        if left.shape[0] > 200000:
            break
    return 0


def labels_describe_blocks_model(mp, verbose=True):
    """labels_describe_blocks with the charges taken from mp.model.basis"""
    sites = [{"sigmaqn": np.asarray(b.sigmaqn).reshape(b.nbas, -1).tolist()} for b in mp.model.basis]
    return labels_describe_blocks(mp, sites, verbose)
