"""Python twin of the Coq checker qn_validb (Model/Qn.v), used only inside repro snippets:
labels_describe_blocks(mps, sites) -> 0 if every entry above 1e-12*max of every site tensor satisfies
Llab_i(l) + sigma_i(p) = Llab_{i+1}(r) and the boundary labels are 0 / qntot, else 1."""
import numpy as np


def labels_describe_blocks(mp, sites, verbose=True):
    n = len(mp)
    tot = np.asarray(mp.qntot).reshape(-1)
    L = []
    for i, q in enumerate(mp.qn):
        q = np.asarray(q).reshape(len(q), -1)
        L.append(q if i <= mp.qnidx else tot - q)
    bad = 0
    if len(mp.qn) != n + 1 or len(L[0]) != 1 or len(L[-1]) != 1 or np.any(L[0][0] != 0) or np.any(L[-1][0] != tot) or not (mp.qnidx < n):
        if verbose:
            print("boundary labels / shape wrong:", [x.tolist() for x in mp.qn], mp.qnidx, tot)
        return 1
    for i, mt in enumerate(mp):
        a = np.abs(np.asarray(mt.array))
        sig = np.array(sites[i]["sigmaqn"])
        if a.shape[0] != len(L[i]) or a.shape[2] != len(L[i + 1]):
            if verbose:
                print("site", i, "label list length does not match the bond dimension")
            return 1
        thr = 1e-12 * max(a.max(), 1e-300)
        for l, p, r in zip(*np.nonzero(a > thr)):
            if np.any(L[i][l] + sig[p] != L[i + 1][r]):
                if verbose and not bad:
                    print("site %d entry (%d,%d,%d) = %g violates %s + %s = %s" % (i, l, p, r, a[l, p, r], L[i][l], sig[p], L[i + 1][r]))
                bad = 1
    return bad


def tree_labels_describe_blocks(ttns, verbose=True):
    """tree twin of ttns_validb: every entry above 1e-12*max of every node tensor satisfies
    sum_i qn_child_i[k_i] + sum_j sigma_j(ph_j) = qn_node[p]; the root bond has dimension 1"""
    bad = 0
    for node in ttns.node_list:
        t = np.abs(np.asarray(node.tensor))
        nc = len(node.children)
        bs = ttns.tn2bn[node].basis_sets
        q = np.asarray(node.qn).reshape(len(node.qn), -1)
        if len(q) != t.shape[-1]:
            if verbose:
                print("label list length does not match the parent bond dimension", t.shape, len(q))
            return 1
        thr = 1e-12 * max(t.max(), 1e-300)
        for idx in np.argwhere(t > thr):
            tot = 0
            for i in range(nc):
                tot = tot + np.asarray(node.children[i].qn).reshape(len(node.children[i].qn), -1)[idx[i]]
            for j, b in enumerate(bs):
                tot = tot + np.asarray(b.sigmaqn).reshape(b.nbas, -1)[idx[nc + j]]
            if np.any(np.asarray(tot).reshape(-1) != q[idx[-1]]):
                if verbose and not bad:
                    print("node entry", idx.tolist(), "violates the label equation:", np.asarray(tot).reshape(-1), "!=", q[idx[-1]])
                bad = 1
    if ttns.root.tensor.shape[-1] != 1:
        bad = 1
    return bad
