"""C08: pure-stdlib verdicts on the records returned by c08_run.py / c08_tree.py.
Used by harness/c08.py (under python3) and by the replay snippets (under /venv/bin/python).
Every function returns a list of (class, detail) pairs; an empty list means the case is fine."""

TOL_BOUND = 1e-9        # reported energy >= exact - TOL_BOUND * max(1, |exact|)
TOL_EXACT = 1e-7        # full bond dimension: reported == exact
TOL_WIT = 1e-8          # witness checks (Rayleigh pair, isometry)
TOL_SECTOR = 1e-10      # amplitude outside the symmetry sector


def _scale(x):
    return max(1.0, abs(x))


def judge_solves(r, tree=False):
    bad = []
    for k, s in enumerate(r.get("solves", [])):
        if s.get("hook_error"):
            bad.append(("witness-hook", {"solve": k, "error": s["hook_error"][-400:]}))
            continue
        if s.get("skipped"):
            continue
        if s.get("transposed"):
            bad.append(("omega-iterative-transposed", {"solve": k, "what": "omega + iterative solver: (e, c) is a Rayleigh pair of the transpose of the masked two-layer operator, not of the operator",
                                                       "e": s.get("e"), "ray_local_err": s.get("ray_local_err"), "ray_dense_err": s.get("ray_dense_err"), "cidx": s.get("cidx")}))
            continue
        if not tree:
            if s.get("ray_local_err", 0.0) > TOL_WIT:
                bad.append(("witness-rayleigh", {"solve": k, "what": "e != <c|H_eff|c>/<c|c> (H_eff contracted independently, mask applied)", "rec": s}))
            if s.get("herm", 0.0) > 1e-9:
                bad.append(("witness-rayleigh", {"solve": k, "what": "masked H_eff not Hermitian", "rec": s}))
            if s.get("iso_dev", 0.0) > TOL_WIT:
                bad.append(("witness-isometry", {"solve": k, "what": "a site tensor away from the centre is not an isometry when H_eff is formed", "rec": s}))
            if s.get("ortho_err", 0.0) > TOL_WIT:
                bad.append(("witness-rayleigh", {"solve": k, "what": "returned vectors not orthonormal", "rec": s}))
            if s.get("algo") == "direct" and s.get("eig_err", 0.0) > TOL_WIT:
                bad.append(("witness-rayleigh", {"solve": k, "what": "direct solver did not return the lowest eigenvalues of the masked H_eff", "rec": s}))
            if s.get("zero_state"):
                bad.append(("witness-isometry", {"solve": k, "what": "P c = 0 for a non-zero coefficient vector", "rec": s}))
            if s.get("norm_ratio_err", 0.0) > TOL_WIT:
                bad.append(("witness-isometry", {"solve": k, "what": "<Pc|Pc> != <c|c>", "rec": s}))
        if s.get("ray_dense_err", 0.0) > TOL_WIT:
            bad.append(("witness-projection", {"solve": k, "what": "e != <Pc|H|Pc>/<Pc|Pc> with the dense H (H_eff is not P^dagger H P)", "rec": s}))
        if s.get("out_of_sector", 0.0) > TOL_SECTOR:
            bad.append(("witness-sector", {"solve": k, "what": "P c has weight outside the sector (mask not applied)", "rec": s}))
    return bad


def _limits(entry, nb):
    """per-bond limits of one procedure entry (bond k lies to the left of site k; nb = number of sites + 1)"""
    if isinstance(entry, dict):
        return [int(x) for x in entry["max_dims"]] if "max_dims" in entry else [int(entry["m"])] * nb
    return [int(entry)] * nb


def _big(entry, hilbert):
    """no selection at all can drop weight: every limit is at least the dimension of the whole space"""
    if isinstance(entry, dict):
        return "max_dims" not in entry and entry["m"] >= hilbert
    return entry >= hilbert


def _roots(e):
    return list(e) if isinstance(e, (list, tuple)) else [e]


def judge_chain(case, r):
    """variational bound on every micro / macro energy, exactness at full bond dimension, returned states"""
    bad = []
    if r.get("skip"):
        return bad
    if r.get("mpo_dense_err", 0.0) > 1e-9 or r.get("qn_commute_err", 0.0) > 1e-10 or r.get("herm_err", 0.0) > 1e-10:
        return [("invalid-input", {"mpo_dense_err": r.get("mpo_dense_err"), "qn_commute_err": r.get("qn_commute_err")})]
    if not r.get("ok"):
        return [("crash", {"traceback": r.get("crash", "")[-600:]})]
    exact = r["exact"]
    bad += judge_solves(r)
    # bound on everything the API reports
    for isw, sw in enumerate(r.get("micro", [])):
        for es, cidx in sw:
            for k, e in enumerate(_roots(es)):
                if k < len(exact) and e < exact[k] - TOL_BOUND * _scale(exact[k]):
                    bad.append(("variational-bound", {"where": "micro", "sweep": isw, "cidx": cidx, "root": k, "reported": e, "exact": exact[k]}))
    for isw, es in enumerate(r.get("macro", [])):
        for k, e in enumerate(_roots(es)):
            if k < len(exact) and e < exact[k] - TOL_BOUND * _scale(exact[k]):
                bad.append(("variational-bound", {"where": "macro", "sweep": isw, "root": k, "reported": e, "exact": exact[k]}))
    # a local problem whose masked dimension equals the sector dimension spans the whole sector (P unitary): exact
    sd = r["sector_dim"]
    first_full = None
    nsol = 0
    per_sweep = [len(sw) for sw in r.get("micro", [])]
    for k, s in enumerate(r.get("solves", [])):
        if s.get("mask_dim") == sd and not s.get("hook_error") and s.get("algo") == "direct":
            # the local problem spans the whole sector (P unitary): exact for every solver that converges
            # asserted for the dense solver only: Davidson on a whole-sector problem was observed to stop short of the exact
            # value (second root off by 2e-4; (H-omega)^2 off by 2e-2) -- convergence, the residual clause
            if first_full is None:
                first_full = k
            tolx = TOL_EXACT
            for j, e in enumerate(s.get("e", [])):
                if j < len(exact) and abs(e - exact[j]) > tolx * _scale(exact[j]):
                    bad.append(("full-bond-exactness", {"solve": k, "root": j, "reported": e, "exact": exact[j], "mask_dim": sd}))
    r["_full_reached"] = first_full is not None
    # returned states
    fins = r.get("final", [])
    for j, f in enumerate(fins):
        if f.get("error"):
            bad.append(("returned-state", {"root": j, "error": f["error"][-400:]}))
            continue
        if abs(f["norm"] - 1.0) > 1e-8:
            bad.append(("returned-state", {"root": j, "what": "not normalised", "norm": f["norm"], "nroots": len(fins)}))
        if f["out_of_sector"] > TOL_SECTOR:
            bad.append(("returned-state", {"root": j, "what": "weight outside the sector", "w": f["out_of_sector"]}))
        if f["dense_energy"] < exact[0] - TOL_BOUND * _scale(exact[0]):
            bad.append(("variational-bound", {"where": "returned state", "root": j, "energy": f["dense_energy"], "exact": exact[0]}))
        if abs(f["expectation_H"] - f["dense_H"]) > 1e-8 * _scale(f["dense_H"]):
            bad.append(("returned-state", {"root": j, "what": "mps.expectation(mpo) != dense <psi|H|psi>", "exp": f["expectation_H"], "dense": f["dense_H"]}))
    # without truncation (every bond limit >= the Hilbert dimension) the returned state is exactly P c of the local solve
    # at the centre that had the lowest energy in the previous sweep (single_sweep: `if cidx == last_opt_e_idx`),
    # so its energy is the energy reported for that solve -- converged or not
    micro = r.get("micro", [])
    if len(micro) >= 2 and all(_big(m, r.get("hilbert_dim", 10 ** 9)) for m, _ in case["procedure"][: len(micro)]):
        opt = min([[list(_roots(es)), list(cidx)] for es, cidx in micro[-2]])
        hit = [es for es, cidx in micro[-1] if list(cidx) == opt[1]]
        r["_state_vs_solve"] = bool(hit)
        if hit:
            for j, f in enumerate(fins):
                if f.get("error") or j >= len(_roots(hit[0])):
                    continue
                ej = _roots(hit[0])[j]
                if abs(f["dense_energy"] - ej) > TOL_EXACT * _scale(ej):
                    bad.append(("returned-state", {"root": j, "what": "no truncation: the energy of the returned state differs from the energy reported by the local solve it was taken from",
                                                   "state": f["dense_energy"], "solve": ej, "cidx": opt[1]}))
    # exact ranks: no bond of the chain needs more than min(dim left block, dim right block) states
    pd = r.get("pdims") or []
    ranks = [1]
    for cut in range(1, len(pd)):
        lft = rgt = 1
        for x in pd[:cut]:
            lft *= x
        for x in pd[cut:]:
            rgt *= x
        ranks.append(min(lft, rgt))
    ranks.append(1)
    nexec = len(micro)
    lims = [_limits(m, len(pd) + 1) for m, _ in case["procedure"][:nexec]]
    # how far every sweep is above the exact ranks (>= 0: no bond is limited below its exact rank)
    ms = [min(l[k] - ranks[k] for k in range(1, len(pd))) if len(pd) > 1 else 0 for l in lims]
    bound = 0
    # bond-limit conformance: the returned state is a snapshot of the last sweep; no bond may exceed the limit the last two sweeps gave it
    if pd and nexec >= 2:
        for j, f in enumerate(fins):
            bd = f.get("bond_dims")
            if f.get("error") or not bd or len(bd) != len(pd) + 1 or case.get("ofs") or "order_after" in r:
                continue
            over = [(k, bd[k], max(lims[-1][k], lims[-2][k])) for k in range(1, len(pd)) if bd[k] > max(lims[-1][k], lims[-2][k])]
            if over:
                bad.append(("bond-limit", {"root": j, "what": "a bond of the returned state exceeds its own limit", "bond, dimension, limit": over,
                                           "bond_dims": bd, "limits_last_two_sweeps": lims[-2:]}))
    # the optimiser declared convergence itself (stopped before the procedure ended), with a tight tolerance, and the last two
    # sweeps ran at the exact ranks (nothing truncated): the returned state must carry the last reported energy
    if pd and nexec >= 2 and nexec < len(case["procedure"]) and case.get("e_rtol", 1e-6) <= 1e-10 and min(ms[-2:]) >= bound and fins:
        last = _roots(r["macro"][-1])
        r["_stopped_at_exact_ranks"] = True
        for j, f in enumerate(fins):
            if f.get("error") or j >= len(last):
                continue
            if abs(f["dense_energy"] - last[j]) > TOL_EXACT * _scale(last[j]):
                bad.append(("returned-state", {"root": j, "what": "convergence declared at the exact ranks, but the energy of the returned state differs from the last reported energy",
                                               "state": f["dense_energy"], "reported": last[j], "bond_dims": f.get("bond_dims"), "procedure": case["procedure"][:nexec]}))
    # runs that start from a full-rank state, reduce the bond limit and restore it to the exact ranks (two-site): the returned
    # state must be the exact eigenstate and carry the last reported energy, however early the optimiser stops
    if case.get("expect_final_exact") and pd and ms and ms[-1] >= bound and fins and not fins[0].get("error"):
        f = fins[0]
        last = _roots(r["macro"][-1])[0]
        if case.get("expect_bond_dims") and f.get("bond_dims") != ranks:
            bad.append(("returned-state", {"root": 0, "what": "every bond is allowed its exact rank, but the returned state does not have the exact ranks",
                                           "bond_dims": f.get("bond_dims"), "exact_ranks": ranks, "limits": lims[-1]}))
        if case.get("omega") is not None and abs(f["dense_H"] - r.get("exact_H_near_omega", f["dense_H"])) > 1e-6 * _scale(f["dense_H"]):
            bad.append(("returned-state", {"root": 0, "what": "omega targeting at the exact ranks: the energy of the returned state is not the eigenvalue next to omega",
                                           "state_energy": f["dense_H"], "eigenvalue": r.get("exact_H_near_omega"), "bond_dims": f.get("bond_dims")}))
        if abs(f["dense_energy"] - exact[0]) > TOL_EXACT * _scale(exact[0]) or abs(f["dense_energy"] - last) > TOL_EXACT * _scale(last):
            bad.append(("returned-state", {"root": 0, "what": "bond limit restored to the exact ranks: the returned state's <H> must equal the exact eigenvalue and the last reported energy",
                                           "state": f["dense_energy"], "exact": exact[0], "reported_per_sweep": [(_roots(x)[0]) for x in r["macro"]],
                                           "bond_dims": f.get("bond_dims"), "procedure": case["procedure"][:nexec]}))
    # on-the-fly swapping: the input state / operator objects must agree on the site order after the run
    if r.get("input_consistency_err", 0.0) > 1e-9:
        bad.append(("ofs-order", {"what": "after the run the input MPO (swapped in place) is not the operator in the site order the input state carries",
                                  "err": r.get("input_consistency_err"), "order_after": r.get("order_after"), "tb": r.get("input_consistency_tb")}))
    # converged at full bond dimension: last reported energies == exact == energy of the returned states
    if first_full is not None and per_sweep:
        sweep_of_full = 0
        acc = 0
        for isw, cnt in enumerate(per_sweep):
            if first_full < acc + cnt:
                sweep_of_full = isw
                break
            acc += cnt
        no_trunc = all(_big(m, r.get("hilbert_dim", 10 ** 9)) for m, _ in case["procedure"][: len(per_sweep)])
        r["_converged_full"] = bool(no_trunc and sweep_of_full < len(per_sweep) - 1)
        if r["_converged_full"]:
            last = _roots(r["macro"][-1])
            for j, e in enumerate(last):
                if j < len(exact) and abs(e - exact[j]) > TOL_EXACT * _scale(exact[j]):
                    bad.append(("full-bond-exactness", {"where": "last macro energy", "root": j, "reported": e, "exact": exact[j]}))
            for j, f in enumerate(fins):
                if f.get("error") or j >= len(last):
                    continue
                if abs(f["dense_energy"] - last[j]) > TOL_EXACT * _scale(last[j]):
                    bad.append(("returned-state", {"root": j, "what": "energy of the returned state differs from the reported energy at full bond dimension",
                                                   "state": f["dense_energy"], "reported": last[j]}))
                if case.get("omega") is None and case.get("inverse", 1.0) == 1.0 and \
                        abs(f["expectation_H"] - last[j]) > TOL_EXACT * _scale(last[j]):
                    bad.append(("returned-state", {"root": j, "what": "mps.expectation(mpo) of the returned state differs from the reported energy at full bond dimension",
                                                   "expectation": f["expectation_H"], "reported": last[j]}))
    if any(s.get("transposed") for s in r.get("solves", [])):
        # the state written back is the conjugate of the minimiser: its consequences belong to the same finding
        bad = [(("omega-iterative-transposed", d) if k in ("returned-state", "full-bond-exactness") else (k, d)) for k, d in bad]
    return bad


def judge_tree(case, r):
    bad = []
    if r.get("skip"):
        return bad
    if r.get("ttno_dense_err", 0.0) > 1e-9:
        return [("invalid-input", {"ttno_dense_err": r.get("ttno_dense_err")})]
    if not r.get("ok"):
        return [("crash", {"traceback": r.get("crash", "")[-600:]})]
    exact = r["exact"]
    algo = case.get("algo", "davidson")
    bad += [("tree-" + k, d) for k, d in judge_solves(r, tree=True)]
    sd = r["sector_dim"]
    nsw = max(1, len(r.get("macro", [])))
    per_sweep = len(r.get("solves", [])) // nsw if r.get("solves") else 0
    full = False
    first_full_sweep = None
    for k, s in enumerate(r.get("solves", [])):
        e = s["e"]
        if e < exact[0] - TOL_BOUND * _scale(exact[0]):
            bad.append(("tree-variational-bound", {"where": "micro", "solve": k, "reported": e, "exact": exact[0]}))
        if s.get("mask_dim") == sd and not s.get("hook_error"):
            # a two-site problem on the whole sector (P unitary): every solver that asks for the smallest algebraic eigenvalue and
            # converges returns the exact one.  Asserted per solve for the dense and the ARPACK branch (converge to machine
            # precision or raise); the Davidson branch may stop at max_cycle, its FINAL result is asserted below.
            if first_full_sweep is None and per_sweep:
                first_full_sweep = k // per_sweep
            full = True
            if algo in ("direct", "arpack"):
                if abs(e - exact[0]) > TOL_EXACT * _scale(exact[0]):
                    bad.append(("tree-full-bond-exactness", {"solve": k, "algo": algo, "reported": e, "exact": exact[0],
                                                             "note": "the local problem spans the whole sector"}))
            elif abs(e - exact[0]) > TOL_EXACT * _scale(exact[0]):
                r["_iterative_not_converged"] = r.get("_iterative_not_converged", 0) + 1
    r["_full_reached"] = full
    for isw, e in enumerate(r.get("macro", [])):
        if e < exact[0] - TOL_BOUND * _scale(exact[0]):
            bad.append(("tree-variational-bound", {"where": "macro", "sweep": isw, "reported": e, "exact": exact[0]}))
    f = r.get("final", {})
    if f.get("error"):
        bad.append(("tree-returned-state", {"error": f["error"][-400:]}))
    elif f:
        if abs(f["norm"] - 1.0) > 1e-8:
            bad.append(("tree-state-not-normalised", {"what": "the TTNS optimised in place by optimize_ttns is not normalised (truncation in update_2site, no normalisation afterwards)",
                                                      "norm": f["norm"], "procedure": case["procedure"]}))
        if f["out_of_sector"] > TOL_SECTOR:
            bad.append(("tree-returned-state", {"what": "weight outside the sector", "w": f["out_of_sector"]}))
        if f["dense_energy"] < exact[0] - TOL_BOUND * _scale(exact[0]):
            bad.append(("tree-variational-bound", {"where": "returned state", "energy": f["dense_energy"], "exact": exact[0]}))
        if abs(f["expectation_H"] / f["norm"] ** 2 - f["dense_energy"]) > 1e-8 * _scale(f["dense_energy"]):
            bad.append(("tree-returned-state", {"what": "expectation(ttno) != dense energy", "exp": f["expectation_H"], "dense": f["dense_energy"]}))
        no_trunc = all(m >= r.get("hilbert_dim", 10 ** 9) for m, _ in case["procedure"])
        stable = algo in ("direct", "arpack") or (nsw >= 2 and abs(r["macro"][-1] - r["macro"][-2]) <= 1e-9 * _scale(r["macro"][-1]))
        r["_converged_full"] = bool(full and no_trunc and first_full_sweep is not None and first_full_sweep < nsw - 1 and stable)
        if r["_converged_full"]:
            tol = TOL_EXACT if algo in ("direct", "arpack") else 1e-6
            if abs(r["macro"][-1] - exact[0]) > tol * _scale(exact[0]):
                bad.append(("tree-full-bond-exactness", {"where": "last macro energy", "algo": algo, "reported": r["macro"][-1], "exact": exact[0]}))
            if abs(f["dense_energy"] - exact[0]) > tol * _scale(exact[0]):
                bad.append(("tree-full-bond-exactness", {"where": "energy of the returned state", "algo": algo, "state": f["dense_energy"], "exact": exact[0]}))
            if abs(f["dense_energy"] - r["macro"][-1]) > tol * _scale(exact[0]):
                bad.append(("tree-returned-state", {"what": "energy of the final state differs from the reported energy at full bond dimension",
                                                    "state": f["dense_energy"], "reported": r["macro"][-1]}))
    return bad
