"""C08: pure-stdlib verdicts on the records returned by c08_run.py / c08_tree.py.
Used by harness/c08.py (under python3) and by the replay snippets (under /venv/bin/python).
Every function returns a list of (class, detail) pairs; an empty list means the case is fine."""

TOL_BOUND = 1e-9        # reported energy >= exact - TOL_BOUND * max(1, |exact|)
TOL_EXACT = 1e-7        # full bond dimension: reported == exact
TOL_WIT = 1e-8          # witness checks (Rayleigh pair, isometry)
TOL_SECTOR = 1e-10      # amplitude outside the symmetry sector


def _scale(x):
    return max(1.0, abs(x))


def judge_solves(r, tree=False):
    bad = []
    for k, s in enumerate(r.get("solves", [])):
        if s.get("hook_error"):
            bad.append(("witness-hook", {"solve": k, "error": s["hook_error"][-400:]}))
            continue
        if s.get("skipped"):
            continue
        if s.get("transposed"):
            bad.append(("omega-iterative-transposed", {"solve": k, "what": "omega + iterative solver: (e, c) is a Rayleigh pair of the transpose of the masked two-layer operator, not of the operator",
                                                       "e": s.get("e"), "ray_local_err": s.get("ray_local_err"), "ray_dense_err": s.get("ray_dense_err"), "cidx": s.get("cidx")}))
            continue
        if not tree:
            if s.get("ray_local_err", 0.0) > TOL_WIT:
                bad.append(("witness-rayleigh", {"solve": k, "what": "e != <c|H_eff|c>/<c|c> (H_eff contracted independently, mask applied)", "rec": s}))
            if s.get("herm", 0.0) > 1e-9:
                bad.append(("witness-rayleigh", {"solve": k, "what": "masked H_eff not Hermitian", "rec": s}))
            if s.get("iso_dev", 0.0) > TOL_WIT:
                bad.append(("witness-isometry", {"solve": k, "what": "a site tensor away from the centre is not an isometry when H_eff is formed", "rec": s}))
            if s.get("ortho_err", 0.0) > TOL_WIT:
                bad.append(("witness-rayleigh", {"solve": k, "what": "returned vectors not orthonormal", "rec": s}))
            if s.get("algo") == "direct" and s.get("eig_err", 0.0) > TOL_WIT:
                bad.append(("witness-rayleigh", {"solve": k, "what": "direct solver did not return the lowest eigenvalues of the masked H_eff", "rec": s}))
            if s.get("zero_state"):
                bad.append(("witness-isometry", {"solve": k, "what": "P c = 0 for a non-zero coefficient vector", "rec": s}))
            if s.get("norm_ratio_err", 0.0) > TOL_WIT:
                bad.append(("witness-isometry", {"solve": k, "what": "<Pc|Pc> != <c|c>", "rec": s}))
        if s.get("ray_dense_err", 0.0) > TOL_WIT:
            bad.append(("witness-projection", {"solve": k, "what": "e != <Pc|H|Pc>/<Pc|Pc> with the dense H (H_eff is not P^dagger H P)", "rec": s}))
        if s.get("out_of_sector", 0.0) > TOL_SECTOR:
            bad.append(("witness-sector", {"solve": k, "what": "P c has weight outside the sector (mask not applied)", "rec": s}))
    return bad


def _roots(e):
    return list(e) if isinstance(e, (list, tuple)) else [e]


def judge_chain(case, r):
    """variational bound on every micro / macro energy, exactness at full bond dimension, returned states"""
    bad = []
    if r.get("skip"):
        return bad
    if r.get("mpo_dense_err", 0.0) > 1e-9 or r.get("qn_commute_err", 0.0) > 1e-10 or r.get("herm_err", 0.0) > 1e-10:
        return [("invalid-input", {"mpo_dense_err": r.get("mpo_dense_err"), "qn_commute_err": r.get("qn_commute_err")})]
    if not r.get("ok"):
        return [("crash", {"traceback": r.get("crash", "")[-600:]})]
    exact = r["exact"]
    bad += judge_solves(r)
    # bound on everything the API reports
    for isw, sw in enumerate(r.get("micro", [])):
        for es, cidx in sw:
            for k, e in enumerate(_roots(es)):
                if k < len(exact) and e < exact[k] - TOL_BOUND * _scale(exact[k]):
                    bad.append(("variational-bound", {"where": "micro", "sweep": isw, "cidx": cidx, "root": k, "reported": e, "exact": exact[k]}))
    for isw, es in enumerate(r.get("macro", [])):
        for k, e in enumerate(_roots(es)):
            if k < len(exact) and e < exact[k] - TOL_BOUND * _scale(exact[k]):
                bad.append(("variational-bound", {"where": "macro", "sweep": isw, "root": k, "reported": e, "exact": exact[k]}))
    # a local problem whose masked dimension equals the sector dimension spans the whole sector (P unitary): exact
    sd = r["sector_dim"]
    first_full = None
    nsol = 0
    per_sweep = [len(sw) for sw in r.get("micro", [])]
    for k, s in enumerate(r.get("solves", [])):
        if s.get("mask_dim") == sd and not s.get("hook_error") and s.get("algo") == "direct":
            if first_full is None:
                first_full = k
            for j, e in enumerate(s.get("e", [])):
                if j < len(exact) and abs(e - exact[j]) > TOL_EXACT * _scale(exact[j]):
                    bad.append(("full-bond-exactness", {"solve": k, "root": j, "reported": e, "exact": exact[j], "mask_dim": sd}))
    r["_full_reached"] = first_full is not None
    # returned states
    fins = r.get("final", [])
    for j, f in enumerate(fins):
        if f.get("error"):
            bad.append(("returned-state", {"root": j, "error": f["error"][-400:]}))
            continue
        if abs(f["norm"] - 1.0) > 1e-9:
            bad.append(("returned-state", {"root": j, "what": "not normalised", "norm": f["norm"]}))
        if f["out_of_sector"] > TOL_SECTOR:
            bad.append(("returned-state", {"root": j, "what": "weight outside the sector", "w": f["out_of_sector"]}))
        if f["dense_energy"] < exact[0] - TOL_BOUND * _scale(exact[0]):
            bad.append(("variational-bound", {"where": "returned state", "root": j, "energy": f["dense_energy"], "exact": exact[0]}))
        if abs(f["expectation_H"] - f["dense_H"]) > 1e-8 * _scale(f["dense_H"]):
            bad.append(("returned-state", {"root": j, "what": "mps.expectation(mpo) != dense <psi|H|psi>", "exp": f["expectation_H"], "dense": f["dense_H"]}))
    # without truncation (every bond limit >= the Hilbert dimension) the returned state is exactly P c of the local solve
    # at the centre that had the lowest energy in the previous sweep (single_sweep: `if cidx == last_opt_e_idx`),
    # so its energy is the energy reported for that solve -- converged or not
    micro = r.get("micro", [])
    if len(micro) >= 2 and all(m >= r.get("hilbert_dim", 10 ** 9) for m, _ in case["procedure"][: len(micro)]):
        opt = min([[list(_roots(es)), list(cidx)] for es, cidx in micro[-2]])
        hit = [es for es, cidx in micro[-1] if list(cidx) == opt[1]]
        r["_state_vs_solve"] = bool(hit)
        if hit:
            for j, f in enumerate(fins):
                if f.get("error") or j >= len(_roots(hit[0])):
                    continue
                ej = _roots(hit[0])[j]
                if abs(f["dense_energy"] - ej) > TOL_EXACT * _scale(ej):
                    bad.append(("returned-state", {"root": j, "what": "no truncation: the energy of the returned state differs from the energy reported by the local solve it was taken from",
                                                   "state": f["dense_energy"], "solve": ej, "cidx": opt[1]}))
    # converged at full bond dimension: last reported energies == exact == energy of the returned states
    if first_full is not None and per_sweep:
        sweep_of_full = 0
        acc = 0
        for isw, cnt in enumerate(per_sweep):
            if first_full < acc + cnt:
                sweep_of_full = isw
                break
            acc += cnt
        no_trunc = all(m >= r.get("hilbert_dim", 10 ** 9) for m, _ in case["procedure"][: len(per_sweep)])
        r["_converged_full"] = bool(no_trunc and sweep_of_full < len(per_sweep) - 1)
        if r["_converged_full"]:
            last = _roots(r["macro"][-1])
            for j, e in enumerate(last):
                if j < len(exact) and abs(e - exact[j]) > TOL_EXACT * _scale(exact[j]):
                    bad.append(("full-bond-exactness", {"where": "last macro energy", "root": j, "reported": e, "exact": exact[j]}))
            for j, f in enumerate(fins):
                if f.get("error") or j >= len(last):
                    continue
                if abs(f["dense_energy"] - last[j]) > TOL_EXACT * _scale(last[j]):
                    bad.append(("returned-state", {"root": j, "what": "energy of the returned state differs from the reported energy at full bond dimension",
                                                   "state": f["dense_energy"], "reported": last[j]}))
                if case.get("omega") is None and case.get("inverse", 1.0) == 1.0 and \
                        abs(f["expectation_H"] - last[j]) > TOL_EXACT * _scale(last[j]):
                    bad.append(("returned-state", {"root": j, "what": "mps.expectation(mpo) of the returned state differs from the reported energy at full bond dimension",
                                                   "expectation": f["expectation_H"], "reported": last[j]}))
    if any(s.get("transposed") for s in r.get("solves", [])):
        # the state written back is the conjugate of the minimiser: its consequences belong to the same finding
        bad = [(("omega-iterative-transposed", d) if k in ("returned-state", "full-bond-exactness") else (k, d)) for k, d in bad]
    return bad


def judge_tree(case, r):
    bad = []
    if r.get("skip"):
        return bad
    if r.get("ttno_dense_err", 0.0) > 1e-9:
        return [("invalid-input", {"ttno_dense_err": r.get("ttno_dense_err")})]
    if not r.get("ok"):
        return [("crash", {"traceback": r.get("crash", "")[-600:]})]
    exact = r["exact"]
    bad += [("tree-" + k, d) for k, d in judge_solves(r, tree=True)]
    sd = r["sector_dim"]
    full = False
    for k, s in enumerate(r.get("solves", [])):
        e = s["e"]
        if e < exact[0] - TOL_BOUND * _scale(exact[0]):
            bad.append(("tree-variational-bound", {"where": "micro", "solve": k, "reported": e, "exact": exact[0]}))
        # a two-site problem on the whole sector is exact IF the eigen-solver is: asserted for the direct solver
        # only (Davidson may stop at / converge to a higher Ritz value: convergence is residual, it is counted)
        if s.get("mask_dim") == sd and not s.get("hook_error"):
            if case.get("algo") == "direct":
                full = True
                if abs(e - exact[0]) > TOL_EXACT * _scale(exact[0]):
                    bad.append(("tree-full-bond-exactness", {"solve": k, "reported": e, "exact": exact[0]}))
            elif abs(e - exact[0]) > TOL_EXACT * _scale(exact[0]):
                r["_iterative_not_converged"] = r.get("_iterative_not_converged", 0) + 1
    r["_full_reached"] = full
    for isw, e in enumerate(r.get("macro", [])):
        if e < exact[0] - TOL_BOUND * _scale(exact[0]):
            bad.append(("tree-variational-bound", {"where": "macro", "sweep": isw, "reported": e, "exact": exact[0]}))
    f = r.get("final", {})
    if f.get("error"):
        bad.append(("tree-returned-state", {"error": f["error"][-400:]}))
    elif f:
        if abs(f["norm"] - 1.0) > 1e-9:
            bad.append(("tree-state-not-normalised", {"what": "the TTNS optimised in place by optimize_ttns is not normalised (truncation in update_2site, no normalisation afterwards)",
                                                      "norm": f["norm"], "procedure": case["procedure"]}))
        if f["out_of_sector"] > TOL_SECTOR:
            bad.append(("tree-returned-state", {"what": "weight outside the sector", "w": f["out_of_sector"]}))
        if f["dense_energy"] < exact[0] - TOL_BOUND * _scale(exact[0]):
            bad.append(("tree-variational-bound", {"where": "returned state", "energy": f["dense_energy"], "exact": exact[0]}))
        if abs(f["expectation_H"] / f["norm"] ** 2 - f["dense_energy"]) > 1e-8 * _scale(f["dense_energy"]):
            bad.append(("tree-returned-state", {"what": "expectation(ttno) != dense energy", "exp": f["expectation_H"], "dense": f["dense_energy"]}))
        no_trunc = all(m >= r.get("hilbert_dim", 10 ** 9) for m, _ in case["procedure"])
        if full and no_trunc and len(r.get("macro", [])) >= 2:
            if abs(r["macro"][-1] - exact[0]) > TOL_EXACT * _scale(exact[0]):
                bad.append(("tree-full-bond-exactness", {"where": "last macro energy", "reported": r["macro"][-1], "exact": exact[0]}))
            if abs(f["dense_energy"] - r["macro"][-1]) > TOL_EXACT * _scale(exact[0]):
                bad.append(("tree-returned-state", {"what": "energy of the final state differs from the reported energy at full bond dimension",
                                                    "state": f["dense_energy"], "reported": r["macro"][-1]}))
    return bad
