"""C01 dense oracle (failing-input search) on the unmodified code path (no wrappers installed).
stdin: {"cases":[...], "algos":[...]}.  For each case and construction algorithm:
  Mpo(model, terms, offset, algo).todense()  vs  sum_k f_k kron(local matrices) - offset*I  (own NumPy reference),
then, if the case has "swaps", the sequence of adjacent swaps through Mpo.try_swap_site(new_model, False
[, algo=swap_algo]) compared with the reference in the permuted site order after every swap.
Output: list of failures {id, algo, stage, kind: exception|mismatch, detail}."""
import json
import sys
import traceback

import renormalizer  # noqa: F401
import numpy as np

import c01_lib as L
from renormalizer.model import Model
from renormalizer.mps import Mpo

TOL = 1e-9
TOL_QR = 1e-8     # _decompose_qr drops entries below 1e-10 (relative) at every site by design


def _symbolic(mpo):
    res = []
    for b in mpo.symbolic_out_ops_list:
        bb = []
        for oo in b:
            oo = oo if isinstance(oo, list) else [oo]
            bb.append(sorted((tuple(int(v) for v in o.symbol), complex(o.factor)) for o in oo))
        res.append(bb)
    return res


def scale_twin_check(case, algo, mpo):
    import copy
    k = case["scale_exp"]
    c = 2.0 ** k
    twin = copy.deepcopy(case)
    for t in twin["terms"]:
        t["f"] = [t["f"][0] * c, t["f"][1] * c]
    twin["offset"] = twin["offset"] * c
    if twin.get("offset_unit"):
        twin["offset_value"] = twin["offset_value"] * c
    basis, terms, offset = L.build(twin)
    mpo2 = L.make_mpo(twin, algo)[0]
    if list(mpo.bond_dims) != list(mpo2.bond_dims):
        return "bond dimensions change under an overall scale 2^-%d: %s vs %s" % (k, list(mpo.bond_dims), list(mpo2.bond_dims))
    s1, s2 = _symbolic(mpo), _symbolic(mpo2)
    if [[[x[0] for x in oo] for oo in b] for b in s1] != [[[x[0] for x in oo] for oo in b] for b in s2]:
        return "symbolic structure (out-op keys) changes under an overall scale 2^-%d" % k
    for b1, b2 in zip(s1, s2):
        for o1, o2 in zip(b1, b2):
            for (k1, f1), (k2, f2) in zip(o1, o2):
                if not (f1 * c == f2 or (f1 == 1 and f2 == 1)):
                    return "out-op factor %r is neither 2^-%d times its twin %r nor a literal 1" % (f1, k, f2)
    err = L.rel_err(mpo.todense() * c, mpo2.todense())
    if not err <= 1e-12:
        return "MPO(c*H) != c*MPO(H) for c = 2^-%d: relative difference %.3e" % (k, err)
    return None


def check_many_terms(spec):
    """SCALE case: all 5^n products of {I, sigma_x, sigma_z, sigma_+, sigma_-} over n spin sites, a different integer
    coefficient each (n = 7: 78125 > 65535 distinct terms); reference by contracting the coefficient tensor with
    the 2x2 matrices site by site (NumPy only)"""
    import itertools
    from renormalizer.model import Op
    from renormalizer.model.basis import BasisHalfSpin
    n = spec["n"]
    syms = ["I", "sigma_x", "sigma_z", "sigma_+", "sigma_-"]
    mats = np.array([[[1., 0], [0, 1]], [[0, 1.], [1, 0]], [[1., 0], [0, -1]], [[0, 1.], [0, 0]], [[0, 0.], [1, 0]]])
    rng = np.random.default_rng(spec.get("seed", 0))
    C = rng.integers(1, 1000, size=(5,) * n).astype(float)
    T = C
    for _ in range(n):
        T = np.tensordot(T, mats, axes=([0], [0]))
    ref = T.transpose(list(range(0, 2 * n, 2)) + list(range(1, 2 * n, 2))).reshape(2 ** n, 2 ** n)
    dofs = list(range(n))
    terms = [Op(" ".join(syms[k] for k in ks), dofs, C[ks]) for ks in itertools.product(range(5), repeat=n)]
    fails = []
    ne = 0
    for algo in spec["algos"]:
        try:
            mpo = Mpo(Model([BasisHalfSpin(i) for i in range(n)], []), terms, algo=algo)
            err = L.rel_err(mpo.todense(), ref)
            ne += 1
            if not err <= (TOL_QR if algo.startswith("qr") else TOL):
                fails.append({"id": -7, "algo": algo, "stage": "manyterms", "kind": "mismatch",
                              "detail": "%d terms: relative error %.3e" % (len(terms), err)})
        except Exception as e:
            fails.append({"id": -7, "algo": algo, "stage": "manyterms", "kind": "exception",
                          "detail": "%s: %s" % (type(e).__name__, str(e)[:200]), "where": traceback.format_exc()[-500:]})
    return fails, ne


def check_case(case, algos):
    fails = []
    n_eval = 0
    n_swap = 0
    basis, terms, offset = L.build(case)
    ref = L.ref_dense(case)
    for algo in case.get("algos", algos):
        tol = TOL_QR if algo.startswith("qr") else TOL
        try:
            mpo, model = L.make_mpo(case, algo)
            err = L.rel_err(mpo.todense(), ref)
            n_eval += 1
        except Exception as e:
            fails.append({"id": case["id"], "algo": algo, "stage": "construct", "kind": "exception",
                          "detail": "%s: %s" % (type(e).__name__, str(e)[:200]), "where": traceback.format_exc()[-500:]})
            continue
        if not err <= tol:
            fails.append({"id": case["id"], "algo": algo, "stage": "construct", "kind": "mismatch", "detail": err})
            continue
        if case.get("scale_exp") and not algo.startswith("qr"):
            # overall-scale invariance: the case is 2^-k times its twin; same symbolic structure, operator exactly scaled
            msg = scale_twin_check(case, algo, mpo)
            n_eval += 1
            if msg:
                fails.append({"id": case["id"], "algo": algo, "stage": "scale", "kind": "mismatch", "detail": msg})
                continue
        if case.get("swaps"):
            order = list(range(len(case["sites"])))
            for k, pos in enumerate(case["swaps"]):
                order[pos], order[pos + 1] = order[pos + 1], order[pos]
                nb = [L.make_basis(i, case["sites"][i]) for i in order]
                try:
                    if case.get("swap_algo"):
                        mpo.try_swap_site(Model(nb, []), False, algo=case["swap_algo"])
                    else:
                        mpo.try_swap_site(Model(nb, []), False)
                    err = L.rel_err(mpo.todense(), L.ref_dense(case, order))
                    n_swap += 1
                except Exception as e:
                    fails.append({"id": case["id"], "algo": algo, "stage": "swap", "nswap": k, "kind": "exception",
                                  "detail": "%s: %s" % (type(e).__name__, str(e)[:200]),
                                  "where": traceback.format_exc()[-500:]})
                    break
                if not err <= tol:
                    fails.append({"id": case["id"], "algo": algo, "stage": "swap", "nswap": k, "kind": "mismatch", "detail": err})
                    break
    return fails, n_eval, n_swap


def check_history(h):
    """several Mpo constructions in ONE process sharing DoF names and sizes but differing in basis parameters
    (SHO omega / x0), algorithm and model.mpos cache use, each against its own dense reference; the first
    operator is re-checked (same object and a fresh construction) at the end"""
    fails = []
    n = 0
    kept = []

    def fail(k, algo, kind, detail, where=None):
        fails.append({"id": h["id"], "algo": algo, "stage": "history", "step": k, "kind": kind, "detail": detail, "where": where})
    pool = {} if h.get("share_ops") else None      # the SAME Op objects are reused by every construction of the history
    for k, case in enumerate(h["steps"]):
        algo = case["algo"]
        tol = TOL_QR if algo.startswith("qr") else TOL
        try:
            basis, terms, offset = L.build(case, pool=pool)
            ref = L.ref_dense(case)
            model = Model(basis, terms if case.get("ham") else [])
            if case.get("via_cache"):
                mk = lambda m: [Mpo(m, terms, offset=offset, algo=algo)]
                mpo = model.get_mpos("c01", mk)[0]
                if model.get_mpos("c01", mk)[0] is not mpo:
                    fail(k, algo, "mismatch", "model.get_mpos returned a different object on the second call")
            else:
                mpo = Mpo(model, terms, offset=offset, algo=algo)
            err = L.rel_err(mpo.todense(), ref)
            n += 1
        except Exception as e:
            fail(k, algo, "exception", "%s: %s" % (type(e).__name__, str(e)[:200]), traceback.format_exc()[-500:])
            continue
        if not err <= tol:
            fail(k, algo, "mismatch", err)
        kept.append((mpo, ref, case, tol))
    if kept:
        mpo, ref, case, tol = kept[0]
        try:
            err = L.rel_err(mpo.todense(), ref)                       # the first operator was not disturbed
            if not err <= tol:
                fail(-1, case["algo"], "mismatch", "first operator changed by later constructions: %s" % err)
            basis, terms, offset = L.build(case)                      # and a fresh construction still agrees
            err = L.rel_err(Mpo(Model(basis, []), terms, offset=offset, algo=case["algo"]).todense(), ref)
            n += 2
            if not err <= tol:
                fail(-1, case["algo"], "mismatch", "re-construction of the first operator at the end differs: %s" % err)
        except Exception as e:
            fail(-1, case["algo"], "exception", "%s: %s" % (type(e).__name__, str(e)[:200]), traceback.format_exc()[-500:])
    return fails, n


def main():
    payload = json.load(sys.stdin)
    fails = []
    ne = ns = 0
    nh = 0
    if payload.get("many_terms"):
        f, a = check_many_terms(payload["many_terms"])
        fails += f
        ne += a
    for h in payload.get("histories", []):
        try:
            f, a = check_history(h)
            fails += f
            nh += a
        except Exception:
            fails.append({"id": h["id"], "algo": None, "stage": "harness", "kind": "exception",
                          "detail": traceback.format_exc()[-600:]})
    for case in payload.get("cases", []):
        try:
            f, a, b = check_case(case, payload["algos"])
            fails += f
            ne += a
            ns += b
        except Exception:
            fails.append({"id": case["id"], "algo": None, "stage": "harness", "kind": "exception",
                          "detail": traceback.format_exc()[-600:]})
    print("RESULT " + json.dumps({"fails": fails, "n_construct": ne, "n_swap": ns, "n_history": nh}))


if __name__ == "__main__":
    main()
