"""C01 dense oracle (failing-input search) on the unmodified code path (no wrappers installed).
stdin: {"cases":[...], "algos":[...]}.  For each case and construction algorithm:
  Mpo(model, terms, offset, algo).todense()  vs  sum_k f_k kron(local matrices) - offset*I  (own NumPy reference),
then, if the case has "swaps", the sequence of adjacent swaps through Mpo.try_swap_site(new_model, False
[, algo=swap_algo]) compared with the reference in the permuted site order after every swap.
Output: list of failures {id, algo, stage, kind: exception|mismatch, detail}."""
import json
import sys
import traceback

import renormalizer  # noqa: F401
import numpy as np

import c01_lib as L
from renormalizer.model import Model
from renormalizer.mps import Mpo

TOL = 1e-9
TOL_QR = 1e-8     # _decompose_qr drops entries below 1e-10 (relative) at every site by design


def check_case(case, algos):
    fails = []
    n_eval = 0
    n_swap = 0
    basis, terms, offset = L.build(case)
    ref = L.ref_dense(case)
    for algo in case.get("algos", algos):
        tol = TOL_QR if algo.startswith("qr") else TOL
        try:
            model = Model(basis, [])
            mpo = Mpo(model, terms, offset=offset, algo=algo)
            err = L.rel_err(mpo.todense(), ref)
            n_eval += 1
        except Exception as e:
            fails.append({"id": case["id"], "algo": algo, "stage": "construct", "kind": "exception",
                          "detail": "%s: %s" % (type(e).__name__, str(e)[:200]), "where": traceback.format_exc()[-500:]})
            continue
        if not err <= tol:
            fails.append({"id": case["id"], "algo": algo, "stage": "construct", "kind": "mismatch", "detail": err})
            continue
        if case.get("swaps"):
            order = list(range(len(case["sites"])))
            for k, pos in enumerate(case["swaps"]):
                order[pos], order[pos + 1] = order[pos + 1], order[pos]
                nb = [L.make_basis(i, case["sites"][i]) for i in order]
                try:
                    if case.get("swap_algo"):
                        mpo.try_swap_site(Model(nb, []), False, algo=case["swap_algo"])
                    else:
                        mpo.try_swap_site(Model(nb, []), False)
                    err = L.rel_err(mpo.todense(), L.ref_dense(case, order))
                    n_swap += 1
                except Exception as e:
                    fails.append({"id": case["id"], "algo": algo, "stage": "swap", "nswap": k, "kind": "exception",
                                  "detail": "%s: %s" % (type(e).__name__, str(e)[:200]),
                                  "where": traceback.format_exc()[-500:]})
                    break
                if not err <= tol:
                    fails.append({"id": case["id"], "algo": algo, "stage": "swap", "nswap": k, "kind": "mismatch", "detail": err})
                    break
    return fails, n_eval, n_swap


def check_history(h):
    """several Mpo constructions in ONE process sharing DoF names and sizes but differing in basis parameters
    (SHO omega / x0), algorithm and model.mpos cache use, each against its own dense reference; the first
    operator is re-checked (same object and a fresh construction) at the end"""
    fails = []
    n = 0
    kept = []

    def fail(k, algo, kind, detail, where=None):
        fails.append({"id": h["id"], "algo": algo, "stage": "history", "step": k, "kind": kind, "detail": detail, "where": where})
    for k, case in enumerate(h["steps"]):
        algo = case["algo"]
        tol = TOL_QR if algo.startswith("qr") else TOL
        try:
            basis, terms, offset = L.build(case)
            ref = L.ref_dense(case)
            model = Model(basis, terms if case.get("ham") else [])
            if case.get("via_cache"):
                mk = lambda m: [Mpo(m, terms, offset=offset, algo=algo)]
                mpo = model.get_mpos("c01", mk)[0]
                if model.get_mpos("c01", mk)[0] is not mpo:
                    fail(k, algo, "mismatch", "model.get_mpos returned a different object on the second call")
            else:
                mpo = Mpo(model, terms, offset=offset, algo=algo)
            err = L.rel_err(mpo.todense(), ref)
            n += 1
        except Exception as e:
            fail(k, algo, "exception", "%s: %s" % (type(e).__name__, str(e)[:200]), traceback.format_exc()[-500:])
            continue
        if not err <= tol:
            fail(k, algo, "mismatch", err)
        kept.append((mpo, ref, case, tol))
    if kept:
        mpo, ref, case, tol = kept[0]
        try:
            err = L.rel_err(mpo.todense(), ref)                       # the first operator was not disturbed
            if not err <= tol:
                fail(-1, case["algo"], "mismatch", "first operator changed by later constructions: %s" % err)
            basis, terms, offset = L.build(case)                      # and a fresh construction still agrees
            err = L.rel_err(Mpo(Model(basis, []), terms, offset=offset, algo=case["algo"]).todense(), ref)
            n += 2
            if not err <= tol:
                fail(-1, case["algo"], "mismatch", "re-construction of the first operator at the end differs: %s" % err)
        except Exception as e:
            fail(-1, case["algo"], "exception", "%s: %s" % (type(e).__name__, str(e)[:200]), traceback.format_exc()[-500:])
    return fails, n


def main():
    payload = json.load(sys.stdin)
    fails = []
    ne = ns = 0
    nh = 0
    for h in payload.get("histories", []):
        try:
            f, a = check_history(h)
            fails += f
            nh += a
        except Exception:
            fails.append({"id": h["id"], "algo": None, "stage": "harness", "kind": "exception",
                          "detail": traceback.format_exc()[-600:]})
    for case in payload["cases"]:
        try:
            f, a, b = check_case(case, payload["algos"])
            fails += f
            ne += a
            ns += b
        except Exception:
            fails.append({"id": case["id"], "algo": None, "stage": "harness", "kind": "exception",
                          "detail": traceback.format_exc()[-600:]})
    print("RESULT " + json.dumps({"fails": fails, "n_construct": ne, "n_swap": ns, "n_history": nh}))


if __name__ == "__main__":
    main()
