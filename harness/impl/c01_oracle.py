"""C01 dense oracle (failing-input search) on the unmodified code path (no wrappers installed).
stdin: {"cases":[...], "algos":[...]}.  For each case and construction algorithm:
  Mpo(model, terms, offset, algo).todense()  vs  sum_k f_k kron(local matrices) - offset*I  (own NumPy reference),
then, if the case has "swaps", the sequence of adjacent swaps through Mpo.try_swap_site(new_model, False
[, algo=swap_algo]) compared with the reference in the permuted site order after every swap.
Output: list of failures {id, algo, stage, kind: exception|mismatch, detail}."""
import json
import sys
import traceback

import renormalizer  # noqa: F401
import numpy as np

import c01_lib as L
from renormalizer.model import Model
from renormalizer.mps import Mpo

TOL = 1e-9
TOL_QR = 1e-8     # _decompose_qr drops entries below 1e-10 (relative) at every site by design


def check_case(case, algos):
    fails = []
    n_eval = 0
    n_swap = 0
    basis, terms, offset = L.build(case)
    ref = L.ref_dense(case)
    for algo in case.get("algos", algos):
        tol = TOL_QR if algo.startswith("qr") else TOL
        try:
            model = Model(basis, [])
            mpo = Mpo(model, terms, offset=offset, algo=algo)
            err = L.rel_err(mpo.todense(), ref)
            n_eval += 1
        except Exception as e:
            fails.append({"id": case["id"], "algo": algo, "stage": "construct", "kind": "exception",
                          "detail": "%s: %s" % (type(e).__name__, str(e)[:200]), "where": traceback.format_exc()[-500:]})
            continue
        if not err <= tol:
            fails.append({"id": case["id"], "algo": algo, "stage": "construct", "kind": "mismatch", "detail": err})
            continue
        if case.get("swaps"):
            order = list(range(len(case["sites"])))
            for k, pos in enumerate(case["swaps"]):
                order[pos], order[pos + 1] = order[pos + 1], order[pos]
                nb = [L.make_basis(i, case["sites"][i]) for i in order]
                try:
                    if case.get("swap_algo"):
                        mpo.try_swap_site(Model(nb, []), False, algo=case["swap_algo"])
                    else:
                        mpo.try_swap_site(Model(nb, []), False)
                    err = L.rel_err(mpo.todense(), L.ref_dense(case, order))
                    n_swap += 1
                except Exception as e:
                    fails.append({"id": case["id"], "algo": algo, "stage": "swap", "nswap": k, "kind": "exception",
                                  "detail": "%s: %s" % (type(e).__name__, str(e)[:200]),
                                  "where": traceback.format_exc()[-500:]})
                    break
                if not err <= tol:
                    fails.append({"id": case["id"], "algo": algo, "stage": "swap", "nswap": k, "kind": "mismatch", "detail": err})
                    break
    return fails, n_eval, n_swap


def main():
    payload = json.load(sys.stdin)
    fails = []
    ne = ns = 0
    for case in payload["cases"]:
        try:
            f, a, b = check_case(case, payload["algos"])
            fails += f
            ne += a
            ns += b
        except Exception:
            fails.append({"id": case["id"], "algo": None, "stage": "harness", "kind": "exception",
                          "detail": traceback.format_exc()[-600:]})
    print("RESULT " + json.dumps({"fails": fails, "n_construct": ne, "n_swap": ns}))


if __name__ == "__main__":
    main()
