"""C04 implementation-side runner: oracle replay of svd_qn + executed schedules + dense oracle.

stdin: {"specs": [spec...], "nsamples": k}         (spec: see c04_gen.build)
stdout: RESULT {"ops": [...], "fails": [...], "stats": {...}, "samples": [...]}

For every generated object and both sweep directions it runs canonicalise (full, every stop index, repeated),
lossless compress, ensure_left/right_canonical and a malformed-entry call, with
  * renormalizer.mps.svd_qn.svd_qn wrapped: the contract dec_ok is checked on every call,
  * _push_cano / _update_ms wrapped: the executed schedule is logged,
  * an independent NumPy oracle: dense before/after (prefactor included), isometry of the sites away from
    the centre recomputed from the tensors, bond dimensions, labels/sector bookkeeping, idempotence.
"""
import json
import random
import sys
import traceback

import renormalizer  # noqa: F401  (before numpy)
import numpy as np

import renormalizer.mps.svd_qn as SQ
import renormalizer.mps.mp as MP

from renormalizer.mps.lib import compressed_sum, _sum
from renormalizer.utils import CompressConfig, CompressCriteria

import c04_gen as G

TOL = 1e-9
from renormalizer.mps.backend import backend as _backend
DOC_ATOL, DOC_RTOL = float(_backend.canonical_atol), float(_backend.canonical_rtol)     # documented tolerances (1e-8 / 1e-5)

STATE = {"trace_push": None, "trace_upd": None, "calls": 0, "qr": 0, "svd": 0, "bad": [], "maxres": 0.0, "maxorth": 0.0,
         "blocks_deficient": 0}

_orig_svd_qn = SQ.svd_qn


def _wrapped_svd_qn(coef_array, qnbigl, qnbigr, qntot, QR=False, system=None, full_matrices=True, opt_full_matrices=True):
    out = _orig_svd_qn(coef_array, qnbigl, qnbigr, qntot, QR=QR, system=system, full_matrices=full_matrices,
                       opt_full_matrices=opt_full_matrices)
    try:
        rows = int(np.prod(qnbigl.shape[:-1]))
        cols = int(np.prod(qnbigr.shape[:-1]))
        M = np.asarray(coef_array).reshape(rows, cols)
        nM = np.linalg.norm(M)
        nM = nM if nM > 0 else 1.0          # an exactly zero input: residual must be exactly zero as well
        STATE["calls"] += 1
        if QR:
            STATE["qr"] += 1
            u, ql, v, qr_ = out
            k = u.shape[1]
            res = np.linalg.norm(u @ v.T - M) / nM
            if system == "L":
                orth = np.abs(u.conj().T @ u - np.eye(k)).max() if k else 0.0
            else:
                orth = np.abs(v.conj().T @ v - np.eye(k)).max() if k else 0.0
            shape_ok = (u.shape == (rows, k) and v.shape == (cols, k) and k <= min(rows, cols)
                        and len(ql) == k and len(qr_) == k)
        else:
            STATE["svd"] += 1
            u, s, ql, v, s2, qr_ = out
            k = u.shape[1]
            res = np.linalg.norm((u * s) @ v.T - M) / nM
            orth = max(np.abs(u.conj().T @ u - np.eye(k)).max(), np.abs(v.conj().T @ v - np.eye(k)).max()) if k else 0.0
            shape_ok = (u.shape == (rows, k) and v.shape == (cols, k) and len(s) == k and len(ql) == k and len(qr_) == k
                        and (full_matrices or k <= min(rows, cols))
                        and bool(np.all(np.asarray(s) >= 0)) and bool(np.all(np.diff(np.asarray(s)) <= 1e-12 * (float(np.max(s)) if k else 0.0))))
        # block (label) contract, exact on integers: column a of U is supported on rows labelled qnlset[a],
        # column a of V on columns labelled qnrset[a], and qnlset[a] + qnrset[a] = qntot
        if not (not QR and full_matrices):
            lql = np.asarray(qnbigl).reshape(-1, len(qntot))
            lqr = np.asarray(qnbigr).reshape(-1, len(qntot))
            nl = np.asarray(ql).reshape(k, -1) if k else np.zeros((0, len(qntot)), dtype=int)
            nr = np.asarray(qr_).reshape(k, -1) if k else np.zeros((0, len(qntot)), dtype=int)
            lab_ok = bool(np.all(nl + nr == np.asarray(qntot)))
            su = np.asarray(u) != 0
            sv = np.asarray(v) != 0
            for a_ in range(k):
                if not (np.all(lql[su[:, a_]] == nl[a_]) and np.all(lqr[sv[:, a_]] == nr[a_])):
                    lab_ok = False
                    break
            STATE["label_calls"] = STATE.get("label_calls", 0) + 1
            if not lab_ok:
                STATE["label_bad"] = STATE.get("label_bad", 0) + 1
                if len(STATE["bad"]) < 5:
                    STATE["bad"].append({"label_contract": "violated", "mode": "QR" if QR else "SVD", "system": system, "rows": rows, "cols": cols})
        if k < min(rows, cols):
            STATE["blocks_deficient"] += 1
        STATE["maxres"] = max(STATE["maxres"], float(res))
        STATE["maxorth"] = max(STATE["maxorth"], float(orth))
        if not (res <= TOL and orth <= TOL and shape_ok):
            if len(STATE["bad"]) < 5:
                STATE["bad"].append({"mode": "QR" if QR else "SVD", "system": system, "rows": rows, "cols": cols, "k": int(k),
                                     "residual": float(res), "orth": float(orth), "shape_ok": bool(shape_ok)})
            STATE["nbad"] = STATE.get("nbad", 0) + 1
    except Exception as e:          # the checker itself must never disturb the run
        STATE["bad"].append({"checker_exception": repr(e)})
        STATE["nbad"] = STATE.get("nbad", 0) + 1
    return out


_orig_push = MP.MatrixProduct._push_cano
_orig_upd = MP.MatrixProduct._update_ms


def _wrapped_push(self, idx):
    if STATE["trace_push"] is not None:
        STATE["trace_push"].append(int(idx))
    return _orig_push(self, idx)


def _wrapped_upd(self, idx, u, vt, sigma=None, qnlset=None, qnrset=None, m_trunc=None):
    if STATE["trace_upd"] is not None:
        STATE["trace_upd"].append(int(idx))
        if STATE.get("news") is not None:
            lab = qnlset if self.to_right else qnrset
            m = u.shape[1] if m_trunc is None else m_trunc
            STATE["news"].append(None if lab is None else [[int(x) for x in np.atleast_1d(q)] for q in list(lab)[:m]])
    return _orig_upd(self, idx, u, vt, sigma=sigma, qnlset=qnlset, qnrset=qnrset, m_trunc=m_trunc)


def install():
    SQ.svd_qn = _wrapped_svd_qn
    MP.MatrixProduct._push_cano = _wrapped_push
    MP.MatrixProduct._update_ms = _wrapped_upd


# --------------------------------------------------------------------------------------- oracle helpers
def relerr(a, b):
    nb = float(np.linalg.norm(b))       # purely relative: no absolute floor
    na = float(np.linalg.norm(a - b))
    if nb == 0.0:
        return 0.0 if na == 0.0 else float("inf")
    return na / nb


def site_iso(a, left, scaled):
    """deviation of a site tensor from a (scaled) left / right isometry"""
    m = a.reshape(-1, a.shape[-1]) if left else a.reshape(a.shape[0], -1).T
    g = m.conj().T @ m
    k = g.shape[0]
    if scaled:
        w = float(np.trace(g).real) / k
        if w <= 0:
            return 1.0
        return float(np.abs(g / w - np.eye(k)).max())
    return float(np.abs(g - np.eye(k)).max())


def labels_of(mp):
    return [[[int(x) for x in np.atleast_1d(q)] for q in np.atleast_2d(np.asarray(b))] for b in mp.qn]


def qn_valid(mp):
    """independent recomputation: every non-zero entry obeys the label rule of its position relative to qnidx
    (left of the centre ql+sigma = qr, centre ql+sigma+qr = qntot, right of it sigma+qr = ql)"""
    tot = np.asarray(mp.qntot).reshape(-1)
    c = int(mp.qnidx)
    for j, mt in enumerate(mp):
        a = np.asarray(mt.array)
        ql = np.asarray(mp.qn[j]).reshape(a.shape[0], -1)
        qr = np.asarray(mp.qn[j + 1]).reshape(a.shape[-1], -1)
        sg = np.asarray(mp._get_sigmaqn(j)).reshape(-1, len(tot))
        t = a.reshape(a.shape[0], -1, a.shape[-1])
        nz = np.argwhere(t != 0)
        if len(nz) == 0:
            continue
        L, S, Rr = ql[nz[:, 0]], sg[nz[:, 1]], qr[nz[:, 2]]
        if j < c:
            ok = np.all(L + S == Rr)
        elif j == c:
            ok = np.all(L + S + Rr == tot)
        else:
            ok = np.all(S + Rr == L)
        if not ok:
            return False
    return True


def snapshot(mp):
    return {"dense": G.dense(mp), "dims": [int(x) for x in mp.bond_dims], "qntot": np.array(mp.qntot).copy(),
            "coeff": complex(getattr(mp, "coeff", 1)), "n": len(mp), "qnidx": int(mp.qnidx), "to_right": bool(mp.to_right)}


def set_direction(mp, to_right):
    n = len(mp)
    if to_right:
        mp.move_qnidx(0)
        mp.to_right = True
    else:
        mp.move_qnidx(n - 1)
        mp.to_right = False
    return mp


class Case:
    def __init__(self, ci, spec, out):
        self.ci, self.spec, self.out = ci, spec, out
        self.nfail = 0
        self.labkeys = set()

    def fail(self, cls, op, detail):
        self.nfail += 1
        st = self.out["stats"]
        st["fail_" + cls] = st.get("fail_" + cls, 0) + 1
        if sum(1 for f in self.out["fails"] if f["class"] == cls) < 3:
            self.out["fails"].append({"class": cls, "op": op, "case": self.ci, "spec": self.spec, "detail": detail})

    def run_op(self, name, mp, fn, args):
        """run fn() on mp with schedule logging; returns (result or None, record)"""
        rec = {"op": name, "n": len(mp), "q0": int(mp.qnidx), "d0": bool(mp.to_right), "args": args, "case": self.ci}
        STATE["trace_push"], STATE["trace_upd"] = [], []
        lkey = name + ("" if args.get("stop") is None else ":stop")
        want_labels = (name in ("cano", "compress") and lkey not in self.labkeys
                       and self.out["stats"].get("label_ops", 0) < self.out.get("label_budget", 0))
        STATE["news"] = [] if want_labels else None
        qn0 = labels_of(mp) if want_labels else None
        valid0 = qn_valid(mp)
        try:
            res = fn()
            rec["exc"] = None
        except Exception as e:
            res = None
            rec["exc"] = type(e).__name__
            rec["tb"] = traceback.format_exc(limit=4)[-600:]
        rec["push"], rec["upd"] = STATE["trace_push"], STATE["trace_upd"]
        STATE["trace_push"], STATE["trace_upd"] = None, None
        rec["q1"], rec["d1"] = int(mp.qnidx), bool(mp.to_right)
        st = self.out["stats"]
        if rec["exc"] is None:
            st["qn_valid_checked"] = st.get("qn_valid_checked", 0) + 1
            if valid0:
                st["qn_valid_before"] = st.get("qn_valid_before", 0) + 1
                if not qn_valid(mp):
                    self.fail("qn_valid", name, {"args": args, "qnidx_before": rec["q0"], "qnidx_after": rec["q1"]})
            if want_labels and rec["upd"] and all(x is not None for x in STATE["news"]):
                st["label_ops"] = st.get("label_ops", 0) + 1
                self.labkeys.add(lkey)
                rec["lab"] = {"qn0": qn0, "news": STATE["news"], "qn1": labels_of(mp), "size": int(len(np.asarray(mp.qntot).reshape(-1)))}
        STATE["news"] = None
        self.out["ops"].append(rec)
        self.out["stats"]["ops"] = self.out["stats"].get("ops", 0) + 1
        return res, rec

    def common_checks(self, op, before, mp, grow_ref=None):
        """dense (prefactor included), prefactor, qntot, labels, bond dims not grown"""
        st = self.out["stats"]
        e = relerr(G.dense(mp), before["dense"])
        st["max_dense_err"] = max(st.get("max_dense_err", 0.0), e)
        if not e <= TOL:
            self.fail("dense", op, {"relerr": e})
        if abs(complex(getattr(mp, "coeff", 1)) - before["coeff"]) > 1e-14 * abs(before["coeff"]):
            self.fail("coeff", op, {"before": str(before["coeff"]), "after": str(getattr(mp, "coeff", 1))})
        if not np.array_equal(np.array(mp.qntot), before["qntot"]):
            self.fail("qntot", op, {"before": before["qntot"].tolist(), "after": np.array(mp.qntot).tolist()})
        dims = [int(x) for x in mp.bond_dims]
        if any(len(np.atleast_1d(mp.qn[i])) != dims[i] for i in range(len(dims))):
            self.fail("labels", op, {"dims": dims, "nlabels": [len(np.atleast_1d(q)) for q in mp.qn]})
        ref = grow_ref if grow_ref is not None else before["dims"]
        if any(a > b for a, b in zip(dims, ref)):
            self.fail("dims_grown", op, {"before": ref, "after": dims})

    def iso_checks(self, op, mp, swept_right, centre, scaled, doc_tol=False):
        """doc_tol: the object was returned untouched by ensure_*: a deviation is acceptable iff it is within the
        documented tolerance |G - 1| <= canonical_atol + canonical_rtol * 1 (elementwise, computed here)"""
        st = self.out["stats"]
        ts = G.tensors(mp)
        worst = 0.0
        for j, a in enumerate(ts):
            d = None
            if swept_right and j < centre:
                d = site_iso(a, True, scaled)
                left = True
            if (not swept_right) and j > centre:
                d = site_iso(a, False, scaled)
                left = False
            if d is not None and doc_tol and d > TOL and not scaled:
                m = a.reshape(-1, a.shape[-1]) if left else a.reshape(a.shape[0], -1).T
                g = m.conj().T @ m
                eye = np.eye(g.shape[0])
                if np.all(np.abs(g - eye) <= DOC_ATOL + DOC_RTOL * eye):
                    st["untouched_within_documented_tolerance"] = st.get("untouched_within_documented_tolerance", 0) + 1
                    d = 0.0
            if d is not None:
                worst = max(worst, d)
            st["iso_sites"] = st.get("iso_sites", 0) + 1
        key = "max_iso_dev_scaled" if scaled else "max_iso_dev"
        st[key] = max(st.get(key, 0.0), worst)
        if not worst <= TOL:
            self.fail("isometry" + ("_scaled" if scaled else ""), op, {"max_deviation": worst, "centre": centre})


def run_case(ci, spec, out):
    c = Case(ci, spec, out)
    st = out["stats"]
    try:
        model, obj = G.build(spec)
    except G.GenFail as e:
        st["genfail"] = st.get("genfail", 0) + 1
        st.setdefault("genfail_reasons", {})
        k = str(e)[:40]
        st["genfail_reasons"][k] = st["genfail_reasons"].get(k, 0) + 1
        return c
    st["objects"] = st.get("objects", 0) + 1
    n = len(obj)
    is_op = bool(obj.is_mpo)            # Mpo: isometries up to a per-site weight (norm shuffling of _update_ms)
    bounds = G.exact_bounds(obj)
    dims0 = [int(x) for x in obj.bond_dims]
    feat = []
    if any(d > b for d, b in zip(dims0, bounds)):
        feat.append("overcomplete")
    if any(d == 1 for d in dims0[1:-1]):
        feat.append("dim1")
    key = "%s/%s/n%d/qn%d/%s" % (spec["kind"], spec["recipe"], n, spec["qn"], "c" if spec.get("complex") else "r")
    out["features"].append({"key": key, "feat": feat, "dims": dims0})
    keep_flags = spec["recipe"].startswith(("canon_", "near_"))     # used with the flags they carry
    for to_right in ((bool(obj.to_right),) if keep_flags else (True, False)):
        P = obj.copy() if keep_flags else set_direction(obj.copy(), to_right)
        before = snapshot(P)
        far = n - 1 if to_right else 0
        # ---- A: full sweep
        A = P.copy()
        _, rec = c.run_op("cano", A, lambda: A.canonicalise(), {"stop": None})
        if rec["exc"]:
            c.fail("raise", "cano", {"exc": rec["exc"], "tb": rec.get("tb")})
            continue
        c.common_checks("cano", before, A)
        c.iso_checks("cano", A, to_right, far, is_op)
        # ---- B: opposite sweep, exact bounds, then idempotence
        B = A.copy()
        _, rec = c.run_op("cano", B, lambda: B.canonicalise(), {"stop": None})
        if rec["exc"]:
            c.fail("raise", "cano2", {"exc": rec["exc"], "tb": rec.get("tb")})
        else:
            c.common_checks("cano2", before, B)
            c.iso_checks("cano2", B, not to_right, n - 1 - far, is_op)
            d2 = [int(x) for x in B.bond_dims]
            if any(a > b for a, b in zip(d2, bounds)):
                c.fail("two_sweeps_bound", "cano2", {"dims": d2, "bounds": bounds})
            C = B.copy()
            _, r3 = c.run_op("cano", C, lambda: C.canonicalise(), {"stop": None})
            _, r4 = c.run_op("cano", C, lambda: C.canonicalise(), {"stop": None}) if not r3["exc"] else (None, r3)
            if r3["exc"] or r4["exc"]:
                c.fail("raise", "cano34", {"exc": r3["exc"] or r4["exc"]})
            else:
                c.common_checks("idempotence", before, C, grow_ref=d2)
                c.iso_checks("idempotence", C, not to_right, n - 1 - far, is_op)
        # ---- C: every stop index, including the current centre
        for stop in range(n):
            S = P.copy()
            _, rec = c.run_op("cano", S, lambda: S.canonicalise(stop_idx=stop), {"stop": stop})
            if rec["exc"]:
                c.fail("raise", "cano_stop", {"exc": rec["exc"], "stop": stop, "centre": before["qnidx"], "tb": rec.get("tb")})
                continue
            c.common_checks("cano_stop", before, S)
            c.iso_checks("cano_stop", S, to_right, stop, is_op)
            if int(S.qnidx) != stop:
                c.fail("centre", "cano_stop", {"stop": stop, "qnidx": int(S.qnidx)})
        # ---- D: lossless compress of the canonical form (A: centre at `far`, direction flipped)
        dA = G.dense(A)
        ranks = schmidt_ranks(A)
        for variant in ("big", "ranks"):
            Q = A.copy()
            m_arg = max(int(x) for x in A.bond_dims) + 1 if variant == "big" else [max(1, r) for r in ranks]
            _, rec = c.run_op("compress", Q, lambda: Q.compress(temp_m_trunc=m_arg), {"variant": variant})
            if rec["exc"]:
                c.fail("raise", "compress_" + variant, {"exc": rec["exc"], "tb": rec.get("tb")})
                continue
            c.common_checks("compress_" + variant, snapshot(A) | {"dense": dA}, Q)
            dq = [int(x) for x in Q.bond_dims]
            if variant == "ranks" and any(a > max(1, r) for a, r in zip(dq, ranks)):
                c.fail("compress_limit", "compress_ranks", {"dims": dq, "ranks": ranks})
            if not is_op:
                c.iso_checks("compress_" + variant, Q, not to_right, n - 1 - far, False)
            else:
                # Mpo: compress leaves u*sigma on the swept sites (by construction of _update_ms); measured only
                ts = G.tensors(Q)
                dev = 0.0
                for j, a in enumerate(ts):
                    if (not to_right) and j < n - 1 - far:
                        dev = max(dev, site_iso(a, True, True))
                    if to_right and j > n - 1 - far:
                        dev = max(dev, site_iso(a, False, True))
                st["mpo_compress_max_scaled_iso_dev"] = max(st.get("mpo_compress_max_scaled_iso_dev", 0.0), dev)
        # ---- E: ensure_left / ensure_right from the raw object
        for which in ("left", "right"):
            E = P.copy()
            chk = bool(E.check_left_canonical() if which == "left" else E.check_right_canonical())
            fn = (lambda: E.ensure_left_canonical()) if which == "left" else (lambda: E.ensure_right_canonical())
            _, rec = c.run_op("ensure_" + which, E, fn, {"chk": chk})
            if rec["exc"]:
                c.fail("raise", "ensure_" + which, {"exc": rec["exc"], "tb": rec.get("tb")})
                continue
            c.common_checks("ensure_" + which, before, E)
            want = (n - 1, False) if which == "left" else (0, True)
            if (int(E.qnidx), bool(E.to_right)) != want:
                c.fail("centre", "ensure_" + which, {"got": [int(E.qnidx), bool(E.to_right)], "want": list(want)})
            # whether or not a sweep was done, EVERY site but the advertised centre must be an isometry
            # (recomputed from the tensors; the package's own check_*_canonical is not consulted)
            c.iso_checks("ensure_" + which + ("" if rec["push"] else "_untouched"), E, which == "left", want[0], is_op,
                         doc_tol=not rec["push"])
            if not rec["push"]:
                st["ensure_untouched"] = st.get("ensure_untouched", 0) + 1
            if spec["recipe"].startswith("near_"):
                k_ = "near_%s_ensure_%s_%s" % (spec["recipe"].split("_", 1)[1], which, "sweep" if rec["push"] else "untouched")
                st.setdefault("near_canonical", {})
                st["near_canonical"][k_] = st["near_canonical"].get(k_, 0) + 1
            # the result is in the state compress() asserts: a lossless compress must not change the object
            dE = G.dense(E)
            for variant in ("big", "ranks"):
                Q = E.copy()
                rk = schmidt_ranks(E)
                m_arg = max(int(x) for x in E.bond_dims) + 1 if variant == "big" else [max(1, r) for r in rk]
                _, rq = c.run_op("compress", Q, lambda: Q.compress(temp_m_trunc=m_arg), {"variant": variant})
                if rq["exc"]:
                    c.fail("raise", "ensure_%s+compress_%s" % (which, variant), {"exc": rq["exc"], "tb": rq.get("tb")})
                    continue
                c.common_checks("ensure_%s+compress_%s" % (which, variant), snapshot(E) | {"dense": dE}, Q)
                if not is_op:
                    c.iso_checks("ensure_%s+compress_%s" % (which, variant), Q, which != "left", n - 1 - want[0], False)
        # ---- G: compressed_sum / _sum with an explicit bond limit >= every rank, on states whose own compress_config
        #         is stricter (default threshold 1e-3 or a small fixed max_bonddim): must equal the dense sum
        if spec["kind"] == "mps" and n >= 2 and to_right is False and spec["recipe"] in ("random", "add", "apply_add", "scaled", "dup"):
            try:
                rng2 = random.Random(spec["seed"] + 13)
                k_states = rng2.choice([2, 3, 7])
                states = [set_direction(obj.copy(), False)]
                for _ in range(k_states - 1):
                    states.append(G.rand_like(rng2, obj, model, spec["qn"], int(spec.get("m", 4)), bool(spec.get("complex"))))
                if rng2.random() < 0.5:
                    for x_ in states:
                        x_.compress_config = CompressConfig(CompressCriteria.fixed, max_bonddim=2)
                ref = sum(G.dense(x_) for x_ in states)
                if np.linalg.norm(ref) > 1e-6 * sum(np.linalg.norm(G.dense(x_)) for x_ in states):
                    bnd = G.exact_bounds(obj)
                    for variant, lim in (("int", max(bnd)), ("list", list(bnd))):
                        for fname, fn_ in (("compressed_sum", lambda l, m_: compressed_sum(l, temp_m_trunc=m_)),
                                           ("_sum", lambda l, m_: _sum(l, temp_m_trunc=m_))):
                            if fname == "_sum" and k_states == 7:
                                continue
                            res_ = fn_([x_.copy() for x_ in states], lim)
                            e_ = relerr(G.dense(res_), ref)
                            st["compressed_sum_checks"] = st.get("compressed_sum_checks", 0) + 1
                            st["max_compressed_sum_err"] = max(st.get("max_compressed_sum_err", 0.0), e_)
                            if not e_ <= 1e-10:
                                c.fail("compressed_sum", "%s(%d states, temp_m_trunc=%s)" % (fname, k_states, variant), {"relerr": e_, "limit": lim})
                            if any(int(d_) > b_ for d_, b_ in zip(res_.bond_dims, bnd)):
                                c.fail("compressed_sum_limit", fname, {"dims": [int(d_) for d_ in res_.bond_dims], "bounds": bnd})
            except G.GenFail:
                pass
        # ---- F: malformed entry (centre at the wrong end): both sides must reject
        if n >= 2:
            F = P.copy()
            F.to_right = not to_right
            _, rec = c.run_op("cano", F, lambda: F.canonicalise(), {"stop": None})
            st["malformed"] = st.get("malformed", 0) + 1
    if spec["kind"] in ("mps", "mpo", "mpdm") and not spec["recipe"].startswith("near_") and out.get("scale_every", 1) and ci % out.get("scale_every", 1) == 0:
        scale_stream(c, obj, spec, n, is_op, keep_flags)
    if n >= 2 and not spec["recipe"].startswith("near_") and ci % out.get("fault_every", 1) == 0:
        fault_stream(c, obj, spec, n, is_op, keep_flags)
    return c


def fault_stream(c, obj, spec, n, is_op, keep_flags):
    """FAULT stream: CompressConfig.dump_matrix_size = 1 (every site tensor is spilled to disk) and numpy.save failing
    from its k-th call on (disk full).  The documented behaviour is "working with the matrix in memory": canonicalise ->
    lossless compress -> canonicalise must neither raise nor change the represented object."""
    import errno
    import shutil
    import tempfile
    from unittest import mock
    st = c.out["stats"]
    rng = random.Random(spec["seed"] + 41)
    real_save = np.save
    to_right = bool(obj.to_right) if keep_flags else rng.random() < 0.5
    P = obj.copy() if keep_flags else set_direction(obj.copy(), to_right)
    ref = G.dense(P)
    for k_good in (0, rng.randint(1, 2 * n), rng.randint(2 * n + 1, 5 * n + 1), 10 ** 9):
        dump_dir = tempfile.mkdtemp(prefix="c04_fault_")
        calls = {"n": 0}

        def flaky(fname, arr, *a, **kw):
            calls["n"] += 1
            if calls["n"] > k_good:
                raise OSError(errno.ENOSPC, "No space left on device (simulated)")
            return real_save(fname, arr, *a, **kw)
        W = None
        try:
            with mock.patch("numpy.save", side_effect=flaky):
                W = P.copy()
                W.compress_config = CompressConfig(CompressCriteria.fixed, max_bonddim=1000, dump_matrix_size=1, dump_matrix_dir=dump_dir)
                W.canonicalise()
                lim = max(int(x) for x in W.bond_dims) + 1
                W.compress(temp_m_trunc=lim)
                W.canonicalise()
                vec = G.dense(W)
                ts = G.tensors(W)
                centre, d_ = int(W.qnidx), bool(W.to_right)
            st["fault_runs"] = st.get("fault_runs", 0) + 1
            st["fault_saves_attempted"] = st.get("fault_saves_attempted", 0) + calls["n"]
            e = relerr(vec, ref)
            st["max_fault_relerr"] = max(st.get("max_fault_relerr", 0.0), e if np.isfinite(e) else 1e300)
            if not e <= TOL:
                c.fail("fault_dense", "disk full after %d writes" % k_good, {"relerr": e})
            worst = 0.0
            for j, a in enumerate(ts):
                if j > centre and d_:
                    worst = max(worst, site_iso(a, False, is_op))
                if j < centre and not d_:
                    worst = max(worst, site_iso(a, True, is_op))
            if not worst <= TOL:
                c.fail("fault_isometry", "disk full after %d writes" % k_good, {"max_deviation": worst})
        except Exception as e:
            c.fail("fault_raise", "disk full after %d writes" % k_good, {"exc": type(e).__name__, "msg": str(e)[:200], "tb": traceback.format_exc(limit=4)[-500:]})
        finally:
            W = None
            shutil.rmtree(dump_dir, ignore_errors=True)


SCALES = [1e-30, 1e-12, 1e-9, 1e-6, 1e6, 1e12, 1e30]


def lossless_configs():
    return [("fixed", CompressConfig(CompressCriteria.fixed, max_bonddim=1000)),
            ("threshold", CompressConfig(CompressCriteria.threshold, threshold=1e-14)),
            ("both", CompressConfig(CompressCriteria.both, threshold=1e-14, max_bonddim=1000))]


def scale_stream(c, obj, spec, n, is_op, keep_flags):
    """SCALE stream: every lossless operation on the same object with its norm moved to 1e-30 .. 1e30, in the tensors
    (scale(c), c real or complex) or in the prefactor.  All comparisons are relative; Schmidt ranks (dense SVD, relative
    to the largest singular value) must survive; compress(c*a) = c*compress(a)."""
    st = c.out["stats"]
    rng = random.Random(spec["seed"] + 29)
    base_dirs = (bool(obj.to_right),) if keep_flags else (True, False)
    # unscaled references for homogeneity (config-driven lossless compress of the canonical form)
    base = {}
    for to_right in base_dirs:
        P0 = obj.copy() if keep_flags else set_direction(obj.copy(), to_right)
        try:
            A0 = P0.copy().canonicalise()
            for cname, cfg in lossless_configs():
                Q0 = A0.copy()
                Q0.compress_config = cfg
                Q0.compress()
                base[(to_right, cname)] = G.dense(Q0)
        except Exception:
            return      # failures on the unscaled object are reported by the main stream
    picks = [rng.choice(SCALES[:4]), rng.choice(SCALES[4:])]
    for cval in picks:
        fac = cval * (np.exp(1j * rng.uniform(0, 6.28)) if rng.random() < 0.4 else (1.0 if rng.random() < 0.7 else -1.0))
        where = "coeff" if (hasattr(obj, "coeff") and rng.random() < 0.35) else "tensor"
        X = obj.copy()
        if where == "tensor":
            X = X.scale(fac)
        else:
            X.coeff = X.coeff * fac
        ref = G.dense(X)
        if not np.all(np.isfinite(ref)) or not np.linalg.norm(ref) > 0:
            continue
        ranks = schmidt_ranks(X)
        tag = "scale[%s,%.0e]:" % (where, cval)
        st["scale_objects"] = st.get("scale_objects", 0) + 1

        def chk(op, mp, want=ref):
            e = relerr(G.dense(mp), want)
            st["scale_checks"] = st.get("scale_checks", 0) + 1
            st["max_scale_relerr"] = max(st.get("max_scale_relerr", 0.0), e if np.isfinite(e) else 1e300)
            if not e <= TOL:
                c.fail("scale_dense", tag + op, {"relerr": e, "factor": str(fac), "where": where})
            r2 = schmidt_ranks(mp)
            if r2 != ranks:
                c.fail("scale_ranks", tag + op, {"ranks_before": ranks, "ranks_after": r2, "factor": str(fac), "where": where})

        for to_right in base_dirs:
            P = X.copy() if keep_flags else set_direction(X.copy(), to_right)
            A = P.copy()
            _, rec = c.run_op("cano", A, lambda: A.canonicalise(), {"stop": None})
            if rec["exc"]:
                c.fail("raise", tag + "cano", {"exc": rec["exc"], "tb": rec.get("tb")})
                continue
            chk("cano", A)
            c.iso_checks(tag + "cano", A, to_right, n - 1 if to_right else 0, is_op)
            stop = rng.randrange(n)
            S = P.copy()
            _, rec = c.run_op("cano", S, lambda: S.canonicalise(stop_idx=stop), {"stop": stop})
            if rec["exc"]:
                c.fail("raise", tag + "cano_stop", {"exc": rec["exc"], "tb": rec.get("tb")})
            else:
                chk("cano_stop", S)
            for cname, cfg in lossless_configs():
                Q = A.copy()
                Q.compress_config = cfg
                _, rec = c.run_op("compress", Q, lambda: Q.compress(), {"variant": "cfg_" + cname})
                if rec["exc"]:
                    c.fail("raise", tag + "compress_cfg_" + cname, {"exc": rec["exc"], "tb": rec.get("tb")})
                    continue
                chk("compress_cfg_" + cname, Q)
                # homogeneity: compress(c*a) = c*compress(a)
                chk("homogeneity_" + cname, Q, want=fac * base[(to_right, cname)])
                if not is_op:
                    c.iso_checks(tag + "compress_cfg_" + cname, Q, not to_right, 0 if to_right else n - 1, False)
            Q = A.copy()
            lim = max(int(x) for x in A.bond_dims) + 1
            _, rec = c.run_op("compress", Q, lambda: Q.compress(temp_m_trunc=lim), {"variant": "big"})
            if rec["exc"]:
                c.fail("raise", tag + "compress_big", {"exc": rec["exc"], "tb": rec.get("tb")})
            else:
                chk("compress_big", Q)
            for which in ("left", "right"):
                E = P.copy()
                fn = (lambda: E.ensure_left_canonical()) if which == "left" else (lambda: E.ensure_right_canonical())
                _, rec = c.run_op("ensure_" + which, E, fn, {"chk": bool(E.check_left_canonical() if which == "left" else E.check_right_canonical())})
                if rec["exc"]:
                    c.fail("raise", tag + "ensure_" + which, {"exc": rec["exc"], "tb": rec.get("tb")})
                else:
                    chk("ensure_" + which, E)


def schmidt_ranks(mp):
    """numerical Schmidt rank at every bond from the dense object (relative threshold 1e-10)"""
    pd = [int(np.prod(np.asarray(mt.array).shape[1:-1])) for mt in mp]
    v = G.dense(mp)
    n = len(pd)
    out = [1]
    for i in range(1, n):
        l = int(np.prod(pd[:i]))
        s = np.linalg.svd(v.reshape(l, -1), compute_uv=False)
        out.append(int(np.sum(s > 1e-10 * s[0])) if s[0] > 0 else 0)
    out.append(1)
    return out


def replay(spec):
    """re-run one case; returns 1 iff any oracle check fails or a valid call raises (used by repro snippets)"""
    install()
    out = {"ops": [], "fails": [], "stats": {}, "features": []}
    c = run_case(0, spec, out)
    for f in out["fails"]:
        print("FAIL", f["class"], f["op"], json.dumps(f["detail"], default=str)[:300])
    if STATE.get("nbad"):
        print("CONTRACT", STATE["bad"][:2])
    if STATE.get("label_bad"):
        print("LABEL CONTRACT violated on", STATE["label_bad"], "calls")
    return 1 if (c.nfail or STATE.get("nbad") or STATE.get("label_bad")) else 0


def emit(payload, out):
    """large results go through a file: the orchestrator reads the pipe only after exit"""
    path = payload.get("out")
    if path:
        with open(path, "w") as f:
            json.dump(out, f, default=str)
        print("RESULT " + json.dumps({"file": path}))
    else:
        print("RESULT " + json.dumps(out, default=str))


def main():
    payload = json.load(sys.stdin)
    install()
    out = {"ops": [], "fails": [], "stats": {}, "features": [], "label_budget": int(payload.get("label_budget", 0)),
           "scale_every": int(payload.get("scale_every", 1)), "fault_every": int(payload.get("fault_every", 1))}
    for ci, spec in payload["specs"]:
        try:
            run_case(ci, spec, out)
        except Exception as e:
            out["fails"].append({"class": "harness", "op": "run_case", "case": ci, "spec": spec,
                                 "detail": {"exc": repr(e), "tb": traceback.format_exc(limit=6)[-1200:]}})
            out["stats"]["fail_harness"] = out["stats"].get("fail_harness", 0) + 1
    out["stats"].update({"svd_qn_calls": STATE["calls"], "qr_calls": STATE["qr"], "svd_calls": STATE["svd"],
                         "contract_bad": STATE.get("nbad", 0), "contract_max_residual": STATE["maxres"],
                         "contract_max_orth_dev": STATE["maxorth"], "calls_rank_deficient": STATE["blocks_deficient"],
                         "label_contract_calls": STATE.get("label_calls", 0), "label_contract_bad": STATE.get("label_bad", 0)})
    out["contract_bad"] = STATE["bad"]
    for r in out["ops"]:
        r.pop("tb", None)
    emit(payload, out)


if __name__ == "__main__":
    main()
