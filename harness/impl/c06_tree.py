"""C06 tree stream: TTNS.random / product states on random trees, then add (with prefactors), scale, TTNO.apply of a
charged operator, canonicalise, compress (lossless / truncating), evolve (every tree scheme, one step) and optimize_ttns
with conserving Hamiltonians.  After every operation, for the result AND every earlier live object:
  (oracle)  dense amplitudes outside the expected sector < 1e-10 (relative), root label = expected sector,
            len(node.qn) == parent bond dimension for every node;
  (export)  per node: charges of the physical states, parent-bond labels, support (index tuples with |x| > 1e-12 max);
            Coq evaluates the proved-sound checker ttns_validbV (Props/C06.v: C06_ttns_validb_sound_multi).
stdin {"seed", "ncases", "out"}"""
import itertools
import json
import random
import sys
import traceback

import numpy as np

import c11_lib as T
from renormalizer.tn import TTNS, TTNO
from renormalizer.tn.gs import optimize_ttns
from renormalizer.utils import CompressConfig, CompressCriteria, EvolveConfig, EvolveMethod

PRELUDE = r'''
import random, sys, json, numpy as np
sys.path.insert(0, "/verif/harness/impl")
import c11_lib as T, c06_tree as N
from renormalizer.tn import TTNS, TTNO
from renormalizer.tn.gs import optimize_ttns
from renormalizer.utils import CompressConfig, CompressCriteria, EvolveConfig, EvolveMethod
'''
SCHEMES = ["tdvp_vmf", "prop_and_compress_tdrk4", "tdvp_ps", "tdvp_ps2"]


def gen_spec(rng):
    nn = rng.choice([2, 3, 3, 4, 4, 5])
    order = [[] for _ in range(nn)]
    for i in range(1, nn):
        order[rng.randrange(i)].append(i)
    nodes = []
    for i in range(nn):
        if rng.random() < 0.15:
            nodes.append([])
        else:
            k = 1 if rng.random() < 0.65 else 2
            ds = []
            for _ in range(k):
                r = rng.random()
                ds.append({"k": "spin"} if r < 0.45 else ({"k": "elec"} if r < 0.85 else {"k": "sho", "n": rng.choice([2, 3])}))
            nodes.append(ds)
    real = [d for ds in nodes for d in ds]
    ns = sum(1 for d in real if d["k"] == "spin")
    ne = sum(1 for d in real if d["k"] == "elec")
    if ns + ne < 2:
        return None
    qn = True if rng.random() < 0.6 else 2
    mode = rng.choice(["any", "any", "full", "empty", "adjacent"])
    if qn is True:
        nq = ns + ne
        qntot = {"any": rng.randint(0, nq), "full": nq, "empty": 0, "adjacent": max(nq - 1, 0)}[mode]
    else:
        qntot = {"any": [rng.randint(0, ns), rng.randint(0, ne)], "full": [ns, ne], "empty": [0, 0],
                 "adjacent": [max(ns - 1, 0), ne] if ns else [ns, max(ne - 1, 0)]}[mode]
    return {"order": order, "nodes": nodes, "qn": qn, "qntot": qntot, "mode": mode}


def hermitian_opspec(rng, spec, nterm=4):
    dofs = T.spin_like_dofs(spec)
    out = []
    for _ in range(nterm):
        if rng.random() < 0.45:
            cands = [(d, k) for d, k in dofs if k in ("spin", "elec")]
            if not cands:
                continue
            sel = rng.sample(cands, min(len(cands), rng.choice([1, 2])))
            ops = [["sigma_z" if k == "spin" else r"a^\dagger a", d] if k == "spin" else [r"a^\dagger", d] for d, k in sel]
            # a^\dagger a on one electron DoF = two simple symbols on the same dof
            ops2 = []
            for (d, k) in sel:
                if k == "spin":
                    ops2.append(["sigma_z", d])
                else:
                    ops2 += [[r"a^\dagger", d], ["a", d]]
            out.append({"f": rng.uniform(-1, 1), "ops": ops2})
        else:
            kind = rng.choice(["spin", "elec"])
            cands = [d for d, k in dofs if k == kind]
            if len(cands) < 2:
                continue
            a, b = rng.sample(cands, 2)
            f = rng.uniform(-1, 1)
            if kind == "spin":
                out.append({"f": f, "ops": [["sigma_+", a], ["sigma_-", b]]})
                out.append({"f": f, "ops": [["sigma_-", a], ["sigma_+", b]]})
            else:
                out.append({"f": f, "ops": [[r"a^\dagger", a], ["a", b]]})
                out.append({"f": f, "ops": [[r"a^\dagger", b], ["a", a]]})
    return out


def charged_opspec(rng, spec):
    """a sum of 1..2 single-site operators with one common charge; returns (opspec, charge vector)"""
    dofs = [(d, k) for d, k in T.spin_like_dofs(spec) if k in ("spin", "elec")]
    two = T.qn_size(spec) == 2
    kind = rng.choice(sorted(set(k for _, k in dofs))) if two else None
    cands = [(d, k) for d, k in dofs if (kind is None or k == kind)]
    sign = rng.choice([1, -1])
    out = []
    for d, k in rng.sample(cands, min(len(cands), rng.choice([1, 2]))):
        if k == "spin":
            sym = "sigma_-" if sign == 1 else "sigma_+"
        else:
            sym = r"a^\dagger" if sign == 1 else "a"
        out.append({"f": rng.uniform(0.5, 1.5), "ops": [[sym, d]]})
    if two:
        ch = [sign, 0] if kind == "spin" else [0, sign]
    else:
        ch = [sign]
    return out, ch


def config_charges(ttns):
    order = T.real_order(ttns.basis)
    res = []
    for cfg in itertools.product(*[range(b.nbas) for b in order]):
        q = 0
        for b, c in zip(order, cfg):
            q = q + np.asarray(b.sigmaqn)[c]
        res.append(np.asarray(q).reshape(-1))
    return np.array(res)


def leak(ttns, charges, sector):
    v = np.asarray(T.dense(ttns)).ravel()
    out = np.any(charges != np.array(sector).reshape(1, -1), axis=1)
    return float(np.linalg.norm(v[out]) / (np.linalg.norm(v) or 1.0)), float(np.linalg.norm(v))


def export_tree(ttns):
    bn = ttns.tn2bn

    def rec(node):
        t = np.abs(np.asarray(node.tensor))
        thr = 1e-12 * max(t.max(), 1e-300)
        return {"sg": [np.asarray(b.sigmaqn).reshape(b.nbas, -1).tolist() for b in bn[node].basis_sets],
                "q": np.asarray(node.qn).astype(int).reshape(len(node.qn), -1).tolist(),
                "shape": list(t.shape),
                "supp": np.argwhere(t > thr).tolist(),
                "ch": [rec(c) for c in node.children]}
    return rec(ttns.root)


def shapes_ok(ttns):
    return all(len(n.qn) == n.tensor.shape[-1] for n in ttns.node_list) and ttns.root.tensor.shape[-1] == 1


def build_product(desc):
    """desc = {"bases": [["mev", n] | ["elec"] | ["spin"] | ["sho", n]], "shape": "linear" | "binary", "cond": {dof: int | [coeffs]}}
    returns (BasisTree, TTNS(basis, condition))"""
    from renormalizer import BasisHalfSpin, BasisSimpleElectron, BasisSHO, BasisMultiElectronVac
    from renormalizer.tn import BasisTree
    bases = []
    for i, b in enumerate(desc["bases"]):
        if b[0] == "mev":
            bases.append(BasisMultiElectronVac(["x%d_%d" % (i, j) for j in range(b[1])]))
        elif b[0] == "elec":
            bases.append(BasisSimpleElectron("x%d" % i))
        elif b[0] == "spin":
            bases.append(BasisHalfSpin("x%d" % i, sigmaqn=[0, 1]))
        else:
            bases.append(BasisSHO("x%d" % i, omega=1.0, nbas=b[1]))
    bt = BasisTree.linear(bases) if desc["shape"] == "linear" else BasisTree.binary(bases)
    return bt, TTNS(bt, desc["cond"])


def run_product_case(case_seed, exports, fails, stats):
    """TTNS(basis, condition): integer conditions and coefficient VECTORS over basis states of one charge (charged
    multi-state sites, vibrations); the dense vector's sector must be the stored qntot and the labels must be valid"""
    rng = random.Random(case_seed)
    nb = rng.randint(2, 5)
    bases, cond, sector = [], {}, 0
    for i in range(nb):
        r = rng.random()
        b = ["mev", rng.choice([2, 2, 3])] if r < 0.4 else (["elec"] if r < 0.6 else (["spin"] if r < 0.8 else ["sho", 3]))
        bases.append(b)
        nbas = {"mev": lambda: b[1] + 1, "elec": lambda: 2, "spin": lambda: 2, "sho": lambda: b[1]}[b[0]]()
        sig = {"mev": lambda: [0] + [1] * b[1], "elec": lambda: [0, 1], "spin": lambda: [0, 1], "sho": lambda: [0] * b[1]}[b[0]]()
        c = rng.randrange(nbas)
        key = "x%d_0" % i if b[0] == "mev" else "x%d" % i
        same = [j for j in range(nbas) if sig[j] == sig[c]]
        sector += sig[c]
        if len(same) >= 2 and rng.random() < 0.7:
            vec = [0.0] * nbas
            for j in sorted(rng.sample(same, rng.randint(2, len(same)))):
                vec[j] = round(rng.choice([-1, 1]) * rng.uniform(0.3, 1.0), 3)
            cond[key] = vec
            stats["vector_conditions"] = stats.get("vector_conditions", 0) + 1
        elif c or rng.random() < 0.5:
            cond[key] = int(c)
    desc = {"bases": bases, "shape": rng.choice(["linear", "binary"]), "cond": cond}
    lines = ["desc = json.loads(%r)" % json.dumps(desc), "bt, x = N.build_product(desc)", "charges = N.config_charges(x)"]
    try:
        bt, st = build_product(desc)
    except Exception as ex:
        fails.append({"key": "tree-constructor:exception", "detail": {"desc": desc, "exception": repr(ex), "tb": traceback.format_exc()[-500:]},
                      "repro": PRELUDE + "\n".join(lines[:2]) + "\n", "case_seed": case_seed})
        return
    charges = config_charges(st)
    stats["product_cases"] = stats.get("product_cases", 0) + 1
    objs = [("x", st, "constructor[product]")]
    try:
        c2 = st.copy().canonicalise()
        lines2 = "y = x.copy().canonicalise()"
        objs.append(("y", c2, "cano[product]"))
    except Exception as ex:
        lines2 = ""
    for name, obj, what in objs:
        stats["checks"] = stats.get("checks", 0) + 1
        stats.setdefault("ops", {})
        stats["ops"][what] = stats["ops"].get(what, 0) + 1
        lk, nrm = leak(obj, charges, [sector])
        qt = [int(v) for v in np.asarray(obj.qntot).reshape(-1)]
        ll = lines + ([lines2] if name == "y" else [])
        if not (lk <= 1e-10) or qt != [sector] or not shapes_ok(obj) or nrm < 1e-12:
            fails.append({"key": "tree-%s:leak" % what.split("[")[0],
                          "detail": {"op": what, "desc": desc, "sector_of_the_dense_vector": [sector], "qntot_stored": qt, "leak": lk, "norm": nrm},
                          "repro": PRELUDE + "\n".join(ll) + "\nlk, nrm = N.leak(%s, charges, %r)\nqt = [int(v) for v in np.asarray(%s.qntot).reshape(-1)]\n"
                                   "print('dense weight outside sector %r:', lk, '; stored qntot', qt)\nsys.exit(1 if (not lk <= 1e-10) or qt != %r else 0)\n"
                                   % (name, [sector], name, [sector], [sector]),
                          "case_seed": case_seed})
            return
        exports.append({"what": what, "ncomp": 1, "qtot": [sector], "tree": export_tree(obj), "case": case_seed, "name": name,
                        "repro_lines": PRELUDE + "\n".join(ll) + "\n", "nnodes": len(obj.node_list), "maxbond": int(max(obj.bond_dims))})


def run_case(case_seed, exports, fails, stats):
    rng = random.Random(case_seed)
    spec = gen_spec(rng)
    if spec is None:
        return
    ncomp = T.qn_size(spec)
    sector0 = [int(x) for x in np.asarray(T.qntot_of(spec)).reshape(-1)]
    bt, nodes, dof2basis = T.build_basis_tree(spec)
    lines = ["spec = json.loads(%r)" % json.dumps(spec), "bt, nodes, dof2basis = T.build_basis_tree(spec)"]
    hseed = rng.randrange(10 ** 9)
    hspec = hermitian_opspec(random.Random(hseed), spec)
    if not hspec:
        return
    H = TTNO(bt, T.build_terms(spec, hspec))
    lines.append("H = TTNO(bt, T.build_terms(spec, N.hermitian_opspec(random.Random(%d), spec)))" % hseed)

    def make_state(name):
        s2 = rng.randrange(2 ** 31)
        m = rng.randint(3, 6)
        np.random.seed(s2)
        try:
            st = TTNS.random(bt, T.qntot_of(spec), m)
        except Exception:
            stats["random_rejected"] = stats.get("random_rejected", 0) + 1
            return None
        lines.append("np.random.seed(%d); %s = TTNS.random(bt, T.qntot_of(spec), %d)" % (s2, name, m))
        return st

    cur = make_state("x")
    if cur is None:
        return
    charges = config_charges(cur)
    lines.append("charges = N.config_charges(x)")
    if not np.any(np.all(charges == np.array(sector0).reshape(1, -1), axis=1)):
        return
    stats["cases"] = stats.get("cases", 0) + 1
    stats.setdefault("sector_mode", {})
    stats["sector_mode"][spec["mode"]] = stats["sector_mode"].get(spec["mode"], 0) + 1
    stats.setdefault("ncomp", {})
    stats["ncomp"][str(ncomp)] = stats["ncomp"].get(str(ncomp), 0) + 1
    live = []
    last_sig = {}

    def keep(expr, obj, sector):
        if any(o is obj for (_, o, _) in live):
            return
        alias = "k%d" % len(live)
        lines.append("%s = %s" % (alias, expr))
        live.append((alias, obj, list(sector)))

    def validate(obj, name, what, sector, always_export):
        stats["checks"] = stats.get("checks", 0) + 1
        lk, nrm = leak(obj, charges, sector)
        qt = [int(x) for x in np.asarray(obj.qntot).reshape(-1)]
        if not (lk <= 1e-10) or qt != list(sector) or not shapes_ok(obj):
            fails.append({"key": "tree-%s:%s" % (what.split("[")[0], "leak" if always_export else "operand-stale"),
                          "detail": {"op": what, "object": name, "sector": list(sector), "qntot_now": qt, "leak": lk, "norm": nrm, "label_shapes_ok": shapes_ok(obj)},
                          "repro": PRELUDE + "\n".join(lines) + "\nlk, nrm = N.leak(%s, charges, %r)\nqt = [int(v) for v in np.asarray(%s.qntot).reshape(-1)]\n"
                                   "print('amplitude outside sector %r:', lk, 'qntot', qt)\nsys.exit(1 if (not lk <= 1e-10) or qt != %r or not N.shapes_ok(%s) else 0)\n"
                                   % (name, list(sector), name, list(sector), list(sector), name),
                          "case_seed": case_seed})
            return False
        e = export_tree(obj)
        sg = json.dumps(e)
        if always_export or last_sig.get(id(obj)) != sg:
            exports.append({"what": what if always_export else "operand-after:" + what, "ncomp": ncomp, "qtot": list(sector), "tree": e, "case": case_seed,
                            "name": name, "repro_lines": PRELUDE + "\n".join(lines) + "\n", "nnodes": len(obj.node_list),
                            "maxbond": int(max(obj.bond_dims))})
        last_sig[id(obj)] = sg
        return True

    if not validate(cur, "x", "constructor", sector0, True):
        return
    curq = list(sector0)
    for step in range(rng.randint(2, 4)):
        opk = rng.choice(["cano", "compress", "compress", "add", "scale", "apply_q", "apply_q", "gs", "evolve", "evolve", "evolve"])
        what = opk
        keep("x", cur, curq)
        try:
            if opk == "cano":
                cur = cur.copy().canonicalise()
                lines.append("x = x.copy().canonicalise()")
            elif opk == "compress":
                cc = rng.choice([("fixed", 4096), ("fixed", 1), ("fixed", 2), ("threshold", 1e-2), ("threshold", 0.3)])
                cur = cur.copy()
                cur.compress_config = CompressConfig(CompressCriteria.fixed, max_bonddim=cc[1]) if cc[0] == "fixed" else CompressConfig(CompressCriteria.threshold, threshold=cc[1])
                cur.canonicalise()
                cur.compress()
                lines.append("x = x.copy(); x.compress_config = %s; x.canonicalise(); x.compress()" %
                             ("CompressConfig(CompressCriteria.fixed, max_bonddim=%d)" % cc[1] if cc[0] == "fixed" else "CompressConfig(CompressCriteria.threshold, threshold=%r)" % cc[1]))
                what = "compress[%s]" % ("lossless" if cc == ("fixed", 4096) else cc[0])
            elif opk == "add":
                if curq != sector0:
                    continue
                other = make_state("y")
                if other is None:
                    continue
                c1, c2 = rng.choice([1.0, 2.0, -0.5]), rng.choice([1.0, 3.0, complex(0.2, 0.7)])
                cur = cur.copy()
                cur.coeff = c1
                other.coeff = c2
                lines.append("x = x.copy(); x.coeff = %r; y.coeff = %r" % (c1, c2))
                keep("y", other, sector0)
                cur = cur.add(other)
                lines.append("x = x.add(y)")
            elif opk == "scale":
                v = rng.choice([2.0, -0.5, complex(0.3, 0.8)])
                cur = cur.scale(v)
                lines.append("x = x.scale(%r)" % (v,))
            elif opk == "apply_q":
                oseed = rng.randrange(10 ** 9)
                ospec, ch = charged_opspec(random.Random(oseed), spec)
                O = TTNO(bt, T.build_terms(spec, ospec))
                new = O.apply(cur)
                if np.linalg.norm(np.asarray(T.dense(new)).ravel()) < 1e-9:
                    continue
                cur = new
                lines.append("O = TTNO(bt, T.build_terms(spec, N.charged_opspec(random.Random(%d), spec)[0])); x = O.apply(x)" % oseed)
                curq = [a + b for a, b in zip(curq, ch)]
                if rng.random() < 0.5:
                    cur.canonicalise()
                    lines.append("x.canonicalise()")
            elif opk == "gs":
                M = rng.randint(2, 5)
                cur = cur.copy()
                cur.canonicalise()
                optimize_ttns(cur, H, [[M, 0.4], [M, 0]])
                lines.append("x = x.copy(); x.canonicalise(); optimize_ttns(x, H, [[%d, 0.4], [%d, 0]])" % (M, M))
                what = "optimize_ttns"
            elif opk == "evolve":
                sch = rng.choice(SCHEMES)
                Hd = None
                M = rng.randint(2, 6)
                cur = cur.copy()
                cur.canonicalise()
                cur.compress_config = CompressConfig(CompressCriteria.fixed, max_bonddim=M)
                cur.evolve_config = EvolveConfig(getattr(EvolveMethod, sch), force_ovlp=False) if sch == "tdvp_vmf" else EvolveConfig(getattr(EvolveMethod, sch))
                lines.append("x = x.copy(); x.canonicalise(); x.compress_config = CompressConfig(CompressCriteria.fixed, max_bonddim=%d); x.evolve_config = %s" %
                             (M, "EvolveConfig(EvolveMethod.tdvp_vmf, force_ovlp=False)" if sch == "tdvp_vmf" else "EvolveConfig(EvolveMethod.%s)" % sch))
                dt = rng.choice([0.05, 0.2])
                cur = cur.evolve(H, dt)
                lines.append("x = x.evolve(H, %r)" % dt)
                what = "evolve[%s]" % sch
            else:
                continue
        except Exception as ex:
            msg = repr(ex)
            stats.setdefault("exceptions", {})
            kk = "%s: %s" % (what, msg[:70])
            stats["exceptions"][kk] = stats["exceptions"].get(kk, 0) + 1
            return
        stats.setdefault("ops", {})
        stats["ops"][what] = stats["ops"].get(what, 0) + 1
        if not validate(cur, "x", what, curq, True):
            return
        for (alias, obj, sector) in live:
            if obj is cur:
                continue
            if not validate(obj, alias, what, sector, False):
                return


def main():
    payload = json.loads(sys.stdin.read() or "{}")
    seed = int(payload.get("seed", 0))
    ncases = int(payload.get("ncases", 20))
    exports, fails, stats = [], [], {}
    for k in range(ncases):
        try:
            if k % 3 == 2:
                run_product_case(seed * 100043 + k, exports, fails, stats)
                continue
            run_case(seed * 100043 + k, exports, fails, stats)
        except Exception as ex:
            fails.append({"key": "tree-generator:exception", "detail": {"exception": repr(ex), "tb": traceback.format_exc()[-1000:]}, "repro": None, "case_seed": seed * 100043 + k})
    seen, out = set(), []
    for f in fails:
        if f["key"] not in seen:
            seen.add(f["key"])
            out.append(f)
    res = {"exports": exports, "failures": out, "stats": stats}
    if payload.get("out"):
        with open(payload["out"], "w") as f:
            json.dump(res, f, default=str)
        print("RESULT " + json.dumps({"file": payload["out"]}))
    else:
        print("RESULT " + json.dumps(res, default=str))


if __name__ == "__main__":
    main()
