"""C17: qc_model term lists and the dense fermionic oracle.
stdin: {"cases": [{"nsp", "seed", "kind", "stacked", "qn"}]}   ->   RESULT {"cases": [...]}"""
import json
import os
import sys
import tempfile
import traceback

import numpy as np

import c17_lib as L
from renormalizer.model import h_qc



def L_emit(obj):
    """large results go through a file: the harness reads a pipe only after the process has exited"""
    fd, path = tempfile.mkstemp(prefix="verif_c17_", suffix=".json", dir="/tmp")
    with os.fdopen(fd, "w") as f:
        json.dump(obj, f)
    print("RESULT " + json.dumps({"file": path}))


def one(case):
    nsp, seed, kind = case["nsp"], case["seed"], case["kind"]
    h, eri = L.make_integrals(nsp, seed, kind)
    out = {"case": case, "n": 2 * nsp}
    sh, aseri = h_qc.int_to_h(h, eri)
    out["support1"] = [[int(x) for x in r] for r in np.argwhere(sh != 0)]
    out["support2"] = [[int(x) for x in r] for r in np.argwhere(aseri != 0)]
    if not out["support1"] and not out["support2"]:
        out["empty"] = True
        return out
    basis, terms = h_qc.qc_model(sh, aseri, stacked=case["stacked"], conserve_qn=case["qn"])
    flat = L.flat_terms(terms)
    # association of terms with index tuples: the order qc_model iterates (flat) / multiset match (stacked)
    pairs = [tuple(r) + (float(sh[tuple(r)]),) for r in np.argwhere(sh != 0)] + \
            [tuple(r) + (float(aseri[tuple(r)]),) for r in np.argwhere(aseri != 0)]
    if case["stacked"]:
        _, fterms = h_qc.qc_model(sh, aseri, stacked=False, conserve_qn=case["qn"])
        key = lambda t: (t.symbol, tuple(t.dofs), float(t.factor), tuple(tuple(int(y) for y in q) for q in t.qn_list))
        out["stacked_same_multiset"] = sorted(map(key, flat)) == sorted(map(key, fterms))
        out["stacked_groups"] = len(terms)
        flat = fterms
    tl = []
    for t, pr in zip(flat, pairs):
        idx, val = pr[:-1], pr[-1]
        ratio = t.factor / val
        tl.append({"idx": [int(x) for x in idx], "ratio": float(ratio), "sym": list(t.split_symbol), "dofs": [int(d) for d in t.dofs],
                   "qn": [[int(y) for y in q] for q in t.qn_list]})
    # closure under the adjoint: (p,q) <-> (q,p), (p,q,r,s) <-> (r,s,p,q) with the same integral value and transposed operator
    by_idx = {tuple(int(x) for x in pr[:-1]): (pr[-1], t) for t, pr in zip(flat, pairs)}
    adj_bad, adj_ex, adj_n = 0, None, 0
    for idx, (val, t) in by_idx.items():
        if len(idx) == 2 and idx[0] > idx[1] or len(idx) == 4 and idx[:2] > idx[2:]:
            continue
        a = (idx[1], idx[0]) if len(idx) == 2 else (idx[2], idx[3], idx[0], idx[1])
        adj_n += 1
        pa = by_idx.get(a)
        ok = pa is not None and pa[0] == val
        if ok and 2 * nsp <= 8:
            ok = np.array_equal(L.term_dense(pa[1], 2 * nsp), L.term_dense(t, 2 * nsp).T)
        if not ok:
            adj_bad += 1
            adj_ex = adj_ex or {"idx": idx, "adjoint_idx": a, "value": val, "partner_value": None if pa is None else pa[0]}
    out["adj_bad"], out["adj_example"], out["adj_checked"] = adj_bad, adj_ex, adj_n
    out["charged_terms"] = int(sum(1 for t in flat if np.any(np.asarray(t.qn) != 0)))
    out["nterms"] = len(flat)
    out["len_match"] = len(flat) == len(pairs)
    out["terms"] = tl
    out["sigmaqn"] = [np.asarray(b.sigmaqn).tolist() for b in basis]
    # dense oracle
    n = 2 * nsp
    H = L.dense_of_terms(basis, terms)
    Href = L.fermionic_h(h, eri)
    scale = max(1.0, float(np.abs(Href).max()))
    na, nb = L.number_ops(n)
    out["dense_dev"] = float(np.abs(H - Href).max() / scale)
    out["herm_dev"] = float(np.abs(H - H.conj().T).max() / scale)
    out["comm_na"] = float(np.abs(H @ na - na @ H).max() / scale)
    out["comm_nb"] = float(np.abs(H @ nb - nb @ H).max() / scale)
    out["norm"] = float(np.abs(Href).max())
    return out


def main():
    payload = json.load(sys.stdin)
    res = []
    for c in payload["cases"]:
        try:
            res.append(one(c))
        except Exception:
            res.append({"case": c, "error": traceback.format_exc()[-1500:]})
    L_emit({"cases": res})


main()
