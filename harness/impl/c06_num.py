"""C06 numerical stream: compress / canonicalise / add+compress / apply / optimize_mps / evolve (every cheap scheme)
with conserving Hamiltonians on small random models.

After every operation
  (oracle)  the dense amplitudes outside the expected sector are < 1e-10 (relative to the norm), and applying an
            operator of charge q lands exactly in the sector shifted by q;
  (export)  the support pattern (|x| > 1e-12 max|x|) and the labels qn / qnidx / qntot of every site are exported;
            Coq evaluates the proved-sound checker qn_validbV on them.
stdin {"seed", "ncases", "out"}; RESULT {"exports": [...], "failures": [...], "stats": {...}}"""
import json
import random
import sys
import traceback

import numpy as np

import c03_gen as G
import c06_check
from renormalizer import Mps, Mpo, Op
from renormalizer.mps import gs
from renormalizer.utils import CompressConfig, CompressCriteria, EvolveConfig, EvolveMethod, OptimizeConfig

PRELUDE = r'''
import random, sys, numpy as np
sys.path.insert(0, "/verif/harness/impl")
import c03_gen as G, c06_num as N
from renormalizer import Mps, Mpo, Op
from renormalizer.mps import gs
from renormalizer.utils import CompressConfig, CompressCriteria, EvolveConfig, EvolveMethod, OptimizeConfig
'''

SCHEMES = ["prop_and_compress", "prop_and_compress_tdrk4", "prop_and_compress_tdrk", "tdvp_ps", "tdvp_ps2", "tdvp_vmf",
           "tdvp_mu_vmf", "tdvp_mu_cmf"]


def hermitian_terms(rng, sites, nterm=4):
    """conserving, Hermitian: diagonal terms and hopping pairs T + T^dagger with real factors"""
    n = len(sites)
    ncomp = len(sites[0]["sigmaqn"][0])
    zero = [0] * ncomp
    terms = []

    def diag_ops(i):
        return [o for o in sites[i]["ops"] if o["charge"] == zero and not o["complex"] and np.allclose(o["mat"], np.diag(np.diag(o["mat"]))) and o["symbol"] != "I"]

    def adj(i, o):
        for o2 in sites[i]["ops"]:
            if o2["mat"].shape == o["mat"].shape and np.allclose(o2["mat"], np.conj(o["mat"]).T) and not o2["complex"]:
                return o2
        return None

    for _ in range(nterm):
        if rng.random() < 0.5 or n < 2:
            k = rng.randint(1, min(2, n))
            where = sorted(rng.sample(range(n), k))
            sel = []
            for w in where:
                c = diag_ops(w)
                if not c:
                    sel = None
                    break
                sel.append(rng.choice(c))
            if not sel:
                continue
            terms.append((" ".join(o["symbol"] for o in sel), sum((o["dofs"] for o in sel), []), rng.uniform(-1, 1), sum((o["qn"] for o in sel), [])))
        else:
            i, j = sorted(rng.sample(range(n), 2))
            ci = [o for o in sites[i]["ops"] if o["charge"] != zero and not o["complex"] and adj(i, o) is not None]
            rng.shuffle(ci)
            done = False
            for oi in ci:
                cj = [o for o in sites[j]["ops"] if o["charge"] == [-x for x in oi["charge"]] and not o["complex"] and adj(j, o) is not None]
                if cj:
                    oj = rng.choice(cj)
                    f = rng.uniform(-1, 1)
                    ai, aj = adj(i, oi), adj(j, oj)
                    terms.append((oi["symbol"] + " " + oj["symbol"], oi["dofs"] + oj["dofs"], f, oi["qn"] + oj["qn"]))
                    terms.append((ai["symbol"] + " " + aj["symbol"], ai["dofs"] + aj["dofs"], f, ai["qn"] + aj["qn"]))
                    done = True
                    break
            if not done:
                continue
    if not terms:
        return None, None
    return [Op(s, d, f, qn=q) for (s, d, f, q) in terms], terms


def pattern(mp):
    pats = []
    for mt in mp:
        a = np.abs(np.asarray(mt.array))
        thr = 1e-12 * max(a.max(), 1e-300)
        pats.append((a > thr).tolist())
    return pats


def export(mp, sites, what):
    return {"what": what, "sigma": [s["sigmaqn"] for s in sites], "ncomp": len(sites[0]["sigmaqn"][0]),
            "qn": [np.asarray(q).astype(int).reshape(len(q), -1).tolist() for q in mp.qn], "qnidx": int(mp.qnidx),
            "qntot": [int(x) for x in np.asarray(mp.qntot).reshape(-1)], "to_right": bool(mp.to_right),
            "pats": pattern(mp), "bond_dims": [int(x) for x in mp.bond_dims]}


def leak(mp, charges, q):
    """(norm of the amplitudes outside sector q) / norm (purely relative)"""
    v = G.dense_state(mp) * mp.coeff
    out = np.any(charges != np.array(q), axis=1)
    return float(np.linalg.norm(v[out]) / (np.linalg.norm(v) or 1.0)), float(np.linalg.norm(v))


def trunc_config(rng_choice):
    kind, val = rng_choice
    if kind == "fixed":
        return CompressConfig(CompressCriteria.fixed, max_bonddim=val)
    return CompressConfig(CompressCriteria.threshold, threshold=val)


def run_case(case_seed, exports, fails, stats):
    rng = random.Random(case_seed)
    np.random.seed(case_seed % (2 ** 31))
    nsite = rng.choice([2, 3, 3, 4, 4, 4, 5])
    ncomp = rng.choice([1, 1, 2])
    mseed = rng.randrange(10 ** 9)
    model, sites = G.build_model(random.Random(mseed), nsite, ncomp, False)
    charges = G.config_charges(sites)
    lines = ["np.random.seed(%d)" % (case_seed % (2 ** 31)),
             "model, sites = G.build_model(random.Random(%d), %d, %d, False)" % (mseed, nsite, ncomp),
             "charges = G.config_charges(sites)"]
    mode = rng.choice(["any", "any", "full", "empty", "adjacent", "adjacent"])
    q, cfg = G.random_sector(rng, sites, mode)
    q = [int(x) for x in q]
    hseed = rng.randrange(10 ** 9)
    hterms, hdesc = hermitian_terms(random.Random(hseed), sites)
    if hterms is None:
        return
    H = Mpo(model, hterms)
    lines.append("H = Mpo(model, N.hermitian_terms(random.Random(%d), sites)[0])" % hseed)
    # every operator the calculation sees must carry labels that describe its blocks (dense NumPy invariant)
    stats["operator_label_checks"] = stats.get("operator_label_checks", 0) + 1
    if c06_check.op_labels_describe_blocks(H, verbose=False):
        fails.append({"key": "operator-labels:constructed", "detail": {"which": "Hamiltonian", "qn": [np.asarray(x).tolist() for x in H.qn]},
                      "repro": PRELUDE + "\n".join(lines) + "\nimport c06_check\nsys.exit(c06_check.op_labels_describe_blocks(H))\n", "case_seed": case_seed})
        return
    stats["cases"] = stats.get("cases", 0) + 1
    stats.setdefault("sector_mode", {})
    stats["sector_mode"][mode] = stats["sector_mode"].get(mode, 0) + 1
    stats.setdefault("ncomp", {})
    stats["ncomp"][str(ncomp)] = stats["ncomp"].get(str(ncomp), 0) + 1

    def make_state(name):
        if rng.random() < 0.4:
            # Hartree product state: per site an integer condition or a coefficient VECTOR spread over all / some basis
            # states that carry the same charge as the chosen configuration (charged multi-state sites, vibrations)
            cond = {}
            for i, (s_, c) in enumerate(zip(sites, cfg)):
                key = model.basis[i].dofs[0] if s_["kind"] == "multi" else model.basis[i].dof
                same = [j for j in range(s_["nbas"]) if s_["sigmaqn"][j] == s_["sigmaqn"][c]]
                if len(same) >= 2 and rng.random() < 0.7:
                    sel = sorted(rng.sample(same, rng.randint(2, len(same))))
                    vec = [0.0] * s_["nbas"]
                    for j in sel:
                        vec[j] = round(rng.choice([-1, 1]) * rng.uniform(0.3, 1.0), 3)
                    cond[key] = vec
                    stats["vector_conditions"] = stats.get("vector_conditions", 0) + 1
                elif c or rng.random() < 0.5:
                    cond[key] = int(c)
            k = rng.randrange(nsite)
            mp = Mps.hartree_product_state(model, cond, qn_idx=k)
            lines.append("%s = Mps.hartree_product_state(model, %r, qn_idx=%d)" % (name, cond, k))
            stats["product_states"] = stats.get("product_states", 0) + 1
            return mp
        mmax = rng.randint(4, 7) if ncomp == 1 else rng.randint(6, 9)
        s2 = rng.randrange(2 ** 31)
        np.random.seed(s2)
        try:
            mp = Mps.random(model, np.array(q), mmax, percent=1.0)
        except (FloatingPointError, ValueError):
            stats["random_rejected"] = stats.get("random_rejected", 0) + 1
            return None
        lines.append("np.random.seed(%d); %s = Mps.random(model, np.array(%r), %d, percent=1.0)" % (s2, name, q, mmax))
        return mp

    cur = make_state("x")
    if cur is None:
        return
    if rng.random() < 0.25:
        # real tensors with a complex prefactor
        cz = complex(round(rng.uniform(-1, 1), 3), round(rng.uniform(0.2, 1), 3))
        cur.coeff = cz
        lines.append("x.coeff = %r" % (cz,))
    curq = list(q)

    def check(mp, name, what, expect_q):
        stats["checks"] = stats.get("checks", 0) + 1
        stats.setdefault("ops", {})
        stats["ops"][what] = stats["ops"].get(what, 0) + 1
        lk, nrm = leak(mp, charges, expect_q)
        if not (lk <= 1e-10) or not np.all(np.asarray(mp.qntot).reshape(-1) == np.array(expect_q)):
            fails.append({"key": "%s:leak" % what.split("[")[0], "detail": {"op": what, "leak": lk, "norm": nrm, "sector": expect_q, "qntot": np.asarray(mp.qntot).tolist()},
                          "repro": PRELUDE + "\n".join(lines) + "\nlk, nrm = N.leak(%s, charges, %r)\nprint('amplitude outside sector %r:', lk, 'qntot', %s.qntot)\nsys.exit(1 if (not lk <= 1e-10) or not np.all(np.asarray(%s.qntot).reshape(-1) == np.array(%r)) else 0)\n"
                                   % (name, expect_q, expect_q, name, name, expect_q),
                          "case_seed": case_seed})
            return False
        e = export(mp, sites, what)
        e["case"] = case_seed
        e["repro_lines"] = PRELUDE + "\n".join(lines) + "\n"
        e["name"] = name
        exports.append(e)
        return True

    if not check(cur, "x", "constructor", curq):
        return

    # every object produced so far stays alive under its own name; after EVERY operation all of them are re-validated
    # (dense sector + qntot by the oracle; support pattern / qn / qnidx / qntot by the Coq checker whenever they differ
    # from what was last exported for that object): an operation must not invalidate its operands or their relatives
    live = []              # (name, object, sector)
    last_sig = {}

    def sig_of(mp):
        return json.dumps([[np.asarray(x).tolist() for x in mp.qn], int(mp.qnidx), np.asarray(mp.qntot).tolist(), pattern(mp)])

    def keep(name_expr, mp, sector):
        if any(o is mp for (_, o, _) in live):
            return
        alias = "k%d" % len(live)
        lines.append("%s = %s" % (alias, name_expr))
        live.append((alias, mp, list(sector)))
        last_sig[id(mp)] = sig_of(mp)

    def recheck_live(what, skip):
        for (alias, mp, sector) in live:
            if mp is skip:
                continue
            stats["live_rechecks"] = stats.get("live_rechecks", 0) + 1
            lk, nrm = leak(mp, charges, sector)
            qt = np.asarray(mp.qntot).reshape(-1)
            if not (lk <= 1e-10) or not np.all(qt == np.array(sector)):
                fails.append({"key": "operand-stale:%s" % what.split("[")[0],
                              "detail": {"op": what, "object": alias, "created_in_sector": sector, "qntot_now": qt.tolist(), "leak_wrt_created_sector": lk,
                                         "explanation": "an earlier object (operand or a relative by copy) no longer describes itself after this operation"},
                              "repro": PRELUDE + "\n".join(lines) + "\nlk, nrm = N.leak(%s, charges, %r)\nprint('object %s: amplitude outside its sector %r:', lk, '; qntot now', %s.qntot)\n"
                                       "sys.exit(1 if (not lk <= 1e-10) or not np.all(np.asarray(%s.qntot).reshape(-1) == np.array(%r)) else 0)\n"
                                       % (alias, sector, alias, sector, alias, alias, sector),
                              "case_seed": case_seed})
                return False
            sg = sig_of(mp)
            if sg != last_sig.get(id(mp)):
                last_sig[id(mp)] = sg
                e = export(mp, sites, "operand-after:" + what)
                e["case"] = case_seed
                e["repro_lines"] = PRELUDE + "\n".join(lines) + "\n"
                e["name"] = alias
                exports.append(e)
        return True

    def partial_canonicalise(base, sector):
        """canonicalise(stop_idx=k) for EVERY k in both sweep directions, each on its own copy of `base`; the labels /
        qnidx of every result go to the Coq checker, and a follow-up ensure_*_canonical + lossless compress must
        reproduce the dense vector"""
        ref = G.dense_state(base) * base.coeff
        for to_right in (True, False):
            stops = range(0, nsite) if to_right else range(nsite - 1, -1, -1)
            for k in stops:
                nm = "p"
                try:
                    pc = base.copy()
                    if to_right:
                        pc.ensure_right_canonical()      # centre at site 0, sweeping right
                    else:
                        pc.ensure_left_canonical()       # centre at the last site, sweeping left
                    pc.canonicalise(stop_idx=k)
                    lines.append("p = x.copy(); p.ensure_%s_canonical(); p.canonicalise(stop_idx=%d)" % ("right" if to_right else "left", k))
                    what_ = "partial_cano[%s]" % ("to_right" if to_right else "to_left")
                    if not check(pc, nm, what_, sector):
                        return False
                    f2 = pc.copy()
                    f2.compress_config = trunc_config(("fixed", 4096))
                    follow = rng.choice(["left", "right"])
                    getattr(f2, "ensure_%s_canonical" % follow)()
                    f2.compress()
                    err = float(np.linalg.norm(G.dense_state(f2) * f2.coeff - ref) / (np.linalg.norm(ref) or 1.0))
                    stats["checks"] = stats.get("checks", 0) + 1
                    if not err <= 1e-9:
                        fails.append({"key": "partial_cano:dense-after-followup",
                                      "detail": {"stop_idx": k, "to_right": to_right, "nsite": nsite, "rel_err": err, "qnidx_after": int(pc.qnidx), "to_right_after": bool(pc.to_right)},
                                      "repro": PRELUDE + "\n".join(lines) + "\nref = G.dense_state(x) * x.coeff\nf2 = p.copy(); f2.compress_config = N.trunc_config(('fixed', 4096)); f2.ensure_%s_canonical(); f2.compress()\n"
                                               "err = float(np.linalg.norm(G.dense_state(f2) * f2.coeff - ref) / (np.linalg.norm(ref) or 1.0))\nprint('relative error after canonicalise(stop_idx=%d) + ensure_%s_canonical + compress:', err)\nsys.exit(1 if not err <= 1e-9 else 0)\n"
                                               % (follow, k, follow),
                                      "case_seed": case_seed})
                        return False
                    lines.pop()
                except Exception as ex:
                    stats.setdefault("exceptions", {})
                    kk = "partial_cano: %s" % repr(ex)[:60]
                    stats["exceptions"][kk] = stats["exceptions"].get(kk, 0) + 1
                    fails.append({"key": "partial_cano:exception", "detail": {"stop_idx": k, "to_right": to_right, "nsite": nsite, "exception": repr(ex), "tb": traceback.format_exc()[-500:]},
                                  "repro": PRELUDE + "\n".join(lines) + "\n", "case_seed": case_seed})
                    return False
        return True

    nops = rng.randint(2, 5)
    for step in range(nops):
        opk = rng.choice(["cano", "compress_lossless", "compress_trunc", "compress_trunc", "add_compress", "scale", "apply_q", "apply_q",
                          "gs", "evolve", "evolve", "evolve", "partial_cano", "partial_cano"])
        what = opk
        keep("x", cur, curq)
        if opk == "partial_cano":
            if not partial_canonicalise(cur, curq):
                return
            continue
        try:
            if opk == "cano":
                side = rng.choice(["L", "R"])
                cur = cur.copy()
                (cur.ensure_left_canonical if side == "L" else cur.ensure_right_canonical)()
                lines.append("x = x.copy(); x.ensure_%s_canonical()" % ("left" if side == "L" else "right"))
            elif opk in ("compress_lossless", "compress_trunc"):
                cc = ("fixed", 4096) if opk == "compress_lossless" else rng.choice([("fixed", 1), ("fixed", 2), ("fixed", 3), ("threshold", 1e-2), ("threshold", 0.3)])
                cur = cur.copy()
                cur.compress_config = trunc_config(cc)
                side = rng.choice(["left", "right"])
                getattr(cur, "ensure_%s_canonical" % side)()
                cur.compress()
                lines.append("x = x.copy(); x.compress_config = N.trunc_config(%r); x.ensure_%s_canonical(); x.compress()" % (cc, side))
                what = "%s[%s]" % (opk, cc[0])
            elif opk == "add_compress":
                other = make_state("y")
                if other is None or curq != q:
                    continue
                keep("y", other, q)
                cc = rng.choice([("fixed", 4096), ("fixed", 2), ("threshold", 1e-3)])
                v = rng.uniform(-2, 2)
                cur = cur.add(other.scale(v))
                cur.compress_config = trunc_config(cc)
                side = rng.choice(["left", "right"])
                getattr(cur, "ensure_%s_canonical" % side)()
                cur.compress()
                lines.append("x = x.add(y.scale(%r)); x.compress_config = N.trunc_config(%r); x.ensure_%s_canonical(); x.compress()" % (v, cc, side))
            elif opk == "scale":
                v = rng.choice([2.0, -0.5, complex(0.3, 0.8)])
                cur = cur.scale(v)
                lines.append("x = x.scale(%r)" % (v,))
            elif opk == "apply_q":
                tseed = rng.randrange(10 ** 9)
                terms, ch, desc = G.random_terms(random.Random(tseed), sites, False, False, want_charge=None)
                if not terms or np.linalg.norm(G.dense_of_terms(sites, desc)) < 1e-12:
                    continue
                O = Mpo(model, terms)
                stats["operator_label_checks"] = stats.get("operator_label_checks", 0) + 1
                if c06_check.op_labels_describe_blocks(O, verbose=False):
                    fails.append({"key": "operator-labels:constructed", "detail": {"which": "charged operator", "qn": [np.asarray(x).tolist() for x in O.qn]},
                                  "repro": PRELUDE + "\n".join(lines) + "\nimport c06_check\nO = Mpo(model, G.random_terms(random.Random(%d), sites, False, False, want_charge=None)[0])\nsys.exit(c06_check.op_labels_describe_blocks(O))\n" % tseed,
                                  "case_seed": case_seed})
                    return
                ref = G.dense_of_terms(sites, desc) @ (G.dense_state(cur) * cur.coeff)
                if np.linalg.norm(ref) < 1e-8:
                    continue            # the operator annihilates the state
                cur = O.apply(cur)
                side = rng.choice(["left", "right"])
                getattr(cur, "ensure_%s_canonical" % side)()
                lines.append("O = Mpo(model, G.random_terms(random.Random(%d), sites, False, False, want_charge=None)[0]); x = O.apply(x); x.ensure_%s_canonical()" % (tseed, side))
                curq = [a + b for a, b in zip(curq, ch)]
                what = "apply_q[charge %s]" % ("zero" if not any(ch) else "nonzero")
            elif opk == "gs":
                m = rng.choice(["1site", "2site"])
                M = rng.randint(2, 6)
                g0 = cur.copy()
                g0.optimize_config = OptimizeConfig(procedure=[[M, 0.4], [M, 0.2], [M, 0]])
                g0.optimize_config.method = m
                _, cur = gs.optimize_mps(g0, H)
                lines.append("g0 = x.copy(); g0.optimize_config = OptimizeConfig(procedure=[[%d, 0.4], [%d, 0.2], [%d, 0]]); g0.optimize_config.method = %r; _, x = gs.optimize_mps(g0, H)" % (M, M, M, m))
                what = "optimize_mps[%s]" % m
            elif opk == "evolve":
                sch = rng.choice(SCHEMES)
                if np.linalg.norm(G.dense_op(H) @ (G.dense_state(cur) * cur.coeff)) < 1e-9:
                    # H annihilates the state (e.g. pure hopping in the fully occupied sector): the propagate-and-compress
                    # schemes cannot represent the zero vector H|psi> and raise (C09's domain, see notes/C06.md)
                    stats["skipped_H_annihilates_state"] = stats.get("skipped_H_annihilates_state", 0) + 1
                    continue
                M = rng.randint(2, 8)
                nst = rng.randint(1, 2)
                dt = rng.choice([0.05, 0.2])
                cur = cur.copy()
                cur.ensure_right_canonical()
                cur.canonicalise()
                cur.canonicalise()
                cur.compress_config = CompressConfig(CompressCriteria.fixed, max_bonddim=M)
                cur.evolve_config = EvolveConfig(getattr(EvolveMethod, sch))
                lines.append("x = x.copy(); x.ensure_right_canonical(); x.canonicalise(); x.canonicalise(); x.compress_config = CompressConfig(CompressCriteria.fixed, max_bonddim=%d); x.evolve_config = EvolveConfig(EvolveMethod.%s)" % (M, sch))
                for _ in range(nst):
                    cur = cur.evolve(H, dt)
                    lines.append("x = x.evolve(H, %r)" % dt)
                what = "evolve[%s]" % sch
            else:
                continue
        except Exception as ex:
            msg = repr(ex)
            stats.setdefault("exceptions", {})
            kk = "%s: %s" % (what, msg[:60])
            stats["exceptions"][kk] = stats["exceptions"].get(kk, 0) + 1
            if "quantum number" in msg.lower():
                fails.append({"key": "%s:invalid-quantum-number" % what.split("[")[0], "detail": {"op": what, "exception": msg, "tb": traceback.format_exc()[-600:]},
                              "repro": None, "case_seed": case_seed})
            return
        if not check(cur, "x", what, curq):
            return
        if not recheck_live(what, cur):
            return


def main():
    payload = json.loads(sys.stdin.read() or "{}")
    seed = int(payload.get("seed", 0))
    ncases = int(payload.get("ncases", 20))
    exports, fails, stats = [], [], {}
    for k in range(ncases):
        try:
            run_case(seed * 100019 + k, exports, fails, stats)
        except Exception as ex:
            fails.append({"key": "generator:exception", "detail": {"exception": repr(ex), "tb": traceback.format_exc()[-1000:]}, "repro": None, "case_seed": seed * 100019 + k})
    seen, out = set(), []
    for f in fails:
        if f["key"] not in seen:
            seen.add(f["key"])
            out.append(f)
    res = {"exports": exports, "failures": out, "stats": stats}
    if payload.get("out"):
        with open(payload["out"], "w") as f:
            json.dump(res, f, default=str)
        print("RESULT " + json.dumps({"file": payload["out"]}))
    else:
        print("RESULT " + json.dumps(res, default=str))


if __name__ == "__main__":
    main()
