"""C09 projector-splitting event traces.  The local evolve functions (expm_krylov / solve_ivp as bound in
renormalizer.mps.mps), the QR (svd_qn.svd_qn), the site stores (Mps.__setitem__) and the two-site update
(_update_mps) are wrapped by logging shims (the wrapped functions are called unchanged); one TDVP-PS / PS2
step is run and the observed sequence is returned.  harness/c09.py compares it with Model/PsSweep.v.

Observed items:  ["K", dir, h]   local evolution; dir = "fwd"/"bwd" (krylov: the time argument equals
                                 -1j*evolve_dt/2 / +1j*evolve_dt/2) or "ivp" (ODE solver path: direction not visible);
                                 h = |half step|
                 ["QR"]          svd_qn.svd_qn(..., QR=True)
                 ["SET", i]      mps[i] = ...
                 ["UPD", [i,j]]  mps._update_mps(., [i, j], ...)
payload: {seed, n}
"""
import numpy as np
from c09_lib import *
import renormalizer.mps.mps as M
from renormalizer.mps import svd_qn as SQ

P = read_payload()
rs = np.random.RandomState(P["seed"] % (2 ** 31))
LOG = []
STATE = {"edt": None, "on": False}

_k = M.expm_krylov
_ivp = M.solve_ivp
_svd = SQ.svd_qn
_set = M.Mps.__setitem__
_upd = M.Mps._update_mps


def k_shim(fun, t, v, *a, **kw):
    if STATE["on"]:
        half = STATE["edt"] / 2
        if np.isclose(t, -1j * half):
            d = "fwd"
        elif np.isclose(t, 1j * half):
            d = "bwd"
        else:
            d = "other:%r" % (t,)
        LOG.append(["K", d, float(abs(t))])
    return _k(fun, t, v, *a, **kw)


IVP = {"max_err": 0.0, "span_ok": True, "n": 0}


def ivp_shim(fun, span, y0, *a, **kw):
    sol = _ivp(fun, span, y0, *a, **kw)
    if STATE["on"]:
        LOG.append(["K", "ivp", float(abs(span[1] - span[0]))])
        # contract of the local ODE solve: entered with t_span = (0, +-|half step|) of the requested sign, returns y(t_end) of the
        # linear system y' = A y (A assembled column by column from the right-hand side, reference = dense expm)
        half = STATE["edt"] / 2
        want = -half.imag if np.iscomplex(half) else float(np.real(half))
        IVP["span_ok"] = IVP["span_ok"] and span[0] == 0 and np.isclose(span[1], want)
        y0 = np.asarray(y0)
        if y0.size <= 96:
            A = np.stack([np.asarray(fun(0.0, e)) for e in np.eye(y0.size, dtype=complex)], axis=1)
            ref = sla.expm(A * (span[1] - span[0])) @ y0
            y = np.asarray(sol.y)
            y = y[:, -1] if y.ndim == 2 else y
            IVP["max_err"] = max(IVP["max_err"], float(np.linalg.norm(y - ref) / max(np.linalg.norm(ref), 1e-300)))
            IVP["n"] += 1
    return sol


def svd_shim(*a, **kw):
    if STATE["on"] and kw.get("QR"):
        LOG.append(["QR"])
    return _svd(*a, **kw)


def set_shim(self, key, value):
    if STATE["on"] and isinstance(key, (int, np.integer)):
        LOG.append(["SET", int(key)])
    return _set(self, key, value)


def upd_shim(self, cstruct, cidx, *a, **kw):
    if STATE["on"]:
        LOG.append(["UPD", [int(c) for c in cidx]])
    STATE["on"], was = False, STATE["on"]
    try:
        return _upd(self, cstruct, cidx, *a, **kw)
    finally:
        STATE["on"] = was


M.expm_krylov = k_shim
M.solve_ivp = ivp_shim
SQ.svd_qn = svd_shim
M.Mps.__setitem__ = set_shim
M.Mps._update_mps = upd_shim

runs = []
for k in range(int(P.get("n", 8))):
    if k % 2 == 0:
        n = int(rs.choice([3, 4, 5]))
        model, h, dims = spin_model(n, rs)
        qn = 0
    else:
        model, h, dims, info = holstein_model(2, int(rs.choice([2, 3])), rs)
        qn = 1
        n = 4
    mpo = Mpo(model)
    m = int(rs.choice([2, 3, 16]))
    st = rand_state(model, rs, qn, m)
    start = str(rs.choice(["left", "right"]))
    if start == "right":
        st.ensure_right_canonical()
    scheme = str(rs.choice(["tdvp_ps", "tdvp_ps", "tdvp_ps2"]))
    solver = str(rs.choice(["krylov", "krylov", "RK45"]))
    imag = bool(rs.rand() < 0.3)
    dt = float(rs.choice([0.125, 0.25, 0.0625])) * (1.0 if (imag or rs.rand() < 0.5) else -1.0)     # backward propagation too
    a = st.copy()
    set_cfg(a, scheme, m_max=max(m, 4), ivp_solver=solver)
    to_right0, q0 = bool(a.to_right), int(a.qnidx)
    edt = -1j * dt if imag else dt
    # the non-krylov branch converts an imaginary step to a real one
    STATE["edt"] = edt
    IVP.update(max_err=0.0, span_ok=True, n=0)
    del LOG[:]
    exc = None
    try:
        # PS methods copy the state first (to_complex / copy): logging starts at the first local evolution
        STATE["on"] = True
        out = a.evolve(mpo, edt)
    except Exception as e:
        exc = repr(e)[:300]
    finally:
        STATE["on"] = False
    first = next((i for i, x in enumerate(LOG) if x[0] == "K"), len(LOG))
    runs.append({"scheme": scheme, "solver": solver, "imag": imag, "n": n, "to_right": to_right0, "q": q0, "dt": dt,
                 "m": m, "obs": [list(x) for x in LOG[first:]], "exc": exc, "ivp_max_err": IVP["max_err"], "ivp_span_ok": bool(IVP["span_ok"]), "ivp_calls_checked": IVP["n"],
                 "end_to_right": bool(out.to_right) if exc is None else None, "end_q": int(out.qnidx) if exc is None else None})
emit({"runs": runs})
