"""C11 exact tie, second part: expectation values and reduced density matrices of Gaussian-integer tree states.

stdin : {"cases": [tree spec + {"state": {"seed":, "m":}, "terms": [...], "keep": [[..]...], "pterms": [...],
                                "pairs": [[i, j], ...] (abstract node ids)}], "out": file}
stdout: RESULT {"file": ...}; file: {"cases": [{"ok", "skip", "state": tree (entries [re, im]), "op": tree, "pop": tree with masks,
          "e_full": [re, im], "e_part": [re, im], "norm2": [re, im], "rdm1": {id: nested [re,im]}, "rdm1dof": {...},
          "rdm2": [{"i":, "j":, "t": nested}], "paths": {id: [child positions]}}]}
States: TTNS.random, every non-zero entry replaced by a + b*i with small integers a, b (so that conjugation is visible);
all results are Gaussian integers and are compared exactly with Model/TtnsEnv.v evaluated over GiRing.
"""
import traceback

import numpy as np

import c11_lib as L
from renormalizer.model.basis import BasisDummy
from renormalizer.tn import TTNS, TTNO, BasisTree, TreeNodeBasis


def gi(x):
    x = complex(x)
    re, im = int(round(x.real)), int(round(x.imag))
    if abs(x.real - re) > 1e-6 or abs(x.imag - im) > 1e-6:
        raise ValueError("non-integer value %r" % (x,))
    return [re, im]


def gi_nested(t):
    t = np.asarray(t)
    if t.ndim == 0:
        return gi(t)
    return [gi_nested(x) for x in t]


def export_state(tt, ids):
    idx = {n: i for i, n in enumerate(tt.node_list)}

    def rec(node):
        t = np.asarray(node.tensor)
        bn = tt.basis.node_list[idx[node]]
        return {"id": ids[idx[node]], "pd": [int(x) for x in bn.pbond_dims], "shape": [int(x) for x in t.shape],
                "t": gi_nested(t), "ch": [rec(c) for c in node.children]}
    return rec(tt.root)


def export_op(tt, ids, keep=None):
    idx = {n: i for i, n in enumerate(tt.node_list)}

    def rec(node):
        t = np.asarray(node.tensor)
        i = ids[idx[node]]
        return {"id": i, "shape": [int(x) for x in t.shape], "t": gi_nested(t), "keep": None if keep is None else keep[i],
                "ch": [rec(c) for c in node.children]}
    return rec(tt.root)


def run_case(case):
    out = {"ok": False, "skip": None}
    bt, nodes, _ = L.build_basis_tree(case)
    ids = L.abstract_ids(bt, nodes)
    rng = np.random.default_rng(case["seed"])
    qntot = L.qntot_of(case)
    try:
        np.random.seed(case["state"]["seed"] % (2 ** 32))
        a = TTNS.random(bt, qntot, case["state"]["m"])
    except Exception as e:
        out["skip"] = "TTNS.random: %r" % (e,)
        return out
    for node in a.node_list:
        t = np.array(node.tensor, dtype=float)
        mask = t != 0
        re = rng.integers(-2, 3, size=t.shape)
        im = rng.integers(-2, 3, size=t.shape)
        re[(re == 0) & (im == 0)] = 1
        node.tensor = np.where(mask, re + 1j * im, 0)
    try:
        ttno = TTNO(bt, L.build_terms(case, case["terms"]))
        keep = case["keep"]
        pn = {}
        for i, descs in enumerate(case["nodes"]):
            bs = [nodes[i].basis_sets[j] for j in keep[i]] if descs else []
            pn[i] = TreeNodeBasis(bs) if bs else TreeNodeBasis([L.dummy_basis(("pdummy", i), case.get("qn"))])
        for i, ch in enumerate(case["order"]):
            for c in ch:
                pn[i].add_child(pn[c])
        pbt = BasisTree(pn[0])
        pt = TTNO(pbt, L.build_terms(case, case["pterms"])) if case["pterms"] else None
    except Exception as e:
        out["skip"] = "TTNO(): %r" % (e,)
        return out
    out["state"] = export_state(a, ids)
    out["op"] = export_op(ttno, ids, [list(range(len(ds))) for ds in case["nodes"]])
    out["e_full"] = gi(a.expectation(ttno))
    if pt is not None:
        out["pop"] = export_op(pt, L.abstract_ids(pbt, pn), keep)
        out["e_part"] = gi(a.expectation(pt))
    out["norm2"] = gi(a.expectation(TTNO.dummy(bt)))
    r1 = a.calc_1site_rdm()
    out["rdm1"] = {str(ids[k]): gi_nested(v) for k, v in r1.items()}
    d1 = a.calc_1dof_rdm()
    out["rdm1dof"] = {str(k): gi_nested(v) for k, v in d1.items() if isinstance(k, str)}
    pos = {i: k for k, i in enumerate(ids)}
    r2 = []
    for i, j in case.get("pairs", []):
        v = a.calc_2site_rdm((pos[i], pos[j]))[(pos[i], pos[j])]
        r2.append({"i": i, "j": j, "t": gi_nested(v)})
    out["rdm2"] = r2
    out["ok"] = True
    return out


def main():
    payload = L.read_payload()
    res = []
    for case in payload["cases"]:
        try:
            res.append(run_case(case))
        except Exception:
            res.append({"ok": False, "skip": None, "error": traceback.format_exc(limit=6)[-1200:]})
    L.emit({"cases": res}, payload.get("out"))


if __name__ == "__main__":
    main()
