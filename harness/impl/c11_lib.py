"""Shared helpers of the C11 implementation-side scripts (run under /venv/bin/python, PYTHONPATH=/repo:/verif/pylib).

Tree spec (JSON, produced by harness/c11.py from ctx.rng):
  {"order": [[child ids in listed order] for every abstract node id],   # node 0 is the root
   "nodes": [[basis descriptors] for every abstract node id],           # [] -> BasisDummy node (TreeNodeBasis())
   "qn": bool, "qntot": int, "m": int, "seed": int}
basis descriptor: {"k": "spin"|"elec"|"sho", "n": nbas (sho only)}
DoF name of the j-th basis set of abstract node i: "n<i>_<j>"  (dummy nodes: ("Virtual DOF", k) chosen by the library).

Axis convention of every exported node tensor (exactly the library's):
  state   : [child_0, ..., child_{c-1}, phys_0, ..., phys_{k-1}, parent]       children in node.children order
  operator: [child_0, ..., child_{c-1}, up_0, down_0, ..., up_{k-1}, down_{k-1}, parent]
Exported as nested python lists (ndarray.tolist()) of ints.
"""
import json
import sys

import numpy as np

from renormalizer import BasisHalfSpin, BasisSimpleElectron, BasisSHO, Op, Mps, Model
from renormalizer.model.basis import BasisDummy
from renormalizer.tn import TTNS, TTNO, BasisTree, TreeNodeBasis


def qn_size(spec):
    """spec["qn"]: false / true (one quantum number: spins and electrons counted together) / 2 (two components:
    (number of up spins, number of electrons))"""
    return 2 if (spec.get("qn") == 2 and spec.get("qn") is not True) else 1


def qntot_of(spec):
    if not spec.get("qn"):
        return 0
    if qn_size(spec) == 2:
        return np.array([int(x) for x in spec["qntot"]])
    return int(spec["qntot"])


def dummy_basis(dof, qn):
    if qn == 2 and qn is not True:
        return BasisDummy(dof, sigmaqn=[[0, 0]])
    return BasisDummy(dof)


def make_basis(desc, dof, qn):
    k = desc["k"]
    two = (qn == 2 and qn is not True)
    if k == "spin":
        if two:
            return BasisHalfSpin(dof, sigmaqn=[[0, 0], [1, 0]])
        return BasisHalfSpin(dof, sigmaqn=[0, 1]) if qn else BasisHalfSpin(dof)
    if k == "elec":
        if two:
            return BasisSimpleElectron(dof, sigmaqn=[[0, 0], [0, 1]])
        return BasisSimpleElectron(dof) if qn else BasisSimpleElectron(dof, sigmaqn=[0, 0])
    if k == "sho":
        b = BasisSHO(dof, omega=1.0, nbas=int(desc["n"]))
        if two:
            b.sigmaqn = np.zeros((b.nbas, 2), dtype=int)
        return b
    raise ValueError(k)


def build_basis_tree(spec, order=None):
    """Returns (BasisTree, {abstract id: TreeNodeBasis}, {dof: basis}).  `order` overrides spec['order']
    (same tree, children listed differently)."""
    order = spec["order"] if order is None else order
    qn = spec.get("qn")
    nodes = {}
    dof2basis = {}
    for i, descs in enumerate(spec["nodes"]):
        if not descs:
            nodes[i] = TreeNodeBasis([dummy_basis(("dummy", i), qn)])
        else:
            bs = []
            for j, d in enumerate(descs):
                dof = "n%d_%d" % (i, j)
                b = make_basis(d, dof, qn)
                dof2basis[dof] = b
                bs.append(b)
            nodes[i] = TreeNodeBasis(bs)
    for i, ch in enumerate(order):
        for c in ch:
            nodes[i].add_child(nodes[c])
    return BasisTree(nodes[0]), nodes, dof2basis


def abstract_ids(basis_tree, nodes):
    """abstract id of every node of basis_tree.node_list (pre-order of the tree as built)."""
    inv = {id(n): i for i, n in nodes.items()}
    return [inv[id(n)] for n in basis_tree.node_list]


def real_order(basis_tree):
    """all basis sets with more than one basis function in a canonical order that does not depend on how children are
    listed.  Basis sets with nbas == 1 (BasisDummy, but also e.g. BasisSHO(nbas=1)) carry no axis in TTNS.todense: the
    library squeezes every size-1 physical axis."""
    bs = [b for b in basis_tree.basis_list if b.nbas > 1]
    return sorted(bs, key=lambda b: str(b.dofs))


def full_order(basis_tree):
    """all basis sets incl. dummy ones (dimension 1), canonical order"""
    return sorted(basis_tree.basis_list, key=lambda b: str(b.dofs))


def dense(ttns, order=None):
    """dense tensor of the state with one axis per non-dummy basis set in canonical order.
    (TTNS.todense() with a BasisDummy in `order` raises KeyError -- see notes/C11.md, key ttns-todense-dummy.)"""
    if order is None:
        order = real_order(ttns.basis)
    v = np.asarray(ttns.todense(order))
    return v * ttns.coeff if np.ndim(ttns.coeff) == 0 else v


def integerise(ttns, rng, lo=-2, hi=2):
    """Replace every non-zero entry of every node tensor by a small non-zero integer (keeps the quantum-number
    sparsity pattern, so the result is a legal TTNS for add / scale / apply)."""
    for node in ttns.node_list:
        t = np.array(node.tensor, dtype=float)
        mask = t != 0
        vals = rng.integers(lo, hi + 1, size=t.shape)
        vals[vals == 0] = 1
        t2 = np.where(mask, vals, 0).astype(float)
        node.tensor = t2
    return ttns


def export_tree(tt, ids, kind):
    """Recursive export following the tree's own children order."""
    idx = {n: i for i, n in enumerate(tt.node_list)}

    def rec(node):
        t = np.asarray(node.tensor)
        ti = np.rint(t).astype(np.int64)
        if not np.array_equal(ti.astype(t.dtype), t):
            raise ValueError("non-integer tensor entry in exported %s" % kind)
        bn = tt.basis.node_list[idx[node]]
        return {"id": ids[idx[node]], "pd": [int(x) for x in bn.pbond_dims], "shape": [int(x) for x in t.shape],
                "t": ti.tolist(), "ch": [rec(c) for c in node.children]}

    return rec(tt.root)


def spin_like_dofs(spec):
    res = []
    for i, descs in enumerate(spec["nodes"]):
        for j, d in enumerate(descs):
            res.append(("n%d_%d" % (i, j), d["k"]))
    return res


def build_terms(spec, opspec):
    """opspec: list of terms; a term = {"f": int factor, "ops": [[symbol, dof], ...]} ; returns list[Op]"""
    qn = spec.get("qn")
    two = qn_size(spec) == 2
    kinds = dict(spin_like_dofs(spec))
    terms = []
    for t in opspec:
        syms = []
        dofs = []
        qns = []
        for s, dof in t["ops"]:
            syms.append(s)
            dofs.append(dof)
            q = 0
            if qn:
                if kinds[dof] == "spin":
                    q = {"sigma_+": -1, "sigma_-": 1}.get(s, 0)
                elif kinds[dof] == "elec":
                    q = {r"a^\dagger": 1, "a": -1}.get(s, 0)
            if two:
                q = [q, 0] if kinds[dof] == "spin" else ([0, q] if kinds[dof] == "elec" else [0, 0])
            qns.append(q)
        terms.append(Op(" ".join(syms), dofs, factor=t["f"], qn=qns))
    return terms


def read_payload():
    return json.loads(sys.stdin.read())


def emit(obj, path=None):
    """Large results go to the file named by the payload ("out"): common.impl_par reads the child's stdout only
    after it exited, so more than one pipe buffer (64 KB) on stdout would block the child forever."""
    if path:
        with open(path, "w") as f:
            json.dump(obj, f)
        print("RESULT " + json.dumps({"file": path}))
    else:
        print("RESULT " + json.dumps(obj))
