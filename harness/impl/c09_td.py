"""C09: adaptive general-RK propagation with a genuinely time-dependent Hamiltonian callable H(t) = H0 + f(t) H1.

The callable handed to evolve() is wrapped so that every time it is sampled at is recorded (the wrapped callable is
the user's own object: nothing of /repo is modified); the controller's DEBUG log gives the trial steps, enlargement
factors and decisions.  harness/c09.py replays the logged factors through Model/StepCtl.v (tdrk_run) and compares
the recorded sample times with  sample_times (t_c tableau) trace  =  c_i*dt + t0  for every trial, t0 being the time
covered by the accepted sub-steps -- an exact trace check.  In addition the result is compared with an independent
dense fixed-step RK4 integration (4000 steps) of  i y' = H(t) y.
payload: {seed, n}
"""
import logging
import re
import numpy as np
from c09_lib import *

P = read_payload()
rs = np.random.RandomState(P["seed"] % (2 ** 31))


class Cap(logging.Handler):
    def __init__(self):
        super().__init__(level=logging.DEBUG)
        self.msgs = []

    def emit(self, record):
        m = record.msg if isinstance(record.msg, str) else ""
        if m.startswith(("guess_dt:", "RKsolver:", "evolution not converged", "evolution converged", "sub-step")):
            self.msgs.append(m)


lg = logging.getLogger("renormalizer.mps.mps")
cap = Cap()
lg.addHandler(cap)
lg.setLevel(logging.DEBUG)
lg.propagate = False


def parse(msgs):
    its, cur = [], None
    for m in msgs:
        mm = re.match(r"guess_dt: (.*), try time step size: (.*)$", m)
        if mm:
            cur = {"guess": complex(mm.group(1)).real, "dt": complex(mm.group(2)).real, "p": None, "outcome": None}
            its.append(cur)
            continue
        mm = re.match(r"RKsolver:\S+ relative error: (.*), enlarge p parameter: (.*)$", m)
        if mm:
            cur["p"] = float(mm.group(2))
            continue
        if m.startswith("evolution not converged"):
            cur["outcome"] = "reject"
        elif m.startswith("evolution converged"):
            cur["outcome"] = "final"
        elif m.startswith("sub-step"):
            cur["outcome"] = "sub"
    return its


def dense_ref(hfun, psi, T, n=4000):
    y = psi.astype(complex)
    h = T / n
    f = lambda t, v: -1j * (hfun(t) @ v)
    for i in range(n):
        t = i * h
        k1 = f(t, y)
        k2 = f(t + h / 2, y + h / 2 * k1)
        k3 = f(t + h / 2, y + h / 2 * k2)
        k4 = f(t + h, y + h * k3)
        y = y + h / 6 * (k1 + 2 * k2 + 2 * k3 + k4)
    return y


runs = []
for k in range(int(P.get("n", 3))):
    n = int(rs.choice([3, 4]))
    model, h0, dims = spin_model(n, rs)
    h1terms = [(float(rs.uniform(0.5, 1.5)) * (1 if i % 2 else -1), [("X", i)]) for i in range(n)] + [(float(rs.uniform(0.5, 1.0)), [("Z", 0), ("Z", n - 1)])]
    h1 = np.zeros_like(h0)
    for f_, ops in h1terms:
        mats = [np.eye(2) for _ in range(n)]
        for s_, d_ in ops:
            mats[d_] = mats[d_] @ SPIN_MAT[s_]
        h1 += f_ * kron_all(mats)
    ham0 = list(model.ham_terms)
    ham1 = [Op(" ".join(s_ for s_, _ in ops), [d_ for _, d_ in ops], f_) for f_, ops in h1terms]
    w = float(rs.uniform(2.0, 4.0))
    drive = lambda t: np.sin(w * t) + 0.5 * t
    sampled = []

    def mpo_t(t, *args, **kwargs):
        sampled.append(float(t))
        return Mpo(Model(model.basis, ham0 + [o * float(drive(t)) for o in ham1]))
    st = rand_state(model, rs, 0, 16, complex_=bool(k % 2))
    psi = dense_of(st)
    solver = str(rs.choice(["RKF45", "Cash-Karp45"]))
    T = float(rs.choice([0.6, 0.9]))
    guess = float(T * rs.choice([0.13, 0.21, 1.0]))       # the last one starts with a rejected full step
    rtol = float(rs.choice([1e-4, 1e-5]))
    a = st.copy()
    set_cfg(a, "prop_and_compress_tdrk", m_max=64, rk_solver=solver, adaptive=True, guess_dt=guess, adaptive_rtol=rtol)
    cap.msgs = []
    exc = None
    err = None
    try:
        out = a.evolve(mpo_t, T)
        ref = dense_ref(lambda t: h0 + drive(t) * h1, psi, T)
        err = float(np.linalg.norm(dense_of(out) - ref))
        fin = float(complex(out.evolve_config.guess_dt).real)
    except Exception as e:
        exc, fin = repr(e)[:300], None
    its = parse(cap.msgs)
    nacc = sum(1 for i in its if i["outcome"] in ("sub", "final"))
    runs.append({"ctl": "tdrk", "scheme": "prop_and_compress_tdrk", "solver": solver, "imag": False, "target": T, "guess0": guess, "rtol": rtol,
                 "its": its, "final_guess": fin, "exc": exc, "sample_times": list(sampled), "err": err,
                 "bound": 10 * 32 * rtol * max(1, nacc) + 1e-8, "n_accepted": nacc})
emit({"runs": runs})
