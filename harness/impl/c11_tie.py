"""C11 exact tie: integer tree states through TTNS.add / TTNS.scale / TTNO.apply on /repo.

stdin : {"cases": [tree spec + {"states": [{"seed":, "m":}...], "ops": [[term...]...], "seq": [["add", j] |
                   ["scale", c] | ["apply", k] ...], "cap": max entries of one node tensor}], ...}
stdout: RESULT {"cases": [{"ok": bool, "skip": reason | None, "states": [tree...], "ops": [tree...],
                           "results": [tree after step 1, ...]}]}
Every tree is exported recursively in the library's own children order with the library's axis convention
(see c11_lib.export_tree).  States come from TTNS.random (so they carry the quantum-number sparsity
pattern and the bond dimensions the library chooses) with every non-zero entry replaced by a small integer.
Malformed cases ("malformed": "topology"): the second operand lives on a different tree; the library is
expected to raise.
"""
import traceback

import numpy as np

import c11_lib as L
from renormalizer.tn import TTNS, TTNO


def run_case(case):
    out = {"ok": False, "skip": None, "states": [], "ops": [], "results": []}
    bt, nodes, _ = L.build_basis_tree(case)
    ids = L.abstract_ids(bt, nodes)
    rng = np.random.default_rng(case["seed"])
    qntot = L.qntot_of(case)
    states = []
    try:
        for st in case["states"]:
            np.random.seed(st["seed"] % (2 ** 32))
            s = TTNS.random(bt, qntot, st["m"])
            L.integerise(s, rng)
            s.coeff = int(st.get("coeff", 1))
            states.append(s)
    except Exception as e:
        out["skip"] = "TTNS.random: %r" % (e,)
        return out
    if case.get("malformed") == "topology":
        bt2, nodes2, _ = L.build_basis_tree(case, case["order_bad"])
        try:
            np.random.seed(1)
            other = TTNS.random(bt2, qntot, 2)
            res = states[0].add(other)
            out["rejected"] = False
            out["note"] = "add of states on different trees returned shapes %s" % ([list(n.tensor.shape) for n in res.node_list],)
        except Exception as e:
            out["rejected"] = True
            out["note"] = repr(e)[:200]
        out["ok"] = True
        return out
    ops = []
    try:
        for terms in case["ops"]:
            ops.append(TTNO(bt, L.build_terms(case, terms)))
    except Exception as e:          # operator construction is C02's subject
        out["skip"] = "TTNO(): %r" % (e,)
        return out
    try:
        out["states"] = [L.export_tree(s, ids, "state") for s in states]
        out["ops"] = [L.export_tree(o, ids, "operator") for o in ops]
    except ValueError as e:
        out["skip"] = str(e)
        return out
    cur = states[0]
    cap = int(case.get("cap", 3000))
    for step in case["seq"]:
        if step[0] == "add":
            new = cur.add(states[step[1]])
        elif step[0] == "scale":
            new = cur.scale(int(step[1]))
        elif step[0] == "apply":
            new = ops[step[1]].apply(cur)
        else:
            raise ValueError(step)
        if max(int(np.prod(n.tensor.shape)) for n in new.node_list) > cap:
            break
        if max(float(np.abs(n.tensor).max()) for n in new.node_list) > 2 ** 40:
            break
        out["results"].append(L.export_tree(new, ids, "result"))
        out.setdefault("coeffs", []).append(int(new.coeff) if float(new.coeff) == int(new.coeff) else None)
        cur = new
    out["ok"] = True
    return out


def main():
    payload = L.read_payload()
    res = []
    for case in payload["cases"]:
        try:
            res.append(run_case(case))
        except Exception:
            res.append({"ok": False, "skip": None, "error": traceback.format_exc(limit=6)[-1200:], "states": [], "ops": [], "results": []})
    L.emit({"cases": res}, payload.get("out"))


if __name__ == "__main__":
    main()
