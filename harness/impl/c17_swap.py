"""C17: sequences of adjacent exchanges through Mpo.try_swap_site on Jordan-Wigner spin models.
stdin: {"cases": [{"nsp","seed","kind","qn","spelled": "qc"|"sigma","swap_jw": bool,"seq":[i,...]}]}
For every step the dense operator is compared with  P H P^T  (plain site permutation) and with  G H G^T  (product of
fermionic exchanges F = SWAP.diag(1,1,1,-1)); spectra are compared with the original one."""
import json
import os
import sys
import tempfile
import traceback

import numpy as np

import c17_lib as L
from renormalizer.model import h_qc, Model
from renormalizer.mps import Mpo



def L_emit(obj):
    """large results go through a file: the harness reads a pipe only after the process has exited"""
    fd, path = tempfile.mkstemp(prefix="verif_c17_", suffix=".json", dir="/tmp")
    with os.fdopen(fd, "w") as f:
        json.dump(obj, f)
    print("RESULT " + json.dumps({"file": path}))


def one(case):
    nsp = case["nsp"]
    n = 2 * nsp
    h, eri = L.make_integrals(nsp, case["seed"], case["kind"])
    sh, aseri = h_qc.int_to_h(h, eri)
    out = {"case": case}
    if not np.any(sh) and not np.any(aseri):
        out["empty"] = True
        return out
    basis, terms = h_qc.qc_model(sh, aseri, conserve_qn=case["qn"])
    if case["spelled"] == "sigma":
        terms = L.rename_terms(terms)
    out["nterms"] = len(terms)
    mpo = Mpo(Model(basis, terms))
    H = mpo.todense()
    scale = max(1.0, float(np.abs(H).max()))
    w0 = np.linalg.eigvalsh(H)
    P = np.eye(2 ** n)
    G = np.eye(2 ** n)
    steps = []
    for k, i in enumerate(case["seq"]):
        nb = list(mpo.model.basis)
        nb[i], nb[i + 1] = nb[i + 1], nb[i]
        try:
            mpo.try_swap_site(Model(nb, terms), case["swap_jw"])
        except AssertionError:
            tb = traceback.extract_tb(sys.exc_info()[2])[-1]
            out["raised"] = {"step": k, "pos": i, "where": "%s:%s" % (tb.name, tb.line), "bond_dims": [int(x) for x in mpo.bond_dims]}
            break
        except Exception:
            out["raised"] = {"step": k, "pos": i, "where": traceback.format_exc()[-600:], "other": True}
            break
        S, F = L.swap_mats(n, i)
        P = S @ P
        G = F @ G
        X = mpo.todense()
        steps.append({"plain": float(np.abs(X - P @ H @ P.T).max() / scale),
                      "fermi": float(np.abs(X - G @ H @ G.T).max() / scale),
                      "spec": float(np.abs(np.linalg.eigvalsh((X + X.T) / 2) - w0).max() / scale),
                      "herm": float(np.abs(X - X.T).max() / scale)})
    out["steps"] = steps
    if steps and "raised" not in out:
        out["probe"] = L.apply_probe(mpo, [1, 1] if case["qn"] else 0, case["seed"] % 1000)
    out["order"] = [b.dof for b in mpo.model.basis]
    out["bond_dims"] = [int(x) for x in mpo.bond_dims]
    return out


def main():
    payload = json.load(sys.stdin)
    res = []
    for c in payload["cases"]:
        try:
            res.append(one(c))
        except Exception:
            res.append({"case": c, "error": traceback.format_exc()[-1500:]})
    L_emit({"cases": res})


main()
